#!/usr/bin/env python3
"""mut.py FILE OLD NEW -- CMD...   apply a one-off textual mutation to /repo/FILE, run CMD, revert.
Used for sensitivity experiments only; /repo is always restored with git checkout."""
import subprocess, sys
i = sys.argv.index("--")
f, old, new = sys.argv[1:4]
cmd = sys.argv[i+1:]
p = "/repo/" + f
s = open(p).read()
old = old.encode().decode("unicode_escape"); new = new.encode().decode("unicode_escape")
if s.count(old) != 1:
    print("mut: OLD occurs %d times" % s.count(old)); sys.exit(3)
open(p, "w").write(s.replace(old, new))
try:
    r = subprocess.run(cmd)
    print("mut: command exit", r.returncode)
finally:
    subprocess.run(["git", "-C", "/repo", "checkout", "--", f])
