#!/usr/bin/env python3
"""Regenerates the findings list of DESIGN.md section 9 from known_findings.txt."""
import os, re
ROOT = os.path.dirname(os.path.dirname(os.path.abspath(__file__)))
items = []
for l in open(os.path.join(ROOT, "known_findings.txt")):
    l = l.strip()
    m = re.match(r"fixed: property=(C\d+) (\w+) (.*)", l)
    if m:
        items.append((m.group(1), "* **%s** (fixed %s) %s" % m.groups()))
        continue
    m = re.match(r"open: property=(C\d+) signature=(\S+) (.*)", l)
    if m:
        items.append((m.group(1), "* **%s** (OPEN %s) %s" % m.groups()))
items.sort(key=lambda x: x[0])
nf = sum(1 for _, s in items if "(fixed " in s)
no = len(items) - nf
head = ("%d genuine defects of ergo-services/ergo were reproduced by the checks against the real\n"
        "code. %d are repaired, each by one small `fix:` commit in /repo (the existing suite passes\n"
        "with them; the repair corrects the behaviour, no input is special-cased), %d are open\n"
        "findings whose repair needs a protocol or structural change. The list below is generated\n"
        "from `known_findings.txt` (tools/findings_md.py); \"fixed <commit>\" names the /repo commit.\n\n" % (len(items), nf, no))
p = os.path.join(ROOT, "DESIGN.md")
s = open(p).read()
a = s.index("## 9. What the checks found")
a = s.index("\n", a) + 1
b = s.index("Three observations that are *not* claimed")
s = s[:a] + "\n" + head + "\n".join(x for _, x in items) + "\n\n" + s[b:]
open(p, "w").write(s)
print("findings: %d (%d fixed, %d open)" % (len(items), nf, no))
