#!/usr/bin/env python3
"""seeded.py eval SRC_DIR ID PROP [--thorough] [--also Cxx,Cyy]

Confirms one seeded change and runs the checks against it, in a scratch worktree of /repo:
  1. the patch applies to /repo's HEAD and the tree builds,
  2. the demonstration passes without the patch and fails with it,
  3. the existing test suite (the packages that are not flaky on the unchanged tree) still passes,
  4. ./check PROP (quick; thorough with --thorough when quick misses) reports a violation or not;
     when it does not and --also names other properties, their quick checks are run as well (a change
     written against one property may break the behaviour that another property's check observes).
Writes /verif/seeded/ID/{patch.diff, demo/, meta.json} and removes the worktree.
"""
import json, os, shutil, subprocess, sys, time

ENV = dict(os.environ)
ENV.update({"GOFLAGS": "-mod=mod", "GOPROXY": "off", "GOSUMDB": "off", "GOTOOLCHAIN": "local"})
ROOT = "/verif"
also = []
FAST = "./gen/... ./lib/... ./meta/... ./net/... ./node/... ./act/... ./testing/unit/... ./testing/tests/002_distributed/..."


def sh(cmd, cwd, timeout, netns=False):
    if netns:
        cmd = "unshare -n sh -c 'ip link set lo up; %s'" % cmd.replace("'", "'\\''")
    t0 = time.time()
    try:
        p = subprocess.run(cmd, shell=True, cwd=cwd, env=ENV, stdout=subprocess.PIPE, stderr=subprocess.STDOUT,
                           text=True, timeout=timeout)
        return p.returncode, p.stdout, time.time() - t0
    except subprocess.TimeoutExpired as e:
        subprocess.run("pkill -9 -f %s" % cwd, shell=True)
        return 124, (e.stdout or b"").decode(errors="replace") if isinstance(e.stdout, bytes) else (e.stdout or ""), time.time() - t0


def main():
    src, sid, prop = sys.argv[2], sys.argv[3], sys.argv[4]
    thorough = "--thorough" in sys.argv
    global also
    also = sys.argv[sys.argv.index("--also") + 1].split(",") if "--also" in sys.argv else []
    wt = "/tmp/sw/" + sid
    out = os.path.join(ROOT, "seeded", sid)
    res = {"id": sid, "property": prop, "ran": []}
    os.makedirs("/tmp/sw", exist_ok=True)
    subprocess.run(["git", "-C", "/repo", "worktree", "remove", "--force", wt], stderr=subprocess.DEVNULL)
    shutil.rmtree(wt, ignore_errors=True)
    subprocess.run(["git", "-C", "/repo", "worktree", "prune"])
    subprocess.run(["git", "-C", "/repo", "worktree", "add", "-q", wt, "HEAD"], check=True)
    try:
        patch = os.path.join(src, "patch.diff")
        if os.path.exists(os.path.join(src, "patch.rebased.diff")):
            # the same change, re-applied by hand onto a later /repo HEAD (hook or fix commits touched the same lines)
            patch = os.path.join(src, "patch.rebased.diff")
            res["rebased"] = True
        rc, o, _ = sh("git apply --check %s" % patch, wt, 60)
        if rc != 0:
            rc, o, _ = sh("git apply --3way --check %s" % patch, wt, 60)
            res["applies"] = "3way" if rc == 0 else "no: " + o[-300:]
            if rc != 0:
                return finish(res, out, src, None)
        else:
            res["applies"] = "clean"
        demo_rel = "seeded_demo"
        shutil.copytree(os.path.join(src, "demo"), os.path.join(wt, demo_rel))
        demo_cmd = "timeout -s KILL 170 go test -vet=off -count=1 -timeout 150s ./%s/" % demo_rel
        rc, o, dt = sh(demo_cmd, wt, 200, netns=True)
        res["demo_without_patch"] = {"exit": rc, "s": round(dt, 1), "tail": o[-400:]}
        res["ran"].append(demo_cmd + "   (unpatched, private network namespace)")
        apply = "git apply %s" % patch if res["applies"] == "clean" else "git apply --3way %s" % patch
        rc, o, _ = sh(apply, wt, 60)
        if rc != 0:
            res["applies"] = "no: " + o[-300:]
            return finish(res, out, src, None)
        rc, o, _ = sh("git diff HEAD -- . ':!%s' > /tmp/sw/%s.applied.diff" % (demo_rel, sid), wt, 60)
        rc, o, dt = sh("go build ./... && go test -vet=off -count=1 -run '^$' ./... > /dev/null", wt, 600)
        res["builds"] = rc == 0
        if rc != 0:
            res["build_output"] = o[-600:]
            return finish(res, out, src, "/tmp/sw/%s.applied.diff" % sid)
        rc, o, dt = sh(demo_cmd, wt, 200, netns=True)
        res["demo_with_patch"] = {"exit": rc, "s": round(dt, 1), "tail": o[-600:]}
        res["ran"].append(demo_cmd + "   (patched)")
        suite = "timeout -s KILL 500 go test -vet=off -count=1 -timeout 240s %s" % FAST
        for attempt in range(3):  # 002_distributed and 001_local have tests that are flaky under load on the unchanged tree too
            rc, o, dt = sh(suite, wt, 520, netns=True)
            if rc == 0:
                break
        res["suite_fast"] = {"exit": rc, "s": round(dt, 1), "fails": [l for l in o.splitlines() if l.startswith(("FAIL", "--- FAIL", "panic:"))][:8]}
        res["suite_fast"]["attempts"] = attempt + 1
        res["ran"].append(suite + "   (patched; up to 3 attempts)")
        local = "timeout -s KILL 200 go test -vet=off -count=1 -timeout 150s -run '^TestT([0-9]|1[2-9]|XXX)[A-Za-z]' ./testing/tests/001_local"
        for attempt in range(3):
            rc, o, dt = sh(local, wt, 220, netns=True)
            if rc == 0:
                break
        res["suite_001_local_stable_part"] = {"exit": rc, "s": round(dt, 1), "fails": [l for l in o.splitlines() if l.startswith(("FAIL", "--- FAIL", "panic:"))][:8]}
        res["ran"].append(local + "   (patched; TestT10*/TestT11* hang on the unchanged tree too)")
        # the checks
        e = dict(ENV)
        e["VERIF_REPO"] = wt
        for tier in (["quick", "thorough"] if thorough else ["quick"]):
            t0 = time.time()
            p = subprocess.run(["./check", prop, "--tier", tier], cwd=ROOT, env=e, stdout=subprocess.PIPE, stderr=subprocess.STDOUT, text=True)
            viol = [l[:700] for l in p.stdout.splitlines() if l.startswith("VIOLATION")]
            res["check_" + tier] = {"exit": p.returncode, "s": round(time.time() - t0, 1), "violations": viol[:3],
                                    "summary": [l for l in p.stdout.splitlines() if l.startswith("verif:")][-2:]}
            res["ran"].append("VERIF_REPO=<worktree with the patch> ./check %s --tier %s" % (prop, tier))
            if p.returncode == 1:
                break
        if not any(res.get("check_" + t, {}).get("exit") == 1 for t in ("quick", "thorough")):
            for other in also:
                t0 = time.time()
                p = subprocess.run(["./check", other, "--tier", "quick"], cwd=ROOT, env=e, stdout=subprocess.PIPE, stderr=subprocess.STDOUT, text=True)
                viol = [l[:700] for l in p.stdout.splitlines() if l.startswith("VIOLATION")]
                res.setdefault("other_checks", {})[other] = {"exit": p.returncode, "s": round(time.time() - t0, 1), "violations": viol[:3]}
                res["ran"].append("VERIF_REPO=<worktree with the patch> ./check %s --tier quick" % other)
                if p.returncode == 1:
                    break
        return finish(res, out, src, "/tmp/sw/%s.applied.diff" % sid)
    finally:
        subprocess.run(["git", "-C", "/repo", "worktree", "remove", "--force", wt], stderr=subprocess.DEVNULL)
        shutil.rmtree(wt, ignore_errors=True)
        tag = "alt-" + "".join(c if c.isalnum() else "_" for c in wt).strip("_")
        shutil.rmtree(os.path.join(ROOT, ".build", tag), ignore_errors=True)
        subprocess.run(["git", "-C", "/repo", "worktree", "prune"])


def finish(res, out, src, applied):
    confirmed = (res.get("builds") and res.get("demo_without_patch", {}).get("exit") == 0
                 and res.get("demo_with_patch", {}).get("exit") not in (0, None)
                 and res.get("suite_fast", {}).get("exit") == 0
                 and res.get("suite_001_local_stable_part", {}).get("exit") == 0)
    res["confirmed"] = bool(confirmed)
    caught = None
    for tier in ("quick", "thorough"):
        c = res.get("check_" + tier)
        if c and c["exit"] == 1:
            caught = tier
    for other, c in res.get("other_checks", {}).items():
        if caught is None and c["exit"] == 1:
            caught = "quick (check of %s)" % other
    res["caught_by"] = caught
    os.makedirs("/tmp/sw/results", exist_ok=True)
    json.dump(res, open("/tmp/sw/results/%s.json" % res["id"], "w"), indent=1)
    if confirmed:
        shutil.rmtree(out, ignore_errors=True)
        os.makedirs(out)
        shutil.copy(applied or os.path.join(src, "patch.diff"), os.path.join(out, "patch.diff"))
        shutil.copytree(os.path.join(src, "demo"), os.path.join(out, "demo"))
        meta = {}
        try:
            meta = json.load(open(os.path.join(src, "meta.json")))
        except Exception:
            pass
        keep = {k: meta.get(k) for k in ("property", "title", "files", "what_breaks", "needs_to_manifest", "why_existing_tests_pass")}
        keep["property"] = res["property"]
        keep["verified_here"] = {k: res[k] for k in res if k not in ("ran",)}
        keep["what_was_run"] = res["ran"]
        json.dump(keep, open(os.path.join(out, "meta.json"), "w"), indent=1)
    print("%s confirmed=%s caught_by=%s applies=%s" % (res["id"], res["confirmed"], caught, res.get("applies")))
    return 0


if __name__ == "__main__":
    sys.exit(main())
