#!/usr/bin/env python3
"""sweep.py PROP [--n N] [--seed S] [--jobs J]

Mechanical sensitivity sweep for one property: small textual mutants (relational operator
flips, && <-> ||, dropped call statements, +-1 constants, break/continue) inside the source
ranges the property is anchored in (properties.jsonl, anchors.*.where, +-15 lines). For each
sampled mutant: scratch worktree of /repo under /tmp/sw, build, run the property's quick check
against it (VERIF_REPO); for mutants the check does not catch, the repository's own fast test
packages are run to see whether the existing tests catch them. Mutants that survive both are
written to /tmp/sw/sweep-PROP.json for triage: each one is either equivalent / outside the
property (nothing to do) or a gap in the check.

This is a development aid, not one of the registered checks; nothing in MANIFEST.json needs it.
"""
import json, os, random, re, subprocess, sys, hashlib, concurrent.futures as cf

ENV = dict(os.environ)
ENV.update({"GOFLAGS": "-mod=mod", "GOPROXY": "off", "GOSUMDB": "off", "GOTOOLCHAIN": "local"})
ROOT = "/verif"
FAST = "./gen/... ./lib/... ./meta/... ./net/... ./node/... ./act/... ./testing/unit/..."


def ranges(prop):
    out = {}
    a = prop["anchors"]
    for group in ("state", "mechanism"):
        for it in a.get(group, []):
            for m in re.finditer(r"([\w/\.]+\.go):([\d,\-\s]+)", it.get("where", "")):
                f = m.group(1)
                for part in m.group(2).split(","):
                    part = part.strip()
                    if not part:
                        continue
                    lo, _, hi = part.partition("-")
                    try:
                        lo = int(lo); hi = int(hi) if hi else lo
                    except ValueError:
                        continue
                    out.setdefault(f, []).append((max(1, lo - 15), hi + 15))
    return out


RULES = [
    (re.compile(r" == "), " != "), (re.compile(r" != "), " == "),
    (re.compile(r" <= "), " < "), (re.compile(r" >= "), " > "),
    (re.compile(r" < "), " <= "), (re.compile(r" > "), " >= "),
    (re.compile(r" && "), " || "), (re.compile(r" \|\| "), " && "),
    (re.compile(r" \+ 1\b"), " + 0"), (re.compile(r" - 1\b"), " - 0"),
    (re.compile(r"^(\s*)continue$"), r"\1break"), (re.compile(r"== false"), "== true"), (re.compile(r"== true"), "== false"),
]
CALL = re.compile(r"^\s*[\w\.\[\]]+\([^{}]*\)\s*$")
SKIPCALL = re.compile(r"^\s*(defer|go|return|panic|lib\.VerifPoint|[\w\.]*[Ll]og\(\)|.*\.Trace\(|.*\.Debug\(|.*\.Info\(|.*\.Warning\(|.*\.Error\(|fmt\.)")


def mutants(files):
    out = []
    for f, rs in files.items():
        p = os.path.join("/repo", f)
        if not os.path.exists(p):
            continue
        lines = open(p).read().split("\n")
        for i, line in enumerate(lines, 1):
            if not any(lo <= i <= hi for lo, hi in rs):
                continue
            s = line.strip()
            if not s or s.startswith("//") or "lib.Trace()" in line or "VerifPoint" in line:
                continue
            for rx, rep in RULES:
                for m in rx.finditer(line):
                    new = line[:m.start()] + rx.sub(rep, line[m.start():], count=1)
                    if new != line:
                        out.append((f, i, line, new))
            if CALL.match(line) and not SKIPCALL.match(line):
                out.append((f, i, line, re.match(r"^\s*", line).group(0) + "_ = 0 // dropped: " + s.replace("*/", "")))
    return out


def sh(cmd, cwd, timeout, env=ENV):
    try:
        p = subprocess.run(cmd, shell=True, cwd=cwd, env=env, stdout=subprocess.PIPE, stderr=subprocess.STDOUT, text=True, timeout=timeout)
        return p.returncode, p.stdout
    except subprocess.TimeoutExpired as e:
        subprocess.run("pkill -9 -f %s" % cwd, shell=True)
        return 124, ""


def run_one(prop, mu, idx):
    f, ln, old, new = mu
    tag = hashlib.sha1(("%s:%d:%s" % (f, ln, new)).encode()).hexdigest()[:8]
    wt = "/tmp/sw/sweep_%s_%s" % (prop, tag)
    res = {"file": f, "line": ln, "old": old.strip(), "new": new.strip(), "id": tag}
    subprocess.run(["git", "-C", "/repo", "worktree", "remove", "--force", wt], stderr=subprocess.DEVNULL)
    subprocess.run(["git", "-C", "/repo", "worktree", "prune"])
    if subprocess.run(["git", "-C", "/repo", "worktree", "add", "-q", wt, "HEAD"]).returncode != 0:
        res["status"] = "worktree-failed"
        return res
    try:
        p = os.path.join(wt, f)
        lines = open(p).read().split("\n")
        if lines[ln - 1] != old:
            res["status"] = "stale"
            return res
        lines[ln - 1] = new
        open(p, "w").write("\n".join(lines))
        rc, o = sh("go build ./... && go vet ./%s 2>&1 | grep -v '^#' | head -3" % os.path.dirname(f), wt, 300)
        if rc != 0 or "declared and not used" in o or "imported and not used" in o:
            res["status"] = "does-not-build"
            return res
        e = dict(ENV); e["VERIF_REPO"] = wt
        rc, o = sh("./check %s --tier quick" % prop, ROOT, 1500, env=e)
        res["check_exit"] = rc
        if rc == 1:
            res["status"] = "caught"
            v = [l for l in o.splitlines() if l.startswith("VIOLATION")]
            res["violation"] = v[0][:300] if v else ""
            return res
        if rc != 0:
            res["status"] = "check-inconclusive"
            return res
        rc, o = sh("unshare -n sh -c 'ip link set lo up; timeout -s KILL 400 go test -vet=off -count=1 -timeout 200s %s'" % FAST, wt, 450)
        res["suite_exit"] = rc
        res["status"] = "survived" if rc == 0 else "caught-by-existing-tests"
        if rc != 0:
            res["suite_fails"] = [l for l in o.splitlines() if l.startswith(("--- FAIL", "FAIL", "panic:"))][:4]
        return res
    finally:
        subprocess.run(["git", "-C", "/repo", "worktree", "remove", "--force", wt], stderr=subprocess.DEVNULL)
        subprocess.run("rm -rf %s /verif/.build/alt-%s" % (wt, "".join(c if c.isalnum() else "_" for c in wt).strip("_")), shell=True)
        subprocess.run(["git", "-C", "/repo", "worktree", "prune"])


def main():
    prop = sys.argv[1]
    n = int(sys.argv[sys.argv.index("--n") + 1]) if "--n" in sys.argv else 12
    seed = int(sys.argv[sys.argv.index("--seed") + 1]) if "--seed" in sys.argv else 1
    jobs = int(sys.argv[sys.argv.index("--jobs") + 1]) if "--jobs" in sys.argv else 2
    props = {json.loads(l)["id"]: json.loads(l) for l in open(os.path.join(ROOT, "properties.jsonl"))}
    ms = mutants(ranges(props[prop]))
    random.Random(seed).shuffle(ms)
    ms = ms[:n]
    os.makedirs("/tmp/sw", exist_ok=True)
    out = []
    with cf.ThreadPoolExecutor(max_workers=jobs) as ex:
        for r in ex.map(lambda im: run_one(prop, im[1], im[0]), enumerate(ms)):
            out.append(r)
            print("%s %s:%d %s  [%s -> %s]" % (r["status"], r["file"], r["line"], r.get("violation", "")[:80], r["old"][:60], r["new"][:60]), flush=True)
            json.dump(out, open("/tmp/sw/sweep-%s-%d.json" % (prop, seed), "w"), indent=1)
    c = {}
    for r in out:
        c[r["status"]] = c.get(r["status"], 0) + 1
    print("sweep %s: %s" % (prop, c))


if __name__ == "__main__":
    main()
