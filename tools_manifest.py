#!/usr/bin/env python3
"""Regenerates MANIFEST.json from manifest_src.json + checks.json (keeps the manifest valid and in sync)."""
import json, subprocess, sys, os
ROOT = os.path.dirname(os.path.abspath(__file__))
src = json.load(open(os.path.join(ROOT, "manifest_src.json")))
cfg = json.load(open(os.path.join(ROOT, "checks.json")))
props = [json.loads(l)["id"] for l in open(os.path.join(ROOT, "properties.jsonl"))]
checks = []
na = []
for pid in props:
    if pid in cfg and pid in src["checks"]:
        c = src["checks"][pid]
        checks.append({
            "property_id": pid,
            "quick_cmd": "./check %s --tier quick" % pid,
            "thorough_cmd": "./check %s --tier thorough" % pid,
            "evidence_file": "/verif/evidence/%s.json" % pid,
            "replay_cmd_template": "./check %s --replay {path}" % pid,
            "engine": "harness",
            "level_claimed": {"category": cfg[pid].get("level", "exploration"), "text": c["text"], "design_ref": "DESIGN.md section 6 " + pid},
            "level_note": c["note"],
            "technique": c["technique"],
        })
    else:
        na.append({"property_id": pid, "reason": src["not_applicable"].get(pid, "check not built yet in this session; no claim is made")})
try:
    commits = subprocess.run(["git", "-C", "/repo", "log", "--format=%h %s", "--grep=^hook:"], capture_output=True, text=True).stdout.strip().splitlines()
except Exception:
    commits = []
m = {
    "version": 1,
    "setup_cmd": "./check --setup",
    "hooks": {
        "guard": "verif",
        "enable": "go build tag: go test -tags verif (the harness module replaces ergo.services/ergo with /repo)",
        "baseline_off_cmd": src["baseline_off_cmd"],
        "source_commits": [c.split()[0] for c in commits],
        "add_only": True,
    },
    "engines": [{"name": "harness", "path": "/verif/harness", "serves_properties": [c["property_id"] for c in checks],
                 "kind_free_text": "Go module: rapid v1.3.0 property tests (stateful, shrinking), native go fuzzing, shared kit; driver /verif/check"}],
    "checks": checks,
    "notes": src["notes"],
    "not_applicable": na,
}
json.dump(m, open(os.path.join(ROOT, "MANIFEST.json"), "w"), indent=1)
print("MANIFEST.json: %d checks, %d not_applicable" % (len(checks), len(na)))
