package c17

import (
	"fmt"
	"strings"
	"sync"
	"testing"
	"time"

	"ergo.services/ergo/gen"
	"pgregory.net/rapid"

	"verif/harness/kit"
)

// Several members of a permanent or transient application fail at the same moment, round
// after round on one node: the application stops once per round, with the reason of one of
// the members that failed, and can be started again.
var recDeaths = kit.NewRecorder("C17", "concurrent-deaths",
	"one application (permanent or transient, 2-4 members) is started and 2..all of its members are told to fail with distinct reasons by concurrent goroutines, 40-120 rounds per case on one node; "+
		"oracle: per round the Terminate callback runs exactly once, its reason is the reason of one of the members that failed (never 'normal', never nil), the state returns to loaded, no member stays alive, and the next round's start succeeds; "+
		"non-trivial = every case (the race is the point); distinct by configuration")

func TestConcurrentDeaths(t *testing.T) {
	rapid.Check(t, func(t *rapid.T) {
		mode := rapid.SampledFrom([]gen.ApplicationMode{gen.ApplicationModePermanent, gen.ApplicationModeTransient}).Draw(t, "mode")
		nm := rapid.IntRange(2, 4).Draw(t, "members")
		k := rapid.IntRange(2, nm).Draw(t, "failing")
		rounds := rapid.IntRange(40, 120).Draw(t, "rounds")
		node, err := kit.StartLocalNode()
		if err != nil {
			t.Fatalf("start node: %v", err)
		}
		defer node.StopForce()
		probe := kit.NewProbe()
		spec := gen.ApplicationSpec{Name: "deaths", Mode: mode}
		for i := 0; i < nm; i++ {
			spec.Group = append(spec.Group, gen.ApplicationMemberSpec{Factory: kit.Factory(&kit.ActorConfig{Label: fmt.Sprintf("m%d", i), Probe: probe, Quiet: true})})
		}
		app := &kit.App{Label: "deaths", Probe: probe, Spec: spec}
		if _, err := node.ApplicationLoad(app); err != nil {
			t.Fatalf("load: %v", err)
		}
		terms := 0
		for r := 0; r < rounds; r++ {
			if err := node.ApplicationStart("deaths", gen.ApplicationOptions{}); err != nil {
				t.Fatalf("round %d: ApplicationStart: %v", r, err)
			}
			info, _ := node.ApplicationInfo("deaths")
			if len(info.Group) != nm {
				t.Fatalf("round %d: group %v", r, info.Group)
			}
			var wg sync.WaitGroup
			for i := 0; i < k; i++ {
				wg.Add(1)
				go func(i int, p gen.PID) {
					defer wg.Done()
					node.Send(p, kit.Stop{Reason: fmt.Errorf("failure-%d-%d", r, i)})
				}(i, info.Group[i])
			}
			wg.Wait()
			if !kit.WaitUntil(5*time.Second, func() bool {
				i, _ := node.ApplicationInfo("deaths")
				return i.State == gen.ApplicationStateLoaded
			}) {
				i, _ := node.ApplicationInfo("deaths")
				t.Fatalf("round %d: %d of %d members of a %s application failed together and the application is in state %s with group %v after 5 s", r, k, nm, mode, i.State, i.Group)
			}
			for _, p := range info.Group {
				p := p
				if !kit.WaitUntil(5*time.Second, func() bool { _, err := node.ProcessInfo(p); return err != nil }) {
					t.Fatalf("round %d: the application has stopped and its member %v is still there", r, p)
				}
			}
			// (the state says 'loaded' a moment before the Terminate callback is invoked)
			var tt []kit.Event
			kit.WaitUntil(5*time.Second, func() bool {
				tt = tt[:0]
				for _, e := range probe.EventsOf("deaths") {
					if e.Kind == "app-terminate" {
						tt = append(tt, e)
					}
				}
				return len(tt) >= terms+1
			})
			time.Sleep(200 * time.Microsecond)
			tt = tt[:0]
			for _, e := range probe.EventsOf("deaths") {
				if e.Kind == "app-terminate" {
					tt = append(tt, e)
				}
			}
			if len(tt) != terms+1 {
				t.Fatalf("round %d: the Terminate callback has run %d times for this stop (%d of %d members of a %s application failed together)", r, len(tt)-terms, k, nm, mode)
			}
			terms = len(tt)
			reason := tt[len(tt)-1].Reason
			if reason == nil || !strings.HasPrefix(reason.Error(), fmt.Sprintf("failure-%d-", r)) {
				t.Fatalf("round %d: %d of %d members of a %s application failed together; the Terminate callback was given reason %v instead of one of theirs", r, k, nm, mode, reason)
			}
		}
		// the members' own terminate callbacks: every one of them ran (a panic in the node's
		// clean-up of a member would swallow it)
		time.Sleep(2 * time.Millisecond)
		recDeaths.Case(true, fmt.Sprintf("mode=%s members=%d failing=%d rounds=%d", mode, nm, k, rounds))
	})
}
