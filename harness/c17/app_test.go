package c17

import (
	"errors"
	"fmt"
	"sort"
	"strings"
	"sync"
	"testing"
	"time"

	"ergo.services/ergo/gen"
	"pgregory.net/rapid"

	"verif/harness/kit"
)

func TestMain(m *testing.M) { kit.Main(m) }

var errInit = errors.New("member init failed")

// plan is what the harness tells the member factories of an application about the next start.
type plan struct {
	mu       sync.Mutex
	failInit int // index of the member whose Init fails (-1: none)
}

type appModel struct {
	idx      int
	name     gen.Atom
	n        int   // members
	deps     []int // indices of applications this one depends on (all lower)
	specMode gen.ApplicationMode
	plan     *plan
	beh      *kit.App
	// model state
	loaded   bool
	running  bool
	stopping bool // a graceful stop is pending behind a parked member
	mode     gen.ApplicationMode
	alive    map[int]bool
	parked   int // the member that keeps a graceful stop pending (stopping == true)
	starts   int
	terms    int
	// admissible reasons of the terms-th Terminate callback
	reasonOK func(error) bool
	reasonIs string
}

type world struct {
	t     *rapid.T
	node  gen.Node
	probe *kit.Probe
	apps  []*appModel
	gates map[string]chan struct{} // parked members by label
	trace []string
	crash int
	// evidence
	overlap, restartAfterStop bool
}

func (w *world) logf(f string, a ...any) { w.trace = append(w.trace, fmt.Sprintf(f, a...)) }

func (w *world) fatalf(f string, a ...any) {
	w.t.Helper()
	w.t.Fatalf("%s\n  history: %s", fmt.Sprintf(f, a...), strings.Join(w.trace, "; "))
}

func label(app, member int) string { return fmt.Sprintf("a%dm%d", app, member) }

// pidOf returns the pid of the latest incarnation of a member (by its init record).
func (w *world) pidOf(lbl string) (gen.PID, bool) {
	evs := w.probe.EventsOf(lbl)
	for i := len(evs) - 1; i >= 0; i-- {
		if evs[i].Kind == "init" {
			return evs[i].PID, evs[i].Reason == nil
		}
	}
	return gen.PID{}, false
}

func (w *world) isAlive(pid gen.PID) bool {
	info, err := w.node.ProcessInfo(pid)
	if err != nil {
		return false
	}
	return info.State != gen.ProcessStateZombee && info.State != gen.ProcessStateTerminated
}

func modeName(m gen.ApplicationMode) string { return m.String() }

func (w *world) newApp(i, n int, deps []int, mode gen.ApplicationMode) *appModel {
	a := &appModel{idx: i, name: gen.Atom(fmt.Sprintf("app%d", i)), n: n, deps: deps, specMode: mode, plan: &plan{failInit: -1}, alive: map[int]bool{}}
	spec := gen.ApplicationSpec{Name: a.name, Mode: mode}
	for _, d := range deps {
		spec.Depends.Applications = append(spec.Depends.Applications, gen.Atom(fmt.Sprintf("app%d", d)))
	}
	for j := 0; j < n; j++ {
		j := j
		cfg := &kit.ActorConfig{Label: label(i, j), Probe: w.probe,
			OnInit: func(x *kit.Actor, args ...any) error {
				a.plan.mu.Lock()
				fail := a.plan.failInit == j
				a.plan.mu.Unlock()
				if fail {
					return errInit
				}
				return nil
			}}
		spec.Group = append(spec.Group, gen.ApplicationMemberSpec{Factory: kit.Factory(cfg)})
	}
	a.beh = &kit.App{Label: string(a.name), Probe: w.probe, Spec: spec}
	return a
}

// observed state of an application
type obs struct {
	known  bool
	state  gen.ApplicationState
	group  int
	alive  []int
	starts int
	terms  int
	last   error
}

func (w *world) observe(a *appModel) obs {
	var o obs
	info, err := w.node.ApplicationInfo(a.name)
	if err == nil {
		o.known = true
		o.state = info.State
		o.group = len(info.Group)
	}
	for j := 0; j < a.n; j++ {
		if pid, ok := w.pidOf(label(a.idx, j)); ok && w.isAlive(pid) {
			o.alive = append(o.alive, j)
		}
	}
	o.starts, o.terms = a.beh.Counts()
	o.last = a.beh.LastReason()
	return o
}

func (a *appModel) aliveList() []int {
	var l []int
	for j, ok := range a.alive {
		if ok {
			l = append(l, j)
		}
	}
	sort.Ints(l)
	return l
}

// mismatch compares the model with the observation ("" = equal).
func (w *world) mismatch(a *appModel) string {
	o := w.observe(a)
	if o.known != a.loaded {
		return fmt.Sprintf("%s: known to the node = %v, model loaded = %v", a.name, o.known, a.loaded)
	}
	if !a.loaded {
		return ""
	}
	want := gen.ApplicationStateLoaded
	if a.running {
		want = gen.ApplicationStateRunning
	}
	if a.stopping {
		want = gen.ApplicationStateStopping
	}
	if o.state != want {
		return fmt.Sprintf("%s: state %s, expected %s (members alive %v, callbacks start=%d terminate=%d)", a.name, o.state, want, o.alive, o.starts, o.terms)
	}
	if fmt.Sprint(o.alive) != fmt.Sprint(a.aliveList()) {
		return fmt.Sprintf("%s (%s): members alive %v, expected %v", a.name, o.state, o.alive, a.aliveList())
	}
	if a.running && !a.stopping && o.group != len(a.aliveList()) {
		return fmt.Sprintf("%s: ApplicationInfo lists %d members, %d are alive", a.name, o.group, len(a.aliveList()))
	}
	if o.starts != a.starts || o.terms != a.terms {
		return fmt.Sprintf("%s: start callback ran %d times (expected %d), terminate callback %d times (expected %d)", a.name, o.starts, a.starts, o.terms, a.terms)
	}
	if a.terms > 0 && a.reasonOK != nil && !a.reasonOK(o.last) {
		return fmt.Sprintf("%s: terminate callback got reason %q, expected %s", a.name, fmt.Sprint(o.last), a.reasonIs)
	}
	return ""
}

func (w *world) settle() {
	var msg string
	ok := kit.WaitUntil(5*time.Second, func() bool {
		for _, a := range w.apps {
			if msg = w.mismatch(a); msg != "" {
				return false
			}
		}
		return true
	})
	if !ok {
		w.fatalf("%s (after 5 s)", msg)
	}
}

func is(target error) func(error) bool {
	return func(e error) bool { return e == target || errors.Is(e, target) }
}

// stopped applies "the application stopped" to the model.
func (a *appModel) stopped(ok func(error) bool, what string) {
	a.running, a.stopping = false, false
	a.alive = map[int]bool{}
	a.terms++
	a.reasonOK, a.reasonIs = ok, what
}

// memberGone applies the mode rule for one member termination.
func (w *world) memberGone(a *appModel, j int, reason error) {
	delete(a.alive, j)
	abnormal := reason != gen.TerminateReasonNormal && reason != gen.TerminateReasonShutdown
	switch {
	case a.stopping:
		if len(a.alive) == 0 {
			a.stopped(is(gen.TerminateReasonShutdown), "shutdown (stop request)")
		}
	case a.mode == gen.ApplicationModePermanent:
		a.stopped(is(reason), fmt.Sprintf("%q (the member's reason, permanent)", reason))
	case a.mode == gen.ApplicationModeTransient && abnormal:
		a.stopped(is(reason), fmt.Sprintf("%q (the member's reason, transient)", reason))
	case len(a.alive) == 0:
		// the last member is gone: a temporary application stops; the reason is not pinned down
		// beyond being the member's or normal
		a.stopped(func(e error) bool { return e == gen.TerminateReasonNormal || e == reason || errors.Is(e, reason) },
			fmt.Sprintf("normal or %q (last member)", reason))
	}
}

func (w *world) doStart(a *appModel, variant int, failAt int) {
	a.plan.mu.Lock()
	a.plan.failInit = failAt
	a.plan.mu.Unlock()
	mark := len(w.probe.Events())
	var err error
	var vname string
	switch variant {
	case 0:
		vname = "Start"
		err = w.node.ApplicationStart(a.name, gen.ApplicationOptions{})
	case 1:
		vname = "StartTemporary"
		err = w.node.ApplicationStartTemporary(a.name, gen.ApplicationOptions{})
	case 2:
		vname = "StartTransient"
		err = w.node.ApplicationStartTransient(a.name, gen.ApplicationOptions{})
	case 3:
		vname = "StartPermanent"
		err = w.node.ApplicationStartPermanent(a.name, gen.ApplicationOptions{})
	}
	a.plan.mu.Lock()
	a.plan.failInit = -1
	a.plan.mu.Unlock()
	w.logf("%s(%s,fail=%d)=%v", vname, a.name, failAt, err)

	// model
	var started []*appModel
	var expectErr bool
	const (
		rStarted = iota
		rRunning
		rFailed
	)
	var start func(x *appModel, top bool) int
	start = func(x *appModel, top bool) int {
		if !x.loaded {
			return rFailed
		}
		if variant == 0 {
			// the dependencies are visited first, also those of an application that is running already
			for _, d := range x.deps {
				if start(w.apps[d], false) == rFailed {
					return rFailed
				}
			}
		}
		if x.stopping {
			return rFailed
		}
		if x.running {
			return rRunning
		}
		if top && failAt >= 0 && failAt < x.n {
			return rFailed
		}
		x.running, x.mode = true, x.specMode
		if top {
			switch variant {
			case 1:
				x.mode = gen.ApplicationModeTemporary
			case 2:
				x.mode = gen.ApplicationModeTransient
			case 3:
				x.mode = gen.ApplicationModePermanent
			}
		}
		x.alive = map[int]bool{}
		for j := 0; j < x.n; j++ {
			x.alive[j] = true
		}
		x.starts++
		if x.terms > 0 {
			w.restartAfterStop = true
		}
		started = append(started, x)
		return rStarted
	}
	expectErr = start(a, true) != rStarted
	if expectErr && err == nil {
		w.fatalf("%s(%s) returned nil, an error was expected", vname, a.name)
	}
	if !expectErr && err != nil {
		w.fatalf("%s(%s) failed: %v", vname, a.name, err)
	}
	if !a.loaded && err != gen.ErrApplicationUnknown {
		w.fatalf("%s of an application that is not loaded returned %v", vname, err)
	}
	w.settle()
	// order: dependencies completely before dependents, members in spec order, then the start callback
	evs := w.probe.Events()[mark:]
	pos := map[string]int{}
	for i, e := range evs {
		if e.Kind == "init" || e.Kind == "app-start" {
			if _, seen := pos[e.Proc+"/"+e.Kind]; !seen {
				pos[e.Proc+"/"+e.Kind] = i
			}
		}
	}
	for _, x := range started {
		prev := -1
		for j := 0; j < x.n; j++ {
			p, ok := pos[label(x.idx, j)+"/init"]
			if !ok {
				w.fatalf("%s started but member %d was not", x.name, j)
			}
			if p < prev {
				w.fatalf("%s: member %d was started before member %d", x.name, j, j-1)
			}
			prev = p
		}
		cb, ok := pos[string(x.name)+"/app-start"]
		if !ok || cb < prev {
			w.fatalf("%s: the start callback did not run after the members had been started", x.name)
		}
		if variant == 0 {
			for _, d := range x.deps {
				dep := w.apps[d]
				if dcb, ok := pos[string(dep.name)+"/app-start"]; ok {
					if first := pos[label(x.idx, 0)+"/init"]; dcb > first {
						w.fatalf("%s was started before its dependency %s had finished starting", x.name, dep.name)
					}
				} else if !(dep.running) {
					w.fatalf("%s started although its dependency %s is not running", x.name, dep.name)
				}
			}
		}
	}
}

func reasonOf(kind int, n int) error {
	switch kind {
	case 0:
		return gen.TerminateReasonNormal
	case 1:
		return gen.TerminateReasonShutdown
	case 2:
		return fmt.Errorf("crash-%d", n)
	}
	return gen.TerminateReasonKill
}

// kill terminates member j of a (which is alive in the model) and returns the reason.
func (w *world) terminateMember(a *appModel, j int, kind int) error {
	lbl := label(a.idx, j)
	pid, _ := w.pidOf(lbl)
	w.crash++
	reason := reasonOf(kind, w.crash)
	if kind == 3 {
		w.node.Kill(pid)
	} else if err := w.node.Send(pid, kit.Stop{Reason: reason}); err != nil {
		w.fatalf("send to member %s: %v", lbl, err)
	}
	return reason
}

func (w *world) waitGone(a *appModel, j int) {
	lbl := label(a.idx, j)
	pid, _ := w.pidOf(lbl)
	if !kit.WaitUntil(5*time.Second, func() bool { return w.probe.Terminated(lbl, pid) }) {
		w.fatalf("member %s did not terminate", lbl)
	}
}

var recModel = kit.NewRecorder("C17", "model",
	"1-3 applications with 1-4 members each, dependency DAG, spec modes; a generated history of <= 30 steps of {Load, Unload, Start (with dependencies) / StartTemporary / StartTransient / StartPermanent, optionally with the Init of member k failing, member k terminates normally / with shutdown / abnormally / is killed, two members terminate concurrently, a member crashes while another one is busy in a handler and is then killed, Stop, StopForce, StopWithTimeout while a member is parked in a handler (then the member is released), Stop concurrent with a member crash}; "+
		"oracle: reference model of (loaded, running/stopping, mode, live members, start/terminate callback counts, admissible terminate reason) compared with ApplicationInfo, member liveness and an instrumented ApplicationBehavior after every step; return values of every call; dependencies finish starting before the dependent's first member, members start in spec order, start callback after them; a nil from a stop call implies state loaded and no member alive at that moment; "+
		"non-trivial = a stop/crash overlapping another termination cause, or a start after the application had stopped once; distinct by history")

func TestModel(t *testing.T) {
	rapid.Check(t, func(t *rapid.T) {
		node, err := kit.StartLocalNode()
		if err != nil {
			t.Fatalf("start node: %v", err)
		}
		w := &world{t: t, node: node, probe: kit.NewProbe(), gates: map[string]chan struct{}{}}
		defer func() {
			for _, ch := range w.gates {
				close(ch)
			}
			node.StopForce()
		}()
		napps := rapid.IntRange(1, 3).Draw(t, "apps")
		modes := []gen.ApplicationMode{gen.ApplicationModeTemporary, gen.ApplicationModeTransient, gen.ApplicationModePermanent}
		for i := 0; i < napps; i++ {
			var deps []int
			for d := 0; d < i; d++ {
				if rapid.Bool().Draw(t, "dep") {
					deps = append(deps, d)
				}
			}
			w.apps = append(w.apps, w.newApp(i, rapid.IntRange(1, 4).Draw(t, "members"), deps, rapid.SampledFrom(modes).Draw(t, "mode")))
		}
		steps := rapid.IntRange(4, 30).Draw(t, "steps")
		for s := 0; s < steps; s++ {
			a := w.apps[rapid.IntRange(0, napps-1).Draw(t, "app")]
			op := rapid.SampledFrom([]string{"load", "load", "start", "start", "start", "start-mode", "start-fail", "die", "die", "die", "die2", "die2", "crash+kill-busy", "stop", "stop", "force", "parked-stop", "parked-stop", "finish-stop", "finish-stop", "stop+crash", "unload"}).Draw(t, "op")
			switch op {
			case "load":
				_, err := w.node.ApplicationLoad(a.beh)
				if a.loaded {
					if err == nil {
						w.fatalf("loading %s twice succeeded", a.name)
					}
				} else if err != nil {
					w.fatalf("ApplicationLoad(%s): %v", a.name, err)
				}
				a.loaded = true
				w.logf("load(%s)", a.name)
			case "unload":
				err := w.node.ApplicationUnload(a.name)
				switch {
				case !a.loaded:
					if err != gen.ErrApplicationUnknown {
						w.fatalf("unloading the unknown %s returned %v", a.name, err)
					}
				case a.running || a.stopping:
					if err == nil {
						w.fatalf("unloading the running %s succeeded", a.name)
					}
				default:
					if err != nil {
						w.fatalf("ApplicationUnload(%s): %v", a.name, err)
					}
					a.loaded = false
				}
				w.logf("unload(%s)=%v", a.name, err)
			case "start":
				w.doStart(a, 0, -1)
			case "start-mode":
				w.doStart(a, rapid.IntRange(1, 3).Draw(t, "variant"), -1)
			case "start-fail":
				w.doStart(a, rapid.IntRange(0, 3).Draw(t, "variant"), rapid.IntRange(0, a.n-1).Draw(t, "fail-at"))
			case "die":
				l := a.aliveList()
				if !a.running || a.stopping || len(l) == 0 {
					continue
				}
				j := l[rapid.IntRange(0, len(l)-1).Draw(t, "member")]
				kind := rapid.IntRange(0, 3).Draw(t, "reason")
				reason := w.terminateMember(a, j, kind)
				w.waitGone(a, j)
				w.logf("die(%s,m%d,%v) mode=%s", a.name, j, reason, modeName(a.mode))
				w.memberGone(a, j, reason)
			case "die2":
				l := a.aliveList()
				if !a.running || a.stopping || len(l) < 2 {
					continue
				}
				i1 := rapid.IntRange(0, len(l)-1).Draw(t, "member1")
				i2 := rapid.IntRange(0, len(l)-2).Draw(t, "member2")
				if i2 >= i1 {
					i2++
				}
				// (two abnormal reasons are the interesting pair: the second one arrives while the first is being acted on)
				k1, k2 := rapid.SampledFrom([]int{0, 1, 2, 3, 2, 3}).Draw(t, "reason1"), rapid.SampledFrom([]int{0, 1, 2, 3, 2, 3}).Draw(t, "reason2")
				var r1, r2 error
				var wg sync.WaitGroup
				wg.Add(2)
				w.crash += 2
				c1, c2 := w.crash-1, w.crash
				go func() { defer wg.Done(); r1 = w.fire(a, l[i1], k1, c1) }()
				go func() { defer wg.Done(); r2 = w.fire(a, l[i2], k2, c2) }()
				wg.Wait()
				w.waitGone(a, l[i1])
				w.waitGone(a, l[i2])
				w.logf("die2(%s,m%d:%v,m%d:%v) mode=%s", a.name, l[i1], r1, l[i2], r2, modeName(a.mode))
				w.overlap = true
				// either order is admissible
				before := *a
				before.alive = map[int]bool{}
				for k, v := range a.alive {
					before.alive[k] = v
				}
				w.memberGone(a, l[i1], r1)
				if a.running {
					w.memberGone(a, l[i2], r2)
				}
				if !a.running && a.terms == before.terms+1 {
					ok1 := a.reasonOK
					what1 := a.reasonIs
					// the other order
					alt := before
					alt.alive = map[int]bool{}
					for k, v := range before.alive {
						alt.alive[k] = v
					}
					w.memberGone(&alt, l[i2], r2)
					if alt.running {
						w.memberGone(&alt, l[i1], r1)
					}
					ok2 := alt.reasonOK
					a.reasonOK = func(e error) bool { return ok1(e) || (ok2 != nil && ok2(e)) }
					a.reasonIs = what1 + " or " + alt.reasonIs
				}
			case "crash+kill-busy":
				// one member is busy in a handler, another one crashes (the application may begin to
				// stop: the busy one cannot react to its exit signal yet), then the busy one is killed:
				// a second, abnormal termination that arrives while the first is being acted on, and
				// the last member to leave
				l := a.aliveList()
				if !a.running || a.stopping || len(l) < 2 {
					continue
				}
				i1 := rapid.IntRange(0, len(l)-1).Draw(t, "busy-member")
				i2 := rapid.IntRange(0, len(l)-2).Draw(t, "crashing-member")
				if i2 >= i1 {
					i2++
				}
				busy, victim := l[i1], l[i2]
				blbl := label(a.idx, busy)
				bpid, _ := w.pidOf(blbl)
				g := kit.Gate{Entered: make(chan struct{}), Open: make(chan struct{})}
				if err := w.node.Send(bpid, g); err != nil {
					w.fatalf("park: %v", err)
				}
				<-g.Entered
				kind := rapid.IntRange(2, 3).Draw(t, "reason")
				reason := w.terminateMember(a, victim, kind)
				w.waitGone(a, victim)
				w.memberGone(a, victim, reason)
				time.Sleep(time.Duration(rapid.IntRange(0, 2).Draw(t, "hold-ms")) * time.Millisecond)
				w.node.Kill(bpid)
				close(g.Open)
				if !kit.WaitUntil(5*time.Second, func() bool { return w.probe.Terminated(blbl, bpid) }) {
					w.fatalf("member %s was killed and did not terminate", blbl)
				}
				if a.running {
					// (the first crash did not stop the application: the kill is a termination of its own)
					w.memberGone(a, busy, gen.TerminateReasonKill)
				}
				w.logf("crash+kill-busy(%s,m%d:%v,busy m%d) mode=%s", a.name, victim, reason, busy, modeName(a.mode))
				w.overlap = true
			case "stop":
				err := w.node.ApplicationStop(a.name)
				w.logf("stop(%s)=%v", a.name, err)
				switch {
				case !a.loaded:
					if err != gen.ErrApplicationUnknown {
						w.fatalf("stopping the unknown %s returned %v", a.name, err)
					}
				case a.stopping:
					if err == nil {
						w.fatalf("ApplicationStop(%s) returned nil while a stop is pending and a member is still alive", a.name)
					}
					continue
				case !a.running:
					if err != nil {
						w.fatalf("stopping %s, which is not running, returned %v", a.name, err)
					}
				default:
					if err != nil {
						w.fatalf("ApplicationStop(%s) of a running application whose members all react to exit signals returned %v", a.name, err)
					}
					w.assertStoppedNow(a, "ApplicationStop")
					a.stopped(is(gen.TerminateReasonShutdown), "shutdown (stop request)")
				}
			case "force":
				if a.stopping {
					continue
				}
				err := w.node.ApplicationStopForce(a.name)
				w.logf("force(%s)=%v", a.name, err)
				switch {
				case !a.loaded:
					if err != gen.ErrApplicationUnknown {
						w.fatalf("force-stopping the unknown %s returned %v", a.name, err)
					}
				case !a.running:
					if err != nil {
						w.fatalf("force-stopping %s, which is not running, returned %v", a.name, err)
					}
				default:
					if err == nil {
						w.assertStoppedNow(a, "ApplicationStopForce")
					}
					a.stopped(is(gen.TerminateReasonKill), "kill (forced stop)")
				}
			case "parked-stop":
				l := a.aliveList()
				if !a.running || a.stopping || len(l) == 0 {
					continue
				}
				j := l[rapid.IntRange(0, len(l)-1).Draw(t, "member")]
				lbl := label(a.idx, j)
				pid, _ := w.pidOf(lbl)
				g := kit.Gate{Entered: make(chan struct{}), Open: make(chan struct{})}
				if err := w.node.Send(pid, g); err != nil {
					w.fatalf("park: %v", err)
				}
				<-g.Entered
				w.gates[lbl] = g.Open
				err := w.node.ApplicationStopWithTimeout(a.name, 150*time.Millisecond)
				if err == nil {
					w.fatalf("ApplicationStopWithTimeout(%s) returned nil while member %s was still busy in a handler (alive)", a.name, lbl)
				}
				w.logf("parked-stop(%s,m%d)=%v", a.name, j, err)
				// everybody else is gone, the parked one is still there
				a.stopping = true
				for _, k := range l {
					if k != j {
						delete(a.alive, k)
					}
				}
				w.settle()
				if again := w.node.ApplicationStop(a.name); again == nil {
					w.fatalf("a second ApplicationStop(%s) returned nil while member %s was still alive", a.name, lbl)
				}
				// the application stays in state 'stopping' (other steps see it like that) until a
				// later finish-stop step, or the end of the history, lets the member go
				a.parked = j
				w.overlap = true
			case "finish-stop":
				if !a.stopping {
					continue
				}
				w.finishStop(a, rapid.IntRange(0, 1).Draw(t, "finish"))
			case "stop+crash":
				l := a.aliveList()
				if !a.running || a.stopping || len(l) == 0 {
					continue
				}
				j := l[rapid.IntRange(0, len(l)-1).Draw(t, "member")]
				kind := rapid.IntRange(0, 3).Draw(t, "reason")
				var serr, reason error
				var wg sync.WaitGroup
				wg.Add(2)
				w.crash++
				c := w.crash
				go func() { defer wg.Done(); reason = w.fire(a, j, kind, c) }()
				go func() { defer wg.Done(); serr = w.node.ApplicationStop(a.name) }()
				wg.Wait()
				w.logf("stop+crash(%s,m%d:%v)=%v mode=%s", a.name, j, reason, serr, modeName(a.mode))
				w.overlap = true
				if serr == nil {
					w.assertStoppedNow(a, "ApplicationStop (concurrent with a member crash)")
				} else if serr != gen.ErrApplicationStopping {
					w.fatalf("ApplicationStop(%s) concurrent with a member crash returned %v", a.name, serr)
				}
				// whichever came first, the application ends up stopped, once
				a.stopped(func(e error) bool {
					return e == gen.TerminateReasonShutdown || e == reason || errors.Is(e, reason) || e == gen.TerminateReasonNormal && a.mode != gen.ApplicationModePermanent
				}, fmt.Sprintf("shutdown or %q", reason))
			}
			w.settle()
		}
		// every application can be stopped and unloaded in the end
		for _, a := range w.apps {
			if a.stopping {
				w.finishStop(a, 0)
				w.settle()
			}
		}
		for _, a := range w.apps {
			if a.loaded && a.running && !a.stopping {
				if err := w.node.ApplicationStop(a.name); err != nil {
					w.fatalf("final ApplicationStop(%s): %v", a.name, err)
				}
				w.assertStoppedNow(a, "ApplicationStop")
				a.stopped(is(gen.TerminateReasonShutdown), "shutdown (stop request)")
			}
		}
		w.settle()
		labels := []string{}
		if w.overlap {
			labels = append(labels, "overlapping-causes")
		}
		if w.restartAfterStop {
			labels = append(labels, "restart-after-stop")
		}
		recModel.Case(w.overlap || w.restartAfterStop, strings.Join(w.trace, ";"), labels...)
	})
}

// finishStop ends a pending graceful stop: the busy member is released (how 0) or the
// application is stopped by force first (how 1).
func (w *world) finishStop(a *appModel, how int) {
	j := a.parked
	lbl := label(a.idx, j)
	open := w.gates[lbl]
	if how == 0 {
		close(open)
		delete(w.gates, lbl)
		w.waitGone(a, j)
		w.logf("finish-stop(%s,release)", a.name)
		w.memberGone(a, j, gen.TerminateReasonShutdown)
		return
	}
	ferr := w.node.ApplicationStopForce(a.name)
	close(open)
	delete(w.gates, lbl)
	w.waitGone(a, j)
	w.logf("finish-stop(%s,force)=%v", a.name, ferr)
	delete(a.alive, j)
	a.stopped(func(e error) bool { return e == gen.TerminateReasonKill || e == gen.TerminateReasonShutdown }, "shutdown or kill (stop, then forced stop)")
}

// fire is terminateMember without touching shared counters (usable from goroutines).
func (w *world) fire(a *appModel, j int, kind int, n int) error {
	lbl := label(a.idx, j)
	pid, _ := w.pidOf(lbl)
	reason := reasonOf(kind, n)
	if kind == 3 {
		w.node.Kill(pid)
	} else {
		w.node.Send(pid, kit.Stop{Reason: reason})
	}
	return reason
}

// assertStoppedNow: a stop call just returned nil - by then every member is gone and the state is loaded.
func (w *world) assertStoppedNow(a *appModel, call string) {
	o := w.observe(a)
	if len(o.alive) != 0 {
		w.fatalf("%s(%s) returned nil while members %v were still alive", call, a.name, o.alive)
	}
	if o.state != gen.ApplicationStateLoaded {
		w.fatalf("%s(%s) returned nil while the application state was %s", call, a.name, o.state)
	}
	if o.terms != a.terms+1 {
		w.fatalf("%s(%s) returned nil, the terminate callback has run %d times so far (expected %d)", call, a.name, o.terms, a.terms+1)
	}
}
