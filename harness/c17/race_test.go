//go:build verif

package c17

import (
	"errors"
	"fmt"
	"sync/atomic"
	"testing"
	"time"

	"ergo.services/ergo/gen"
	"ergo.services/ergo/lib"
	"pgregory.net/rapid"

	"verif/harness/kit"
)

var recRace = kit.NewRecorder("C17", "start-race",
	"one application with 2-4 members in a generated mode; member k sends itself a termination request from Init (reason normal or abnormal) and the yield point between 'member spawned' and 'member stored in the group' holds the starting goroutine until that member's terminate callback has run - the window in which the application does not know the member yet; then the start call continues; "+
		"oracle: by the mode rule the application either stops (no member alive, state loaded, terminate callback at most once and exactly once if the start callback ran) or keeps running with exactly the live members listed, in which case a following stop request succeeds, the terminate callback runs exactly once and a new start works; "+
		"non-trivial = the member was gone before the start goroutine passed the yield point; distinct by parameters")

func TestStartRace(t *testing.T) {
	rapid.Check(t, func(t *rapid.T) {
		n := rapid.IntRange(2, 4).Draw(t, "members")
		k := rapid.IntRange(0, n-1).Draw(t, "early-death")
		mode := rapid.SampledFrom([]gen.ApplicationMode{gen.ApplicationModeTemporary, gen.ApplicationModeTransient, gen.ApplicationModePermanent}).Draw(t, "mode")
		abnormal := rapid.Bool().Draw(t, "abnormal")
		reason := gen.TerminateReasonNormal
		if abnormal {
			reason = errors.New("early crash")
		}
		node, err := kit.StartLocalNode()
		if err != nil {
			t.Fatalf("start node: %v", err)
		}
		defer node.StopForce()
		probe := kit.NewProbe()
		w := &world{t: t, node: node, probe: probe, gates: map[string]chan struct{}{}}
		var armed atomic.Bool
		armed.Store(true)
		spec := gen.ApplicationSpec{Name: "app0", Mode: mode}
		for j := 0; j < n; j++ {
			j := j
			spec.Group = append(spec.Group, gen.ApplicationMemberSpec{Factory: kit.Factory(&kit.ActorConfig{Label: label(0, j), Probe: probe,
				OnInit: func(x *kit.Actor, args ...any) error {
					if j == k && armed.Load() {
						return x.Send(x.PID(), kit.Stop{Reason: reason})
					}
					return nil
				}})})
		}
		beh := &kit.App{Label: "app0", Probe: probe, Spec: spec}
		if _, err := node.ApplicationLoad(beh); err != nil {
			t.Fatalf("load: %v", err)
		}
		var hit atomic.Bool
		lib.SetVerifHook(func(name string, id uint64) {
			if name != "app.member.spawned" || !armed.Load() {
				return
			}
			pid, ok := w.pidOf(label(0, k))
			if !ok || pid.ID != id {
				return
			}
			if kit.WaitUntil(2*time.Second, func() bool { return probe.Terminated(label(0, k), pid) }) {
				hit.Store(true)
			}
		})
		serr := node.ApplicationStart("app0", gen.ApplicationOptions{})
		lib.SetVerifHook(nil)
		armed.Store(false)

		alive := func() []int {
			var l []int
			for j := 0; j < n; j++ {
				if pid, ok := w.pidOf(label(0, j)); ok && w.isAlive(pid) {
					l = append(l, j)
				}
			}
			return l
		}
		stops := mode == gen.ApplicationModePermanent || (mode == gen.ApplicationModeTransient && abnormal)
		desc := fmt.Sprintf("members=%d early=%d mode=%s abnormal=%v start=%v", n, k, mode, abnormal, serr)
		if stops {
			var info gen.ApplicationInfo
			ok := kit.WaitUntil(5*time.Second, func() bool {
				info, _ = node.ApplicationInfo("app0")
				starts, terms := beh.Counts()
				return info.State == gen.ApplicationStateLoaded && len(alive()) == 0 && (starts == 0 || terms == 1)
			})
			starts, terms := beh.Counts()
			if !ok || terms > 1 {
				t.Fatalf("%s: member %d terminated (%v) while the application was starting; 5 s later: state %s, members alive %v, start callback %d, terminate callback %d - by the mode rule the application stops", desc, k, reason, info.State, alive(), starts, terms)
			}
		} else {
			if serr != nil {
				t.Fatalf("%s: ApplicationStart failed although only a member that may come and go terminated", desc)
			}
			info, _ := node.ApplicationInfo("app0")
			if info.State != gen.ApplicationStateRunning || len(alive()) != n-1 {
				t.Fatalf("%s: state %s, members alive %v, expected running with %d members", desc, info.State, alive(), n-1)
			}
			if !kit.WaitUntil(2*time.Second, func() bool { i, _ := node.ApplicationInfo("app0"); return len(i.Group) == n-1 }) {
				info, _ = node.ApplicationInfo("app0")
				t.Fatalf("%s: ApplicationInfo lists %d members, %d are alive (the member that terminated during start-up is still listed)", desc, len(info.Group), n-1)
			}
			if err := node.ApplicationStopWithTimeout("app0", 2*time.Second); err != nil {
				info, _ = node.ApplicationInfo("app0")
				t.Fatalf("%s: stopping the application failed: %v (state %s, members alive %v)", desc, err, info.State, alive())
			}
			info, _ = node.ApplicationInfo("app0")
			starts, terms := beh.Counts()
			if info.State != gen.ApplicationStateLoaded || len(alive()) != 0 || starts != 1 || terms != 1 {
				t.Fatalf("%s: after the stop: state %s, alive %v, start callback %d, terminate callback %d", desc, info.State, alive(), starts, terms)
			}
		}
		// and it can be started again
		if err := node.ApplicationStart("app0", gen.ApplicationOptions{}); err != nil {
			t.Fatalf("%s: restart failed: %v", desc, err)
		}
		if l := alive(); len(l) != n {
			t.Fatalf("%s: after the restart members alive %v", desc, l)
		}
		recRace.Case(hit.Load(), desc)
	})
}

var recGhost = kit.NewRecorder("C17", "late-member",
	"a permanent or transient application with 2-3 members; one member fails and is held at the yield point between 'removed from the group' and 'decided what that means' (app.member.gone) while the other members are killed; as soon as the application reports state loaded it is started again; then the held member is released; "+
		"oracle: the run that was started last keeps running with all its members (nothing in it failed), the terminate callback has run exactly once (for the first run), and a stop request then ends it normally; "+
		"non-trivial = the held member was released after the restart, or the restart had to wait for it; distinct by parameters")

// TestLateMember: what a member's termination means is decided for the run it belonged to -
// however late that member gets round to it.
func TestLateMember(t *testing.T) {
	rapid.Check(t, func(t *rapid.T) {
		n := rapid.IntRange(2, 3).Draw(t, "members")
		mode := rapid.SampledFrom([]gen.ApplicationMode{gen.ApplicationModeTransient, gen.ApplicationModePermanent}).Draw(t, "mode")
		late := rapid.IntRange(0, n-1).Draw(t, "late-member")
		node, err := kit.StartLocalNode()
		if err != nil {
			t.Fatalf("start node: %v", err)
		}
		defer node.StopForce()
		probe := kit.NewProbe()
		w := &world{t: t, node: node, probe: probe, gates: map[string]chan struct{}{}}
		spec := gen.ApplicationSpec{Name: "app0", Mode: mode}
		for j := 0; j < n; j++ {
			spec.Group = append(spec.Group, gen.ApplicationMemberSpec{Factory: kit.Factory(&kit.ActorConfig{Label: label(0, j), Probe: probe, Quiet: true})})
		}
		beh := &kit.App{Label: "app0", Probe: probe, Spec: spec}
		if _, err := node.ApplicationLoad(beh); err != nil {
			t.Fatalf("load: %v", err)
		}
		if err := node.ApplicationStart("app0", gen.ApplicationOptions{}); err != nil {
			t.Fatalf("start: %v", err)
		}
		latePID, _ := w.pidOf(label(0, late))
		held := make(chan struct{})
		release := make(chan struct{})
		var once atomic.Bool
		lib.SetVerifHook(func(name string, id uint64) {
			if name == "app.member.gone" && id == latePID.ID && once.CompareAndSwap(false, true) {
				close(held)
				<-release
			}
		})
		defer lib.SetVerifHook(nil)
		node.Send(latePID, kit.Stop{Reason: errors.New("late member's failure")})
		select {
		case <-held:
		case <-time.After(5 * time.Second):
			close(release)
			t.Fatalf("the failing member never reached the yield point app.member.gone")
		}
		// the others go while it is held
		othersDone := make(chan struct{})
		go func() {
			for j := 0; j < n; j++ {
				if j != late {
					if pid, ok := w.pidOf(label(0, j)); ok {
						node.Kill(pid)
					}
				}
			}
			close(othersDone)
		}()
		restarted := false
		if kit.WaitUntil(100*time.Millisecond, func() bool {
			i, _ := node.ApplicationInfo("app0")
			return i.State == gen.ApplicationStateLoaded
		}) {
			// the stop has been finished without the held member: the application can be started again
			if err := node.ApplicationStart("app0", gen.ApplicationOptions{}); err != nil {
				close(release)
				t.Fatalf("the application is in state loaded and cannot be started: %v", err)
			}
			restarted = true
		}
		close(release)
		<-othersDone
		if !restarted {
			if !kit.WaitUntil(5*time.Second, func() bool {
				i, _ := node.ApplicationInfo("app0")
				return i.State == gen.ApplicationStateLoaded
			}) {
				i, _ := node.ApplicationInfo("app0")
				t.Fatalf("every member of the first run is gone and the application is in state %s", i.State)
			}
			if err := node.ApplicationStart("app0", gen.ApplicationOptions{}); err != nil {
				t.Fatalf("restart: %v", err)
			}
		}
		// the second run: nothing in it fails
		time.Sleep(time.Duration(20+rapid.IntRange(0, 60).Draw(t, "watch-ms")) * time.Millisecond)
		info, _ := node.ApplicationInfo("app0")
		var alive []int
		for j := 0; j < n; j++ {
			if pid, ok := w.pidOf(label(0, j)); ok && w.isAlive(pid) {
				alive = append(alive, j)
			}
		}
		_, terms := beh.Counts()
		desc := fmt.Sprintf("members=%d mode=%s late=%d restarted-while-held=%v", n, mode, late, restarted)
		if info.State != gen.ApplicationStateRunning || len(alive) != n {
			t.Fatalf("%s: the application was started again and nothing in the new run failed, yet its state is %s and the members alive are %v (a member of the previous run acted on it)", desc, info.State, alive)
		}
		if terms != 1 {
			t.Fatalf("%s: the terminate callback has run %d times, the application stopped once", desc, terms)
		}
		if err := node.ApplicationStopWithTimeout("app0", 3*time.Second); err != nil {
			t.Fatalf("%s: stopping the second run: %v", desc, err)
		}
		if _, terms := beh.Counts(); terms != 2 {
			t.Fatalf("%s: after stopping the second run the terminate callback has run %d times", desc, terms)
		}
		recGhost.Case(true, desc, fmt.Sprintf("restarted-while-held=%v", restarted))
	})
}
