//go:build verif

package c17

import (
	"errors"
	"fmt"
	"sync/atomic"
	"testing"
	"time"

	"ergo.services/ergo/gen"
	"ergo.services/ergo/lib"
	"pgregory.net/rapid"

	"verif/harness/kit"
)

var recRace = kit.NewRecorder("C17", "start-race",
	"one application with 2-4 members in a generated mode; member k sends itself a termination request from Init (reason normal or abnormal) and the yield point between 'member spawned' and 'member stored in the group' holds the starting goroutine until that member's terminate callback has run - the window in which the application does not know the member yet; then the start call continues; "+
		"oracle: by the mode rule the application either stops (no member alive, state loaded, terminate callback at most once and exactly once if the start callback ran) or keeps running with exactly the live members listed, in which case a following stop request succeeds, the terminate callback runs exactly once and a new start works; "+
		"non-trivial = the member was gone before the start goroutine passed the yield point; distinct by parameters")

func TestStartRace(t *testing.T) {
	rapid.Check(t, func(t *rapid.T) {
		n := rapid.IntRange(2, 4).Draw(t, "members")
		k := rapid.IntRange(0, n-1).Draw(t, "early-death")
		mode := rapid.SampledFrom([]gen.ApplicationMode{gen.ApplicationModeTemporary, gen.ApplicationModeTransient, gen.ApplicationModePermanent}).Draw(t, "mode")
		abnormal := rapid.Bool().Draw(t, "abnormal")
		reason := gen.TerminateReasonNormal
		if abnormal {
			reason = errors.New("early crash")
		}
		node, err := kit.StartLocalNode()
		if err != nil {
			t.Fatalf("start node: %v", err)
		}
		defer node.StopForce()
		probe := kit.NewProbe()
		w := &world{t: t, node: node, probe: probe, gates: map[string]chan struct{}{}}
		var armed atomic.Bool
		armed.Store(true)
		spec := gen.ApplicationSpec{Name: "app0", Mode: mode}
		for j := 0; j < n; j++ {
			j := j
			spec.Group = append(spec.Group, gen.ApplicationMemberSpec{Factory: kit.Factory(&kit.ActorConfig{Label: label(0, j), Probe: probe,
				OnInit: func(x *kit.Actor, args ...any) error {
					if j == k && armed.Load() {
						return x.Send(x.PID(), kit.Stop{Reason: reason})
					}
					return nil
				}})})
		}
		beh := &kit.App{Label: "app0", Probe: probe, Spec: spec}
		if _, err := node.ApplicationLoad(beh); err != nil {
			t.Fatalf("load: %v", err)
		}
		var hit atomic.Bool
		lib.SetVerifHook(func(name string, id uint64) {
			if name != "app.member.spawned" || !armed.Load() {
				return
			}
			pid, ok := w.pidOf(label(0, k))
			if !ok || pid.ID != id {
				return
			}
			if kit.WaitUntil(2*time.Second, func() bool { return probe.Terminated(label(0, k), pid) }) {
				hit.Store(true)
			}
		})
		serr := node.ApplicationStart("app0", gen.ApplicationOptions{})
		lib.SetVerifHook(nil)
		armed.Store(false)

		alive := func() []int {
			var l []int
			for j := 0; j < n; j++ {
				if pid, ok := w.pidOf(label(0, j)); ok && w.isAlive(pid) {
					l = append(l, j)
				}
			}
			return l
		}
		stops := mode == gen.ApplicationModePermanent || (mode == gen.ApplicationModeTransient && abnormal)
		desc := fmt.Sprintf("members=%d early=%d mode=%s abnormal=%v start=%v", n, k, mode, abnormal, serr)
		if stops {
			var info gen.ApplicationInfo
			ok := kit.WaitUntil(5*time.Second, func() bool {
				info, _ = node.ApplicationInfo("app0")
				starts, terms := beh.Counts()
				return info.State == gen.ApplicationStateLoaded && len(alive()) == 0 && (starts == 0 || terms == 1)
			})
			starts, terms := beh.Counts()
			if !ok || terms > 1 {
				t.Fatalf("%s: member %d terminated (%v) while the application was starting; 5 s later: state %s, members alive %v, start callback %d, terminate callback %d - by the mode rule the application stops", desc, k, reason, info.State, alive(), starts, terms)
			}
		} else {
			if serr != nil {
				t.Fatalf("%s: ApplicationStart failed although only a member that may come and go terminated", desc)
			}
			info, _ := node.ApplicationInfo("app0")
			if info.State != gen.ApplicationStateRunning || len(alive()) != n-1 {
				t.Fatalf("%s: state %s, members alive %v, expected running with %d members", desc, info.State, alive(), n-1)
			}
			if !kit.WaitUntil(2*time.Second, func() bool { i, _ := node.ApplicationInfo("app0"); return len(i.Group) == n-1 }) {
				info, _ = node.ApplicationInfo("app0")
				t.Fatalf("%s: ApplicationInfo lists %d members, %d are alive (the member that terminated during start-up is still listed)", desc, len(info.Group), n-1)
			}
			if err := node.ApplicationStopWithTimeout("app0", 2*time.Second); err != nil {
				info, _ = node.ApplicationInfo("app0")
				t.Fatalf("%s: stopping the application failed: %v (state %s, members alive %v)", desc, err, info.State, alive())
			}
			info, _ = node.ApplicationInfo("app0")
			starts, terms := beh.Counts()
			if info.State != gen.ApplicationStateLoaded || len(alive()) != 0 || starts != 1 || terms != 1 {
				t.Fatalf("%s: after the stop: state %s, alive %v, start callback %d, terminate callback %d", desc, info.State, alive(), starts, terms)
			}
		}
		// and it can be started again
		if err := node.ApplicationStart("app0", gen.ApplicationOptions{}); err != nil {
			t.Fatalf("%s: restart failed: %v", desc, err)
		}
		if l := alive(); len(l) != n {
			t.Fatalf("%s: after the restart members alive %v", desc, l)
		}
		recRace.Case(hit.Load(), desc)
	})
}
