package c02

import (
	"fmt"
	"sort"
	"strings"
	"sync"
	"testing"
	"time"

	"ergo.services/ergo/gen"
	"pgregory.net/rapid"

	"verif/harness/kit"
)

type numbered struct {
	Sender int
	N      int
}

var recSched = kit.NewRecorder("C02", "scheduled",
	"controlled scheduler over the yield points of process.run() and Route*: 2-3 plain-goroutine senders x 1-2 numbered messages (pid/name/alias addressing, normal/high/max priority, mailbox unbounded or 1..3) against the receiver's running->sleep transition, interleaving drawn by rapid; "+
		"oracle: after release, handled multiset == accepted sends (exactly once), refused sends never handled, and never the stable witness 'asleep with non-empty mailbox'; "+
		"non-trivial = a sender was parked at send.push/send.run at the same moment the runner was parked at run.tosleep/run.recheck/run.reacquire; distinct by point trace")

func propScheduled(t *rapid.T) {
	mbox := rapid.SampledFrom([]int64{0, 0, 1, 2, 3}).Draw(t, "mailbox")
	nsend := rapid.IntRange(2, 3).Draw(t, "senders")
	per := rapid.IntRange(1, 2).Draw(t, "per")
	type plan struct {
		mode int // 0 pid, 1 name, 2 alias
		prio gen.MessagePriority
	}
	plans := make([][]plan, nsend)
	for i := range plans {
		for j := 0; j < per; j++ {
			plans[i] = append(plans[i], plan{
				mode: rapid.IntRange(0, 2).Draw(t, "mode"),
				prio: rapid.SampledFrom([]gen.MessagePriority{gen.MessagePriorityNormal, gen.MessagePriorityNormal, gen.MessagePriorityHigh, gen.MessagePriorityMax}).Draw(t, "prio"),
			})
		}
	}
	choices := rapid.SliceOfN(rapid.IntRange(0, 5), 8, 48).Draw(t, "schedule")

	node, err := kit.StartLocalNode()
	if err != nil {
		t.Fatalf("start node: %v", err)
	}
	defer node.StopForce()

	probe := kit.NewProbe()
	var alias gen.Alias
	cfg := &kit.ActorConfig{Label: "recv", Probe: probe, OnInit: func(a *kit.Actor, args ...any) error { return nil }}
	pid, err := node.SpawnRegister("recv", kit.Factory(cfg), gen.ProcessOptions{MailboxSize: mbox})
	if err != nil {
		t.Fatalf("spawn: %v", err)
	}
	if err := kit.InProc(node, pid, func(a *kit.Actor) { alias, _ = a.CreateAlias() }); err != nil {
		t.Fatalf("inproc: %v", err)
	}
	if !kit.WaitUntil(2*time.Second, func() bool { return kit.Quiesced(node, pid) }) {
		t.Skip("receiver did not settle (inconclusive)")
	}

	s := kit.NewSched(func(name string, id uint64) bool {
		return id == pid.ID && (strings.HasPrefix(name, "run.") || strings.HasPrefix(name, "send."))
	})
	defer s.Close() // runs before node.StopForce

	var mu sync.Mutex
	okSet := map[numbered]bool{}
	errSet := map[numbered]error{}
	var wg sync.WaitGroup
	for i := 0; i < nsend; i++ {
		wg.Add(1)
		go func(i int) {
			defer wg.Done()
			for j, p := range plans[i] {
				m := numbered{i, j}
				var to any = pid
				switch p.mode {
				case 1:
					to = gen.Atom("recv")
				case 2:
					to = alias
				}
				err := node.SendWithPriority(to, m, p.prio)
				mu.Lock()
				if err == nil {
					okSet[m] = true
				} else {
					errSet[m] = err
				}
				mu.Unlock()
			}
		}(i)
	}
	doneCh := make(chan struct{})
	go func() { wg.Wait(); close(doneCh) }()
	done := func() bool {
		select {
		case <-doneCh:
			return true
		default:
			return false
		}
	}
	steps := s.Run(choices, done, 3*time.Second)
	s.Close()
	<-doneCh

	// oracle
	settled := kit.WaitUntil(500*time.Millisecond, func() bool { return kit.Quiesced(node, pid) })
	if !settled {
		if stuck, w := kit.Stuck(node, pid); stuck {
			t.Fatalf("lost wake-up: receiver %s after all senders returned; trace=%v", w, s.Trace)
		}
		if !kit.WaitUntil(3*time.Second, func() bool { return kit.Quiesced(node, pid) }) {
			if stuck, w := kit.Stuck(node, pid); stuck {
				t.Fatalf("lost wake-up: receiver %s after all senders returned; trace=%v", w, s.Trace)
			}
			t.Skip("receiver did not quiesce within the deadline (inconclusive)")
		}
	}
	handled := map[numbered]int{}
	for _, e := range probe.EventsOf("recv") {
		if m, ok := e.Msg.(numbered); ok {
			handled[m]++
		}
	}
	mu.Lock()
	defer mu.Unlock()
	for m := range okSet {
		if handled[m] != 1 {
			t.Fatalf("send of %v reported success but was handled %d times (mailbox=%d); trace=%v", m, handled[m], mbox, s.Trace)
		}
	}
	for m, e := range errSet {
		if handled[m] != 0 {
			t.Fatalf("send of %v reported error %v but was handled %d times", m, e, handled[m])
		}
		if mbox == 0 {
			t.Fatalf("send of %v to a live process with an unbounded mailbox failed: %v", m, e)
		}
	}
	for m, c := range handled {
		if !okSet[m] && errSet[m] == nil || c > 1 {
			t.Fatalf("message %v handled %d times without a matching accepted send", m, c)
		}
	}
	if n, d := probe.Overlaps(); n > 0 {
		t.Fatalf("callbacks overlapped: %v", d)
	}

	nontrivial := false
	for pair := range s.CoPark {
		ab := strings.Split(pair, "|")
		isSend := func(x string) bool { return strings.HasPrefix(x, "send.") }
		isSleep := func(x string) bool { return x == "run.tosleep" || x == "run.recheck" || x == "run.reacquire" }
		if (isSend(ab[0]) && isSleep(ab[1])) || (isSend(ab[1]) && isSleep(ab[0])) {
			nontrivial = true
		}
	}
	var seen []string
	for k := range s.Seen {
		seen = append(seen, k)
	}
	sort.Strings(seen)
	labels := []string{fmt.Sprintf("mailbox=%d", mbox)}
	if len(errSet) > 0 {
		labels = append(labels, "refused-push")
	}
	if nontrivial {
		labels = append(labels, "push-during-sleep-transition")
	}
	recSched.Case(nontrivial, fmt.Sprintf("mbox=%d steps=%d trace=%s", mbox, steps, strings.Join(s.Trace, ",")), labels...)
}

func TestScheduled(t *testing.T) {
	rapid.Check(t, propScheduled)
}
