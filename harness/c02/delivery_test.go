package c02

import (
	"errors"
	"fmt"
	"sort"
	"sync"
	"testing"
	"time"

	"ergo.services/ergo/gen"
	"pgregory.net/rapid"

	"verif/harness/kit"
)

var recDeliv = kit.NewRecorder("C02", "delivery",
	"real goroutines: 1-6 senders x 1-15 uniquely numbered items (message by pid/name/alias with normal/high/max priority, exit signal to a trapping receiver, request from a sender process, event publication, SendAfter with a racing cancel) against a receiver with mailbox {unbounded,1,2,3,8}, fallback {none, other process (mailbox unbounded, 1 or 2), itself, missing name}, handler cost 0-20us, optionally parked behind a gate while the senders run; "+
		"oracle (conservation both ways): handled-by-receiver + handled-by-fallback == accepted sends as multisets, refused sends handled nowhere, fallback copies carry MessageFallback{PID,Tag,Message}, cancel()==true => never delivered, false => exactly once, never 'asleep with non-empty mailbox'; "+
		"non-trivial = at least one refused push, or >= 2 concurrent senders with >= 5 items in total, or a cancel within 300us of the timer's due time; distinct by case script")

type item struct {
	Sender int
	N      int
}

type sendPlan struct {
	Kind  int // 0 msg, 1 exit signal, 2 request, 3 event, 4 delayed
	Mode  int // 0 pid, 1 name, 2 alias
	Prio  gen.MessagePriority
	Delay int // ms, delayed only
	Cncl  int // 100us units, delayed only; -1 no cancel
	// Gone: the process that armed the delayed send terminates before the delay is over (the
	// send was accepted and never cancelled: it still takes place)
	Gone bool
}

func propDelivery(t *rapid.T) {
	mbox := rapid.SampledFrom([]int64{0, 0, 1, 2, 3, 8}).Draw(t, "mailbox")
	fbMode := 0
	if mbox > 0 {
		fbMode = rapid.IntRange(0, 3).Draw(t, "fallback") // 0 none 1 other 2 itself 3 missing
	}
	// the fallback process has a bounded mailbox of its own in some cases: what it cannot take is
	// refused to the sender, never reported as sent
	fbBox := int64(0)
	if fbMode == 1 {
		fbBox = rapid.SampledFrom([]int64{0, 0, 1, 2}).Draw(t, "fallback_mailbox")
	}
	spinNs := int64(rapid.IntRange(0, 20).Draw(t, "spin_us")) * 1000
	gated := rapid.Bool().Draw(t, "gated")
	nsend := rapid.IntRange(1, 6).Draw(t, "senders")
	plans := make([][]sendPlan, nsend)
	for i := range plans {
		n := rapid.IntRange(1, 15).Draw(t, "count")
		for j := 0; j < n; j++ {
			p := sendPlan{Mode: rapid.IntRange(0, 2).Draw(t, "mode"),
				Prio: rapid.SampledFrom([]gen.MessagePriority{gen.MessagePriorityNormal, gen.MessagePriorityNormal, gen.MessagePriorityHigh, gen.MessagePriorityMax}).Draw(t, "prio")}
			k := rapid.IntRange(0, 9).Draw(t, "kind")
			switch {
			case k == 6:
				p.Kind = 1
			case k == 7 && !gated:
				p.Kind = 2
			case k == 8 && mbox == 0:
				p.Kind = 3
			case k == 9:
				p.Kind = 4
				p.Delay = rapid.IntRange(0, 4).Draw(t, "delay_ms")
				p.Cncl = rapid.IntRange(-1, 60).Draw(t, "cancel_100us")
				if p.Cncl < 0 {
					p.Gone = rapid.Bool().Draw(t, "armed_by_a_process_that_terminates")
				}
			}
			plans[i] = append(plans[i], p)
		}
	}

	node, err := kit.StartLocalNode()
	if err != nil {
		t.Fatalf("start node: %v", err)
	}
	defer node.StopForce()
	probe := kit.NewProbe()

	fbCfg := &kit.ActorConfig{Label: "fb", Probe: probe}
	fbPID, err := node.SpawnRegister("fb", kit.Factory(fbCfg), gen.ProcessOptions{MailboxSize: fbBox})
	if err != nil {
		t.Fatalf("spawn fb: %v", err)
	}
	opts := gen.ProcessOptions{MailboxSize: mbox}
	switch fbMode {
	case 1:
		opts.Fallback = gen.ProcessFallback{Enable: true, Name: "fb", Tag: "tag-recv"}
	case 2:
		opts.Fallback = gen.ProcessFallback{Enable: true, Name: "recv", Tag: "tag-recv"}
	case 3:
		opts.Fallback = gen.ProcessFallback{Enable: true, Name: "nobody", Tag: "tag-recv"}
	}
	selfInit := rapid.IntRange(0, 3).Draw(t, "self_sends_in_init")
	selfInitPrio := make([]int, selfInit)
	for k := range selfInitPrio {
		selfInitPrio[k] = rapid.IntRange(0, 2).Draw(t, "self_send_prio")
	}
	var mu sync.Mutex
	okSet := map[item]sendPlan{}
	errSet := map[item]error{}
	rcfg := &kit.ActorConfig{Label: "recv", Probe: probe, Trap: true, SpinNs: spinNs,
		OnInit: func(a *kit.Actor, args ...any) error {
			for k := 0; k < selfInit; k++ {
				m := item{-1, k}
				var err error
				var to any = a.PID()
				if k%2 == 1 {
					to = gen.Atom("recv")
				}
				// every mailbox class must be looked at when Init is over, not only the main queue
				switch selfInitPrio[k] {
				case 0:
					err = a.Send(to, m)
				case 1:
					err = a.SendWithPriority(to, m, gen.MessagePriorityHigh)
				default:
					err = a.SendWithPriority(to, m, gen.MessagePriorityMax)
				}
				mu.Lock()
				if err == nil {
					okSet[m] = sendPlan{Mode: k % 2}
				} else {
					errSet[m] = err
				}
				mu.Unlock()
			}
			return nil
		}}
	pid, err := node.SpawnRegister("recv", kit.Factory(rcfg), opts)
	if err != nil {
		t.Fatalf("spawn recv: %v", err)
	}
	var alias gen.Alias
	evName := gen.Atom("ev")
	token, err := node.RegisterEvent(evName, gen.EventOptions{})
	if err != nil {
		t.Fatalf("register event: %v", err)
	}
	if !kit.WaitUntil(3*time.Second, func() bool { return kit.Quiesced(node, pid) }) {
		if stuck, w := kit.Stuck(node, pid); stuck {
			t.Fatalf("lost wake-up after init: receiver %s (self-sends in init: %d)", w, selfInit)
		}
		t.Skip("receiver did not settle after init (inconclusive)")
	}
	if err := kit.InProc(node, pid, func(a *kit.Actor) {
		alias, _ = a.CreateAlias()
		if mbox == 0 {
			if _, err := a.MonitorEvent(gen.Event{Name: evName}); err != nil {
				panic(err)
			}
		}
	}); err != nil {
		t.Fatalf("inproc: %v", err)
	}
	// sender processes (for requests and delayed sends)
	senders := make([]gen.PID, nsend)
	for i := range senders {
		sp, err := node.Spawn(kit.Factory(&kit.ActorConfig{Label: fmt.Sprintf("s%d", i), Probe: probe, Quiet: true}), gen.ProcessOptions{})
		if err != nil {
			t.Fatalf("spawn sender: %v", err)
		}
		senders[i] = sp
	}

	var gate kit.Gate
	if gated {
		gate = kit.Gate{Entered: make(chan struct{}), Open: make(chan struct{})}
		if err := node.SendWithPriority(pid, gate, gen.MessagePriorityMax); err != nil {
			t.Fatalf("gate: %v", err)
		}
		<-gate.Entered
	}
	var fbGate kit.Gate
	if gated && fbBox > 0 {
		// the bounded fallback process is parked as well, so that it really fills up
		fbGate = kit.Gate{Entered: make(chan struct{}), Open: make(chan struct{})}
		if err := node.SendWithPriority(fbPID, fbGate, gen.MessagePriorityMax); err != nil {
			t.Fatalf("gate fb: %v", err)
		}
		<-fbGate.Entered
	}
	info0, _ := node.ProcessInfo(pid)

	cancelled := map[item]bool{}
	delayedUnknown := map[item]bool{} // cancel()==false: must arrive exactly once (unbounded) or at most once
	raced := false
	var wg sync.WaitGroup
	for i := 0; i < nsend; i++ {
		wg.Add(1)
		go func(i int) {
			defer wg.Done()
			for j, p := range plans[i] {
				m := item{i, j}
				var to any = pid
				switch p.Mode {
				case 1:
					to = gen.Atom("recv")
				case 2:
					to = alias
				}
				var err error
				switch p.Kind {
				case 0:
					err = node.SendWithPriority(to, m, p.Prio)
				case 1:
					var xerr error
					if e := kit.InProc(node, senders[i], func(a *kit.Actor) {
						xerr = a.SendExit(pid, fmt.Errorf("exit-%d-%d", i, j))
					}); e != nil {
						xerr = e
					}
					err = xerr
				case 2:
					var cerr error
					e := kit.InProc(node, senders[i], func(a *kit.Actor) {
						_, cerr = a.CallWithTimeout(to, m, 5)
					})
					if e != nil {
						cerr = e
					}
					err = cerr
				case 3:
					err = node.SendEvent(evName, token, gen.MessageOptions{Priority: p.Prio}, m)
				case 4:
					var cancel gen.CancelFunc
					armer := senders[i]
					if p.Gone {
						if tmp, serr := node.Spawn(kit.Factory(&kit.ActorConfig{Label: "armer", Probe: probe, Quiet: true}), gen.ProcessOptions{}); serr == nil {
							armer = tmp
						}
					}
					e := kit.InProc(node, armer, func(a *kit.Actor) {
						cancel, err = a.SendAfter(to, m, time.Duration(p.Delay)*time.Millisecond)
					})
					if p.Gone && armer != senders[i] {
						node.Kill(armer)
					}
					if e != nil || err != nil {
						if err == nil {
							err = e
						}
						break
					}
					if p.Cncl < 0 {
						mu.Lock()
						delayedUnknown[m] = true
						mu.Unlock()
						continue
					}
					time.Sleep(time.Duration(p.Cncl) * 100 * time.Microsecond)
					c := cancel()
					mu.Lock()
					if c {
						cancelled[m] = true
					} else {
						delayedUnknown[m] = true
					}
					if d := p.Cncl*100 - p.Delay*1000; d > -300 && d < 300 {
						raced = true
					}
					mu.Unlock()
					continue
				}
				mu.Lock()
				if err == nil {
					okSet[m] = p
				} else {
					errSet[m] = err
				}
				mu.Unlock()
			}
		}(i)
	}
	if gated {
		// let the senders hit the parked receiver, then open
		waitCh := make(chan struct{})
		go func() { wg.Wait(); close(waitCh) }()
		select {
		case <-waitCh:
		case <-time.After(time.Duration(rapid.IntRange(0, 3).Draw(t, "open_ms")) * time.Millisecond):
		}
		close(gate.Open)
		if fbGate.Open != nil {
			close(fbGate.Open)
		}
	}
	wg.Wait()
	time.Sleep(8 * time.Millisecond) // let the last delayed sends fire (max delay 4 ms)
	if mbox == 0 {
		// a timer may fire late on a busy machine: wait for the delayed items themselves
		kit.WaitUntil(5*time.Second, func() bool {
			seen := map[item]bool{}
			for _, e := range probe.EventsOf("recv") {
				if it, ok := e.Msg.(item); ok {
					seen[it] = true
				}
			}
			mu.Lock()
			defer mu.Unlock()
			for m := range delayedUnknown {
				if !seen[m] {
					return false
				}
			}
			return true
		})
	}

	quiet := func() bool { return kit.Quiesced(node, pid) }
	if !kit.WaitUntil(3*time.Second, quiet) {
		if stuck, w := kit.Stuck(node, pid); stuck {
			t.Fatalf("lost wake-up: receiver %s after all senders returned", w)
		}
		t.Skip("receiver did not quiesce (inconclusive)")
	}
	time.Sleep(2 * time.Millisecond)

	handledRecv := map[item]int{}
	handledFb := map[item]int{}
	exits := map[string]int{}
	for _, e := range probe.Events() {
		switch e.Proc {
		case "recv":
			switch m := e.Msg.(type) {
			case item:
				handledRecv[m]++
			case gen.MessageEvent:
				if it, ok := m.Message.(item); ok {
					handledRecv[it]++
				}
			case gen.MessageExitPID:
				exits[m.Reason.Error()]++
			}
		case "fb":
			if fm, ok := e.Msg.(gen.MessageFallback); ok {
				it, ok := fm.Message.(item)
				if !ok {
					t.Fatalf("fallback received a wrapped message of type %T", fm.Message)
				}
				if fm.PID != pid || fm.Tag != "tag-recv" {
					t.Fatalf("fallback copy of %v carries PID=%v Tag=%q, want PID=%v Tag=tag-recv", it, fm.PID, fm.Tag, pid)
				}
				handledFb[it]++
			} else if it, ok := e.Msg.(item); ok {
				t.Fatalf("fallback process received %v unwrapped", it)
			}
		}
	}
	mu.Lock()
	defer mu.Unlock()
	for m, p := range okSet {
		total := handledRecv[m] + handledFb[m]
		if p.Kind == 1 {
			total = exits[fmt.Sprintf("exit-%d-%d", m.Sender, m.N)]
		}
		if total != 1 {
			t.Fatalf("item %v (kind %d mode %d prio %v) was accepted but handled %d times (recv %d, fallback %d) mailbox=%d fallback=%d gated=%v",
				m, p.Kind, p.Mode, p.Prio, total, handledRecv[m], handledFb[m], mbox, fbMode, gated)
		}
		if handledFb[m] > 0 && fbMode != 1 {
			t.Fatalf("item %v reached the fallback process although no such fallback is configured", m)
		}
	}
	for m, e := range errSet {
		n := handledRecv[m] + handledFb[m] + exits[fmt.Sprintf("exit-%d-%d", m.Sender, m.N)]
		if n != 0 {
			// a request that timed out on the caller side is an error result although handled: allowed
			if m.Sender >= 0 && plans[m.Sender][m.N].Kind == 2 && errors.Is(e, gen.ErrTimeout) {
				continue
			}
			t.Fatalf("item %v was refused (%v) but handled %d times", m, e, n)
		}
		if mbox == 0 {
			t.Fatalf("item %v to a live unbounded receiver was refused: %v", m, e)
		}
		if fbMode == 1 && fbBox == 0 && errors.Is(e, gen.ErrProcessMailboxFull) && (m.Sender == -1 || plans[m.Sender][m.N].Kind == 0) {
			t.Fatalf("message %v was refused (%v) although a live fallback process with an unbounded mailbox is configured: it belongs to the fallback", m, e)
		}
		if m.Sender == -1 && int64(m.N) < mbox {
			t.Fatalf("self-send %v during init was refused (%v) although the mailbox (size %d) had room", m, e, mbox)
		}
	}
	for m := range cancelled {
		if handledRecv[m]+handledFb[m] != 0 {
			t.Fatalf("delayed item %v: cancel() reported success but the message was delivered", m)
		}
	}
	for m := range delayedUnknown {
		n := handledRecv[m] + handledFb[m]
		if n > 1 || (n != 1 && mbox == 0) {
			t.Fatalf("delayed item %v (not cancelled) delivered %d times, mailbox=%d", m, n, mbox)
		}
	}
	for m, c := range handledRecv {
		_, ok := okSet[m]
		if !ok && !delayedUnknown[m] && errSet[m] == nil || c > 1 {
			t.Fatalf("receiver handled %v %d times without a matching accepted send", m, c)
		}
	}
	if n, d := probe.Overlaps(); n > 0 {
		t.Fatalf("callbacks overlapped: %v", d)
	}

	_ = info0
	total := 0
	for _, ps := range plans {
		total += len(ps)
	}
	refused := len(errSet) > 0 || len(handledFb) > 0
	nontrivial := refused || raced || (nsend >= 2 && total >= 5)
	labels := []string{fmt.Sprintf("mailbox=%d", mbox), fmt.Sprintf("fallback=%d", fbMode)}
	if fbBox > 0 {
		labels = append(labels, "bounded-fallback")
	}
	if selfInit > 0 {
		labels = append(labels, "self-send-in-init")
	}
	if refused {
		labels = append(labels, "refused-push")
	}
	if len(handledFb) > 0 {
		labels = append(labels, "fallback-used")
	}
	if raced {
		labels = append(labels, "cancel-race")
	}
	if gated {
		labels = append(labels, "gated")
	}
	var keys []string
	for i, ps := range plans {
		for j, p := range ps {
			keys = append(keys, fmt.Sprintf("%d.%d:k%dm%dp%d", i, j, p.Kind, p.Mode, p.Prio))
		}
	}
	sort.Strings(keys)
	recDeliv.Case(nontrivial, fmt.Sprintf("mbox=%d fb=%d/%d gated=%v spin=%d selfinit=%d plans=%v refused=%d", mbox, fbMode, fbBox, gated, spinNs, selfInit, keys, len(errSet)), labels...)
}

func TestDelivery(t *testing.T) {
	rapid.Check(t, propDelivery)
}
