package c02

import (
	"fmt"
	"sync"
	"sync/atomic"
	"testing"
	"time"

	"ergo.services/ergo/gen"
	"pgregory.net/rapid"

	"verif/harness/kit"
)

var recVolley = kit.NewRecorder("C02", "volleys",
	"the classical lost-wake-up shape: an idle (asleep, empty mailbox) receiver of a generated kind - actor addressed by pid, name or alias, with unbounded or bounded mailbox and fallback - is hit by a volley of 2-8 senders released by one barrier, each pushing 1-3 numbered messages of a generated priority mix (some from spawned processes, some through the node API); the next volley starts only when the receiver is asleep and empty again; 30-150 volleys per case; "+
		"oracle: every accepted message is handled exactly once (by the receiver or its fallback), refused ones nowhere, and the receiver never stays asleep with a non-empty mailbox (stable witness, read twice 20 ms apart); "+
		"non-trivial = a volley in which at least two pushes reached the receiver while it was still asleep or being woken (approximated: >= 2 senders); distinct by parameters")

func TestVolleys(t *testing.T) {
	rapid.Check(t, func(t *rapid.T) {
		nsend := rapid.IntRange(2, 8).Draw(t, "senders")
		per := rapid.IntRange(1, 3).Draw(t, "per-sender")
		rounds := rapid.IntRange(30, 150).Draw(t, "volleys")
		mode := rapid.IntRange(0, 2).Draw(t, "addressing")
		mbox := rapid.SampledFrom([]int64{0, 0, 0, 2, 4}).Draw(t, "mailbox")
		prios := make([]gen.MessagePriority, nsend)
		viaProc := make([]bool, nsend)
		for i := range prios {
			prios[i] = rapid.SampledFrom([]gen.MessagePriority{gen.MessagePriorityNormal, gen.MessagePriorityNormal, gen.MessagePriorityNormal, gen.MessagePriorityHigh, gen.MessagePriorityMax}).Draw(t, "prio")
			viaProc[i] = rapid.Bool().Draw(t, "via-process")
		}
		node, err := kit.StartLocalNode()
		if err != nil {
			t.Fatalf("start node: %v", err)
		}
		defer node.StopForce()
		probe := kit.NewProbe()
		var handled atomic.Int64
		seen := sync.Map{}
		dup := atomic.Int64{}
		count := func(a *kit.Actor, from gen.PID, msg any) (bool, error) {
			switch m := msg.(type) {
			case kit.Numbered:
				if _, loaded := seen.LoadOrStore(m.ID, true); loaded {
					dup.Add(1)
				}
				handled.Add(1)
				return true, nil
			case gen.MessageFallback:
				if n, ok := m.Message.(kit.Numbered); ok {
					if _, loaded := seen.LoadOrStore(n.ID, true); loaded {
						dup.Add(1)
					}
					handled.Add(1)
				}
				return true, nil
			}
			return false, nil
		}
		if _, err := node.SpawnRegister("vfb", kit.Factory(&kit.ActorConfig{Label: "fb", Probe: probe, Quiet: true, OnMessage: count}), gen.ProcessOptions{}); err != nil {
			t.Fatalf("spawn fallback: %v", err)
		}
		opts := gen.ProcessOptions{MailboxSize: mbox}
		if mbox > 0 {
			opts.Fallback = gen.ProcessFallback{Enable: true, Name: "vfb", Tag: "v"}
		}
		recv, err := node.SpawnRegister("vrecv", kit.Factory(&kit.ActorConfig{Label: "recv", Probe: probe, Quiet: true, OnMessage: count}), opts)
		if err != nil {
			t.Fatalf("spawn receiver: %v", err)
		}
		var alias gen.Alias
		kit.InProc(node, recv, func(a *kit.Actor) { alias, _ = a.CreateAlias() })
		var to any = recv
		switch mode {
		case 1:
			to = gen.Atom("vrecv")
		case 2:
			to = alias
		}
		senders := make([]gen.PID, nsend)
		for i := range senders {
			senders[i], _ = node.Spawn(kit.Factory(&kit.ActorConfig{Label: "s", Probe: probe, Quiet: true}), gen.ProcessOptions{})
		}
		desc := fmt.Sprintf("senders=%d per=%d volleys=%d addressing=%d mailbox=%d prios=%v viaProc=%v", nsend, per, rounds, mode, mbox, prios, viaProc)
		var accepted, refused atomic.Int64
		next := 0
		for r := 0; r < rounds; r++ {
			// the receiver must be idle: that is the state the volley is aimed at
			if !kit.WaitUntil(5*time.Second, func() bool { return kit.Quiesced(node, recv) && handled.Load() == accepted.Load() }) {
				if stuck, what := kit.Stuck(node, recv); stuck {
					t.Fatalf("volley %d: the receiver is asleep with a non-empty mailbox: %s (accepted %d, handled %d)\n  case: %s", r, what, accepted.Load(), handled.Load(), desc)
				}
				if handled.Load() != accepted.Load() {
					t.Fatalf("volley %d: %d sends were accepted, %d messages handled after 5 s\n  case: %s", r, accepted.Load(), handled.Load(), desc)
				}
				t.Skip("inconclusive: the receiver did not become idle")
			}
			barrier := make(chan struct{})
			var wg sync.WaitGroup
			for i := 0; i < nsend; i++ {
				ids := make([]int, per)
				for k := range ids {
					ids[k] = next
					next++
				}
				wg.Add(1)
				go func(i int, ids []int) {
					defer wg.Done()
					if viaProc[i] {
						kit.InProc(node, senders[i], func(a *kit.Actor) {
							<-barrier
							for _, id := range ids {
								if a.SendWithPriority(to, kit.Numbered{ID: id}, prios[i]) == nil {
									accepted.Add(1)
								} else {
									refused.Add(1)
								}
							}
						})
						return
					}
					<-barrier
					for _, id := range ids {
						if node.SendWithPriority(to, kit.Numbered{ID: id}, prios[i]) == nil {
							accepted.Add(1)
						} else {
							refused.Add(1)
						}
					}
				}(i, ids)
			}
			// let every sender reach the barrier
			time.Sleep(50 * time.Microsecond)
			close(barrier)
			wg.Wait()
		}
		if !kit.WaitUntil(5*time.Second, func() bool { return handled.Load() == accepted.Load() && kit.Quiesced(node, recv) }) {
			if stuck, what := kit.Stuck(node, recv); stuck {
				t.Fatalf("after the last volley the receiver is asleep with a non-empty mailbox: %s (accepted %d, handled %d)\n  case: %s", what, accepted.Load(), handled.Load(), desc)
			}
			t.Fatalf("%d sends were accepted, %d messages handled after 5 s\n  case: %s", accepted.Load(), handled.Load(), desc)
		}
		if n := refused.Load(); n > 0 {
			// the receiver is alive all the time; a full bounded mailbox has a live fallback with an unbounded one
			t.Fatalf("%d sends to a live receiver were refused (mailbox limit %d, fallback configured: %v)\n  case: %s", n, mbox, mbox > 0, desc)
		}
		if d := dup.Load(); d > 0 {
			t.Fatalf("%d messages were handled more than once\n  case: %s", d, desc)
		}
		recVolley.Case(true, desc)
	})
}
