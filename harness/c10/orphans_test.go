package c10

import (
	"errors"
	"fmt"
	"strings"
	"sync"
	"testing"
	"time"

	"ergo.services/ergo/act"
	"ergo.services/ergo/gen"
	"pgregory.net/rapid"

	"verif/harness/kit"
)

func TestMain(m *testing.M) { kit.Main(m) }

const (
	kWorker = iota
	kSup
	kPool
)

type spec struct {
	kind      int
	label     string
	supType   act.SupervisorType
	strategy  act.SupervisorStrategy
	keepOrder bool
	children  []*spec
	dynamic   int // simple-one-for-one: children started after the build
	poolSize  int
	trap      bool // worker (or the workers of a pool) traps exit signals: the owner's exit still takes it down
}

var supTypes = []act.SupervisorType{act.SupervisorTypeOneForOne, act.SupervisorTypeAllForOne, act.SupervisorTypeRestForOne, act.SupervisorTypeSimpleOneForOne}
var strategies = []act.SupervisorStrategy{act.SupervisorStrategyTransient, act.SupervisorStrategyTemporary, act.SupervisorStrategyPermanent}

func genSpec(t *rapid.T, label string, depth int) *spec {
	s := &spec{label: label}
	kinds := []int{kWorker, kSup, kSup, kPool}
	if depth == 0 {
		kinds = []int{kWorker, kWorker, kPool}
	}
	s.kind = rapid.SampledFrom(kinds).Draw(t, "kind")
	switch s.kind {
	case kSup:
		s.supType = rapid.SampledFrom(supTypes).Draw(t, "sup-type")
		s.strategy = rapid.SampledFrom(strategies).Draw(t, "strategy")
		s.keepOrder = rapid.Bool().Draw(t, "keep-order")
		n := rapid.IntRange(1, 3).Draw(t, "children")
		if s.supType == act.SupervisorTypeSimpleOneForOne {
			s.children = []*spec{genSpec(t, label+".t", depth-1)} // the template
			s.dynamic = n
		} else {
			for i := 0; i < n; i++ {
				s.children = append(s.children, genSpec(t, fmt.Sprintf("%s.%d", label, i), depth-1))
			}
		}
	case kPool:
		s.poolSize = rapid.IntRange(1, 3).Draw(t, "pool-size")
		s.trap = rapid.Bool().Draw(t, "workers-trap-exits")
	case kWorker:
		s.trap = rapid.Bool().Draw(t, "traps-exits")
	}
	return s
}

func (s *spec) describe() string {
	switch s.kind {
	case kWorker:
		if s.trap {
			return "wT"
		}
		return "w"
	case kPool:
		if s.trap {
			return fmt.Sprintf("pool%dT", s.poolSize)
		}
		return fmt.Sprintf("pool%d", s.poolSize)
	}
	var c []string
	for _, x := range s.children {
		c = append(c, x.describe())
	}
	ko := ""
	if s.keepOrder {
		ko = "K"
	}
	dyn := ""
	if s.dynamic > 0 {
		dyn = fmt.Sprintf("x%d", s.dynamic)
	}
	return fmt.Sprintf("%s/%s%s(%s)%s", s.supType, s.strategy, ko, strings.Join(c, ","), dyn)
}

func (s *spec) all() []*spec {
	out := []*spec{s}
	for _, c := range s.children {
		out = append(out, c.all()...)
	}
	return out
}

// gates lets the harness park a labelled process in its Init (next start only).
type gates struct {
	mu      sync.Mutex
	initOf  map[string]*gate
	entered map[string]bool
}

type gate struct {
	entered chan struct{}
	open    chan struct{}
	fail    bool // the Init returns an error instead of parking
}

func (g *gates) arm(label string) *gate {
	g.mu.Lock()
	defer g.mu.Unlock()
	x := &gate{entered: make(chan struct{}), open: make(chan struct{})}
	g.initOf[label] = x
	return x
}

func (g *gates) armFail(label string) {
	g.mu.Lock()
	defer g.mu.Unlock()
	g.initOf[label] = &gate{fail: true, entered: make(chan struct{}), open: make(chan struct{})}
}

func (g *gates) take(label string) *gate {
	g.mu.Lock()
	defer g.mu.Unlock()
	x := g.initOf[label]
	delete(g.initOf, label)
	return x
}

func (g *gates) openAll() {
	g.mu.Lock()
	defer g.mu.Unlock()
	for k, x := range g.initOf {
		if !x.fail {
			close(x.open)
		}
		delete(g.initOf, k)
	}
}

type world struct {
	t      *rapid.T
	node   gen.Node
	probe  *kit.Probe
	gates  *gates
	roots  []*spec
	trace  []string
	parked []chan struct{}  // handler gates still closed
	seen   map[gen.PID]bool // incarnations that were observed in the process table (really started)
}

// groupSup: label names a supervisor with named child specs (not a simple-one-for-one one).
func (w *world) groupSup(all []*spec, label string) bool {
	for _, s := range all {
		if s.label == label {
			return s.kind == kSup && s.supType != act.SupervisorTypeSimpleOneForOne
		}
	}
	return false
}

func (w *world) logf(f string, a ...any) { w.trace = append(w.trace, fmt.Sprintf(f, a...)) }

func (w *world) workerFactory(label string, trap bool) gen.ProcessFactory {
	return kit.Factory(&kit.ActorConfig{Label: label, Probe: w.probe, Quiet: true, Trap: trap,
		OnInit: func(a *kit.Actor, args ...any) error {
			if g := w.gates.take(label); g != nil {
				if g.fail {
					return errFault
				}
				close(g.entered)
				<-g.open
			}
			return nil
		}})
}

func (w *world) factory(s *spec) gen.ProcessFactory {
	switch s.kind {
	case kWorker:
		return w.workerFactory(s.label, s.trap)
	case kPool:
		wf := w.workerFactory(s.label+".w", s.trap)
		return kit.PoolFactory(&kit.PoolConfig{Label: s.label, Probe: w.probe,
			Options: func(args ...any) (act.PoolOptions, error) {
				return act.PoolOptions{PoolSize: int64(s.poolSize), WorkerFactory: wf}, nil
			}})
	}
	return kit.SupFactory(&kit.SupConfig{Label: s.label, Probe: w.probe,
		Spec: func(args ...any) (act.SupervisorSpec, error) {
			sp := act.SupervisorSpec{Type: s.supType, Restart: act.SupervisorRestart{Strategy: s.strategy, KeepOrder: s.keepOrder, Intensity: 50, Period: 5}}
			for _, c := range s.children {
				sp.Children = append(sp.Children, act.SupervisorChildSpec{Name: gen.Atom(c.label), Factory: w.factory(c)})
			}
			return sp, nil
		}})
}

type inst struct {
	label  string
	pid    gen.PID
	parent gen.PID
	initOK bool
}

// instances returns every process incarnation recorded so far.
func (w *world) instances() []inst {
	var out []inst
	for _, e := range w.probe.Events() {
		if e.Kind == "init" {
			out = append(out, inst{label: e.Proc, pid: e.PID, parent: e.From, initOK: e.Reason == nil})
		}
	}
	return out
}

func (w *world) terminated(i inst) bool { return w.probe.Terminated(i.label, i.pid) }

func (w *world) alive(pid gen.PID) bool {
	info, err := w.node.ProcessInfo(pid)
	if err != nil {
		return false
	}
	w.seen[pid] = true
	return info.State != gen.ProcessStateZombee && info.State != gen.ProcessStateTerminated
}

// absent: not in the process table at all (a killed process that is still inside a callback is
// not gone yet).
func (w *world) absent(pid gen.PID) bool {
	_, err := w.node.ProcessInfo(pid)
	return err != nil
}

// current returns the live incarnation of a label (zero PID if none).
func (w *world) current(label string) gen.PID {
	var pid gen.PID
	for _, i := range w.instances() {
		if i.label == label && i.initOK && w.alive(i.pid) {
			pid = i.pid
		}
	}
	return pid
}

// quiet waits until no recorded process is running a callback or has pending messages.
func (w *world) quiet(d time.Duration) bool {
	return kit.WaitUntil(d, func() bool {
		for _, i := range w.instances() {
			if !i.initOK {
				continue
			}
			info, err := w.node.ProcessInfo(i.pid)
			if err != nil {
				continue
			}
			if info.State == gen.ProcessStateZombee || info.State == gen.ProcessStateTerminated {
				return false // on its way out
			}
			q := info.MailboxQueues
			if info.State != gen.ProcessStateSleep || q.Main+q.System+q.Urgent+q.Log > 0 {
				return false
			}
		}
		return true
	})
}

// orphans lists live processes whose owner incarnation has terminated.
func (w *world) orphans() []string {
	all := w.instances()
	byPID := map[gen.PID]inst{}
	for _, i := range all {
		byPID[i.pid] = i
	}
	var out []string
	for _, i := range all {
		if !i.initOK || !w.alive(i.pid) {
			continue
		}
		owner, known := byPID[i.parent]
		if !known {
			continue // started by the node / an application: judged by the final action
		}
		if w.terminated(owner) || w.absent(owner.pid) {
			out = append(out, fmt.Sprintf("%s %s (owner %s %s is gone)", i.label, i.pid, owner.label, owner.pid))
		}
	}
	return out
}

func (w *world) checkOrphans(when string) {
	var o []string
	ok := kit.WaitUntil(5*time.Second, func() bool {
		o = w.orphans()
		return len(o) == 0
	})
	if !ok {
		w.t.Fatalf("%s: processes outlive their owner: %s\n  tree: %s\n  history: %s", when, strings.Join(o, "; "), w.describe(), strings.Join(w.trace, "; "))
	}
}

func (w *world) describe() string {
	var s []string
	for _, r := range w.roots {
		s = append(s, r.label+"="+r.describe())
	}
	return strings.Join(s, " ")
}

var errFault = errors.New("injected fault")

// open finding: a pool does not wait for its workers when it terminates (they are only linked to
// it), so ApplicationStop - which waits for the members, and supervisors for their children -
// can return while pool workers that already have the exit signal are still alive for a moment
const sigPoolWorkers = "application-stop-returns-before-pool-workers-are-gone"

// open finding: a process is entered into the process table only when its Init has returned, so
// exit signals addressed to it before that are dropped (unknown process). A supervisor whose
// child terminates while the supervisor is still starting its other children never hears of it,
// keeps the dead child in its books and can never finish a shutdown: Node.Stop hangs.
const sigInitExit = "exit-signal-to-a-process-inside-its-init-is-lost"

// TestKnownInitExit is the directed replay of sigInitExit.
func TestKnownInitExit(t *testing.T) {
	if !kit.IsKnown("C10", sigInitExit) {
		t.Skip("not listed")
	}
	node, err := kit.StartLocalNode()
	if err != nil {
		t.Fatal(err)
	}
	defer node.StopForce()
	probe := kit.NewProbe()
	entered, open := make(chan struct{}), make(chan struct{})
	w0 := kit.Factory(&kit.ActorConfig{Label: "k.0", Probe: probe, Quiet: true})
	w1 := kit.Factory(&kit.ActorConfig{Label: "k.1", Probe: probe, Quiet: true, OnInit: func(a *kit.Actor, args ...any) error {
		close(entered)
		<-open
		return nil
	}})
	sup := kit.SupFactory(&kit.SupConfig{Label: "k", Probe: probe, Spec: func(args ...any) (act.SupervisorSpec, error) {
		return act.SupervisorSpec{Type: act.SupervisorTypeOneForOne, Restart: act.SupervisorRestart{Strategy: act.SupervisorStrategyTemporary},
			Children: []act.SupervisorChildSpec{{Name: "k0", Factory: w0}, {Name: "k1", Factory: w1}}}, nil
	}})
	var pid gen.PID
	done := make(chan struct{})
	go func() { pid, _ = node.Spawn(sup, gen.ProcessOptions{}); close(done) }()
	<-entered
	for _, e := range probe.Events() {
		if e.Kind == "init" && e.Proc == "k.0" {
			node.Kill(e.PID)
			kit.WaitUntil(2*time.Second, func() bool { return probe.Terminated("k.0", e.PID) })
		}
	}
	close(open)
	<-done
	node.SendExit(pid, gen.TerminateReasonShutdown)
	if !kit.WaitUntil(1500*time.Millisecond, func() bool { _, err := node.ProcessInfo(pid); return err != nil }) {
		recTree.Confirmed(sigInitExit, kit.KnownWhat("C10", sigInitExit))
	}
	recTree.Case(true, "directed replay: one-for-one [k0,k1], k0 killed while k1 is in Init (supervisor inside its own Init), then shutdown of the supervisor")
}

// TestKnownPoolWorkers is the directed replay of sigPoolWorkers.
func TestKnownPoolWorkers(t *testing.T) {
	if !kit.IsKnown("C10", sigPoolWorkers) {
		t.Skip("not listed")
	}
	confirmed := false
	for attempt := 0; attempt < 300 && !confirmed; attempt++ {
		node, err := kit.StartLocalNode()
		if err != nil {
			t.Fatal(err)
		}
		probe := kit.NewProbe()
		wf := kit.Factory(&kit.ActorConfig{Label: "p.w", Probe: probe, Quiet: true})
		pool := kit.PoolFactory(&kit.PoolConfig{Label: "p", Probe: probe, Options: func(args ...any) (act.PoolOptions, error) {
			return act.PoolOptions{PoolSize: 3, WorkerFactory: wf}, nil
		}})
		app := &kit.App{Label: "known", Probe: probe, Spec: gen.ApplicationSpec{Name: "known", Group: []gen.ApplicationMemberSpec{{Factory: pool}}}}
		node.ApplicationLoad(app)
		if err := node.ApplicationStart("known", gen.ApplicationOptions{}); err != nil {
			t.Fatal(err)
		}
		if node.ApplicationStop("known") == nil {
			for _, e := range probe.Events() {
				if e.Kind == "init" && e.Proc == "p.w" {
					if _, err := node.ProcessInfo(e.PID); err == nil {
						confirmed = true
					}
				}
			}
		}
		node.StopForce()
	}
	if confirmed {
		recTree.Confirmed(sigPoolWorkers, kit.KnownWhat("C10", sigPoolWorkers))
	}
	recTree.Case(true, "directed replay: application with one pool of 3 workers, ApplicationStop, workers alive at return?")
}

// hit applies one fault to a live process.
func (w *world) hit(label string, pid gen.PID, kind int) {
	switch kind {
	case 0:
		w.node.Kill(pid)
		w.logf("kill(%s)", label)
	case 1:
		w.node.SendExit(pid, errFault)
		w.logf("exit-abnormal(%s)", label)
	case 2:
		w.node.SendExit(pid, gen.TerminateReasonShutdown)
		w.logf("exit-shutdown(%s)", label)
	case 3:
		w.node.Send(pid, kit.Stop{Reason: errFault})
		w.logf("crash(%s)", label)
	case 4:
		w.node.Send(pid, kit.Stop{Reason: gen.TerminateReasonNormal})
		w.logf("normal-exit(%s)", label)
	case 5:
		w.node.Send(pid, kit.Boom{})
		w.logf("panic(%s)", label)
	}
}

var recTree = kit.NewRecorder("C10", "trees",
	"1-3 root trees of depth <= 3, fan-out <= 3, mixing supervisors of all four types (all strategies, keep-order on/off, simple-one-for-one with dynamic children), pools and plain workers (trapping exit signals or not), started standalone or as members of an application (optionally after a short-lived first member that stops by itself); 1-3 faults {Kill, abnormal exit signal, shutdown exit signal, crash, normal exit, panic} at generated processes, placed idle, while a child of the target is parked in its Init (start-up or restart in progress), or while a child is busy in a handler (slow shutdown; also a child that was disabled a moment ago and is still busy when its supervisor is told to shut down); then a final action in {none, ApplicationStop, Node.Stop, Node.StopForce}; "+
		"oracle: every recorded incarnation knows its parent incarnation; a process that is alive while its owner incarnation has terminated is an orphan (polled 5 s, then a stable witness); ApplicationStop()==nil implies state loaded and no live process carrying that application; a failed ApplicationStart leaves state loaded and no live process carrying the application; after Node.Stop/StopForce every recorded process has terminated; "+
		"non-trivial = a fault hit a supervisor or pool while one of its children was starting, restarting or busy; distinct by tree and history")

func TestTrees(t *testing.T) {
	rapid.Check(t, func(t *rapid.T) {
		node, err := kit.StartLocalNode()
		if err != nil {
			t.Fatalf("start node: %v", err)
		}
		w := &world{t: t, node: node, probe: kit.NewProbe(), gates: &gates{initOf: map[string]*gate{}}, seen: map[gen.PID]bool{}}
		stopped := false
		defer func() {
			w.gates.openAll()
			for _, ch := range w.parked {
				close(ch)
			}
			if !stopped {
				node.StopForce()
			}
		}()
		nroots := rapid.IntRange(1, 3).Draw(t, "roots")
		asApp := rapid.Bool().Draw(t, "as-application")
		// an application may begin with a short-lived member (an "init job": it stops by itself, with
		// reason normal, as soon as it runs - usually while the other members are still being started)
		job := asApp && rapid.Bool().Draw(t, "job-member")
		for i := 0; i < nroots; i++ {
			r := genSpec(t, fmt.Sprintf("r%d", i), 2)
			if r.kind == kWorker {
				r.kind, r.supType, r.strategy = kSup, act.SupervisorTypeOneForOne, act.SupervisorStrategyPermanent
				r.children = []*spec{genSpec(t, r.label+".0", 1)}
			}
			w.roots = append(w.roots, r)
		}
		var all []*spec
		for _, r := range w.roots {
			all = append(all, r.all()...)
		}
		workers := func() []*spec {
			var l []*spec
			for _, s := range all {
				if s.kind == kWorker && !strings.HasSuffix(s.label, ".t") {
					l = append(l, s)
				}
			}
			return l
		}()
		nontrivial := false

		// phase A: build, optionally with a fault during start-up
		var startGate *gate
		switch rapid.IntRange(0, 3).Draw(t, "startup-fault") {
		case 0:
			if len(workers) > 0 {
				// the Init of one worker fails: whoever was starting it gives up
				l := workers[rapid.IntRange(0, len(workers)-1).Draw(t, "failing-worker")].label
				w.gates.armFail(l)
				w.logf("init-fails(%s)", l)
				nontrivial = true
			}
		case 1:
			if len(workers) > 0 {
				l := workers[rapid.IntRange(0, len(workers)-1).Draw(t, "parked-worker")].label
				startGate = w.gates.arm(l)
				w.logf("init-parks(%s)", l)
			}
		}
		built := make(chan error, 1)
		var app *kit.App
		go func() {
			if asApp {
				sp := gen.ApplicationSpec{Name: "orphans", Mode: gen.ApplicationModeTemporary}
				if job {
					sp.Group = append(sp.Group, gen.ApplicationMemberSpec{Factory: kit.Factory(&kit.ActorConfig{Label: "job", Probe: w.probe, Quiet: true,
						OnInit: func(a *kit.Actor, args ...any) error {
							return a.Send(a.PID(), kit.Stop{Reason: gen.TerminateReasonNormal})
						}})})
				}
				for _, r := range w.roots {
					sp.Group = append(sp.Group, gen.ApplicationMemberSpec{Factory: w.factory(r)})
				}
				app = &kit.App{Label: "orphans", Probe: w.probe, Spec: sp}
				if _, err := node.ApplicationLoad(app); err != nil {
					built <- err
					return
				}
				built <- node.ApplicationStart("orphans", gen.ApplicationOptions{})
				return
			}
			var first error
			for _, r := range w.roots {
				if _, err := node.Spawn(w.factory(r), gen.ProcessOptions{}); err != nil && first == nil {
					first = err
				}
			}
			built <- first
		}()
		if startGate != nil {
			select {
			case <-startGate.entered:
				// everything above the parked worker is inside its own Init and not registered yet;
				// what can be hit is what has been started completely (earlier subtrees)
				var live []inst
				known := map[gen.PID]inst{}
				for _, i := range w.instances() {
					known[i.pid] = i
				}
				// underInit: some ancestor is still inside its Init (a termination anywhere below can
				// cascade up to the child of that ancestor)
				underInit := func(i inst) bool {
					for {
						p, ok := known[i.parent]
						if !ok {
							return false
						}
						if w.absent(p.pid) {
							return true
						}
						i = p
					}
				}
				for _, i := range w.instances() {
					if !i.initOK || !w.alive(i.pid) {
						continue
					}
					if underInit(i) && kit.IsKnown("C10", sigInitExit) {
						// its owner is still inside Init: the owner would never hear of the fault
						recTree.Excluded(sigInitExit)
						continue
					}
					live = append(live, i)
				}
				if len(live) > 0 {
					x := live[rapid.IntRange(0, len(live)-1).Draw(t, "startup-target")]
					w.hit(x.label, x.pid, rapid.IntRange(0, 5).Draw(t, "startup-fault-kind"))
					nontrivial = true
					time.Sleep(time.Duration(rapid.IntRange(0, 3).Draw(t, "hold-ms")) * time.Millisecond)
				}
				close(startGate.open)
			case err := <-built:
				built <- err // the armed worker was not reached
			case <-time.After(10 * time.Second):
				t.Skip("inconclusive: start-up did not reach the armed worker")
			}
		}
		var berr error
		select {
		case berr = <-built:
		case <-time.After(15 * time.Second):
			t.Fatalf("building the tree did not return within 15 s\n  tree: %s\n  history: %s", w.describe(), strings.Join(w.trace, "; "))
		}
		w.logf("built(app=%v)=%v", asApp, berr)
		w.gates.openAll()
		// dynamic children of simple-one-for-one supervisors
		for _, s := range all {
			if s.kind == kSup && s.dynamic > 0 {
				if pid := w.current(s.label); pid != (gen.PID{}) {
					done := make(chan struct{})
					tmpl := gen.Atom(s.children[0].label)
					n := s.dynamic
					if node.Send(pid, kit.DoSup{F: func(x *kit.Sup) {
						for i := 0; i < n; i++ {
							x.StartChild(tmpl)
						}
					}, Done: done}) == nil {
						select {
						case <-done:
						case <-time.After(5 * time.Second):
						}
					}
				}
			}
		}
		w.quiet(5 * time.Second)
		w.checkOrphans("after start-up")
		if asApp && berr != nil {
			// the start failed: the application is not running, and nothing it started may keep running
			if info, err := node.ApplicationInfo("orphans"); err == nil && info.State != gen.ApplicationStateLoaded {
				t.Fatalf("ApplicationStart failed (%v) and left the application in state %s\n  tree: %s\n  history: %s", berr, info.State, w.describe(), strings.Join(w.trace, "; "))
			}
			var left []string
			gone := kit.WaitUntil(5*time.Second, func() bool {
				left = left[:0]
				for _, i := range w.instances() {
					if !i.initOK || !w.alive(i.pid) {
						continue
					}
					if pi, err := node.ProcessInfo(i.pid); err == nil && pi.Application == "orphans" {
						left = append(left, fmt.Sprintf("%s %s", i.label, i.pid))
					}
				}
				return len(left) == 0
			})
			if !gone {
				t.Fatalf("ApplicationStart failed (%v), the application is not running, and these processes it started are still alive: %s\n  tree: %s\n  history: %s", berr, strings.Join(left, "; "), w.describe(), strings.Join(w.trace, "; "))
			}
		}

		// phase B: faults on the settled tree
		nfaults := rapid.IntRange(0, 3).Draw(t, "faults")
		for f := 0; f < nfaults; f++ {
			live := []inst{}
			for _, i := range w.instances() {
				if i.initOK && w.alive(i.pid) {
					live = append(live, i)
				}
			}
			if len(live) == 0 {
				break
			}
			target := live[rapid.IntRange(0, len(live)-1).Draw(t, "target")]
			kind := rapid.IntRange(0, 5).Draw(t, "fault")
			placement := rapid.IntRange(0, 5).Draw(t, "placement")
			// children of the target that are plain workers
			var kids []inst
			for _, i := range live {
				if i.parent == target.pid && !strings.Contains(i.label, "pool") {
					isWorker := false
					for _, s := range all {
						if s.label == i.label && s.kind == kWorker {
							isWorker = true
						}
					}
					if isWorker || strings.HasSuffix(i.label, ".w") || strings.HasSuffix(i.label, ".t") {
						kids = append(kids, i)
					}
				}
			}
			switch {
			case placement == 1 && len(kids) > 0:
				// a child is busy in a handler: it cannot react to the shutdown at once
				kid := kids[rapid.IntRange(0, len(kids)-1).Draw(t, "busy-child")]
				g := kit.Gate{Entered: make(chan struct{}), Open: make(chan struct{})}
				if node.Send(kid.pid, g) == nil {
					select {
					case <-g.Entered:
						w.parked = append(w.parked, g.Open)
						w.logf("busy(%s)", kid.label)
						w.hit(target.label, target.pid, kind)
						nontrivial = true
						time.Sleep(time.Duration(rapid.IntRange(0, 3).Draw(t, "hold-ms")) * time.Millisecond)
						close(g.Open)
						w.parked = w.parked[:len(w.parked)-1]
					case <-time.After(5 * time.Second):
						close(g.Open)
					}
				}
			case placement == 2 && len(kids) > 0:
				// a restart is in progress: the child's next Init parks, the child is killed, the
				// supervisor gets the fault while it is inside the restart
				kid := kids[rapid.IntRange(0, len(kids)-1).Draw(t, "restarting-child")]
				g := w.gates.arm(kid.label)
				node.Kill(kid.pid)
				w.logf("kill-child(%s)", kid.label)
				select {
				case <-g.entered:
					w.hit(target.label, target.pid, kind)
					nontrivial = true
					time.Sleep(time.Duration(rapid.IntRange(0, 3).Draw(t, "hold-ms")) * time.Millisecond)
					close(g.open)
				case <-time.After(300 * time.Millisecond):
					// no restart (strategy says so): plain fault
					w.gates.openAll()
					select {
					case <-g.entered: // it did start in the meantime
						close(g.open)
					default:
					}
					w.hit(target.label, target.pid, kind)
				}
			case placement == 4 && len(kids) >= 2:
				// a restart that waits for a busy sibling: one child is busy in a handler, another
				// one is killed (the supervisor starts stopping the others and waits), and in that
				// window the supervisor's own owner goes away
				busy := kids[rapid.IntRange(0, len(kids)-1).Draw(t, "busy-sibling")]
				var others []inst
				for _, k := range kids {
					if k.pid != busy.pid {
						others = append(others, k)
					}
				}
				victim := others[rapid.IntRange(0, len(others)-1).Draw(t, "dying-sibling")]
				g := kit.Gate{Entered: make(chan struct{}), Open: make(chan struct{})}
				if node.Send(busy.pid, g) != nil {
					break
				}
				select {
				case <-g.Entered:
				case <-time.After(5 * time.Second):
					close(g.Open)
					continue
				}
				w.parked = append(w.parked, g.Open)
				w.logf("busy(%s)", busy.label)
				node.Kill(victim.pid)
				w.logf("kill-child(%s)", victim.label)
				kit.WaitUntil(2*time.Second, func() bool { return !w.alive(victim.pid) })
				time.Sleep(time.Duration(rapid.IntRange(0, 2).Draw(t, "hold-ms")) * time.Millisecond)
				owner, ownerKnown := gen.PID{}, false
				for _, i := range live {
					if i.pid == target.parent {
						owner, ownerKnown = i.pid, true
						w.hit(i.label, i.pid, kind)
					}
				}
				if !ownerKnown {
					w.hit(target.label, target.pid, kind)
				}
				_ = owner
				nontrivial = true
				time.Sleep(time.Duration(rapid.IntRange(0, 3).Draw(t, "hold2-ms")) * time.Millisecond)
				close(g.Open)
				w.parked = w.parked[:len(w.parked)-1]
			case placement == 5 && len(kids) > 0 && w.groupSup(all, target.label):
				// a child that was disabled is still on its way out (busy in a handler) when the
				// supervisor is told to shut down: the supervisor waits for it like for the others
				kid := kids[rapid.IntRange(0, len(kids)-1).Draw(t, "disabled-busy-child")]
				g := kit.Gate{Entered: make(chan struct{}), Open: make(chan struct{})}
				if node.Send(kid.pid, g) != nil {
					break
				}
				select {
				case <-g.Entered:
				case <-time.After(5 * time.Second):
					close(g.Open)
					continue
				}
				w.parked = append(w.parked, g.Open)
				w.logf("busy(%s)", kid.label)
				var derr error
				done := make(chan struct{})
				if node.Send(target.pid, kit.DoSup{F: func(x *kit.Sup) { derr = x.DisableChild(gen.Atom(kid.label)) }, Done: done}) == nil {
					select {
					case <-done:
					case <-time.After(5 * time.Second):
					}
				}
				w.logf("DisableChild(%s)=%v", kid.label, derr)
				node.SendExit(target.pid, gen.TerminateReasonShutdown)
				w.logf("exit-shutdown(%s)", target.label)
				nontrivial = true
				// while the child is parked it is alive; its supervisor may not be gone before it
				early := kit.WaitUntil(time.Duration(100+rapid.IntRange(0, 100).Draw(t, "watch-ms"))*time.Millisecond, func() bool {
					return w.absent(target.pid) && w.alive(kid.pid)
				})
				if early {
					t.Fatalf("supervisor %s was told to shut down and is gone while its child %s %s (disabled a moment ago, still busy in a handler) is alive\n  tree: %s\n  history: %s", target.label, kid.label, kid.pid, w.describe(), strings.Join(w.trace, "; "))
				}
				close(g.Open)
				w.parked = w.parked[:len(w.parked)-1]
			case placement == 3 && len(kids) > 0:
				// the restart of a child fails
				kid := kids[rapid.IntRange(0, len(kids)-1).Draw(t, "failing-child")]
				w.gates.armFail(kid.label)
				node.Kill(kid.pid)
				w.logf("kill-child-restart-fails(%s)", kid.label)
				nontrivial = true
				w.quiet(5 * time.Second)
				w.gates.openAll()
			default:
				w.hit(target.label, target.pid, kind)
			}
			w.quiet(5 * time.Second)
			// traffic through the pools: a pool replaces a dead worker when it meets it
			for _, sp := range all {
				if sp.kind == kPool {
					if pid := w.current(sp.label); pid != (gen.PID{}) {
						for i := 0; i < 2*sp.poolSize+1; i++ {
							node.Send(pid, i)
						}
					}
				}
			}
			w.quiet(5 * time.Second)
			w.checkOrphans(fmt.Sprintf("after fault %d", f+1))
		}

		// phase C: final action
		final := rapid.SampledFrom([]string{"none", "app-stop", "node-stop", "node-stop-force"}).Draw(t, "final")
		switch final {
		case "app-stop":
			if !asApp || berr != nil {
				break
			}
			err := node.ApplicationStop("orphans")
			w.logf("ApplicationStop=%v", err)
			if err == nil {
				info, _ := node.ApplicationInfo("orphans")
				if info.State != gen.ApplicationStateLoaded {
					t.Fatalf("ApplicationStop returned nil, state is %s\n  tree: %s\n  history: %s", info.State, w.describe(), strings.Join(w.trace, "; "))
				}
				var left []string
				for _, i := range w.instances() {
					if !i.initOK || !w.alive(i.pid) {
						continue
					}
					if pi, err := node.ProcessInfo(i.pid); err == nil && pi.Application == "orphans" {
						left = append(left, fmt.Sprintf("%s %s", i.label, i.pid))
					}
				}
				if len(left) > 0 && kit.IsKnown("C10", sigPoolWorkers) {
					onlyWorkers := true
					for _, l := range left {
						if !strings.Contains(l, ".w ") {
							onlyWorkers = false
						}
					}
					if onlyWorkers {
						recTree.Excluded(sigPoolWorkers)
						left = nil // they have the exit signal in their mailbox; checkOrphans below insists that they go
					}
				}
				if len(left) > 0 {
					t.Fatalf("ApplicationStop returned nil while processes of the application were alive: %s\n  tree: %s\n  history: %s", strings.Join(left, "; "), w.describe(), strings.Join(w.trace, "; "))
				}
			}
			w.checkOrphans("after ApplicationStop")
		case "node-stop", "node-stop-force":
			for _, i := range w.instances() {
				w.alive(i.pid) // note who is really there
			}
			done := make(chan struct{})
			go func() {
				if final == "node-stop" {
					node.Stop()
				} else {
					node.StopForce()
				}
				close(done)
			}()
			select {
			case <-done:
			case <-time.After(15 * time.Second):
				t.Fatalf("%s did not return within 15 s\n  tree: %s\n  history: %s", final, w.describe(), strings.Join(w.trace, "; "))
			}
			stopped = true
			w.logf("%s", final)
			var left []string
			ok := kit.WaitUntil(5*time.Second, func() bool {
				left = left[:0]
				for _, i := range w.instances() {
					if i.initOK && w.seen[i.pid] && !w.terminated(i) {
						left = append(left, fmt.Sprintf("%s %s", i.label, i.pid))
					}
				}
				return len(left) == 0
			})
			if !ok && final == "node-stop" {
				t.Fatalf("Node.Stop returned and these processes never terminated: %s\n  tree: %s\n  history: %s", strings.Join(left, "; "), w.describe(), strings.Join(w.trace, "; "))
			}
		}
		labels := []string{"final=" + final}
		if asApp {
			labels = append(labels, "application")
		}
		if job {
			labels = append(labels, "short-lived-member")
		}
		if asApp && berr != nil {
			labels = append(labels, "application-start-failed")
		}
		if nontrivial {
			labels = append(labels, "fault-during-start-restart-or-busy")
		}
		recTree.Case(nontrivial, w.describe()+" | "+strings.Join(w.trace, ";"), labels...)
	})
}

func mustList(n gen.Node) []gen.PID {
	l, _ := n.ProcessList()
	return l
}
