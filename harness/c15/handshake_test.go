package c15

import (
	"bytes"
	"encoding/binary"
	"fmt"
	"net"
	"reflect"
	"sync"
	"testing"
	"time"

	"ergo.services/ergo/gen"
	"ergo.services/ergo/lib"
	"ergo.services/ergo/net/edf"
	"ergo.services/ergo/net/handshake"
	"pgregory.net/rapid"

	"verif/harness/kit"
)

type fakeNode struct {
	name     gen.Atom
	creation int64
}

func (f fakeNode) Name() gen.Atom       { return f.name }
func (f fakeNode) Creation() int64      { return f.creation }
func (f fakeNode) Version() gen.Version { return gen.Version{Name: "verif", Release: string(f.name)} }

// tap records every Write as one message of the transcript.
type tap struct {
	net.Conn
	mu   sync.Mutex
	sent [][]byte
}

func (t *tap) Write(b []byte) (int, error) {
	t.mu.Lock()
	t.sent = append(t.sent, append([]byte(nil), b...))
	t.mu.Unlock()
	return t.Conn.Write(b)
}

type hsResult struct {
	res gen.HandshakeResult
	err error
}

// session runs Start against Accept over an in-memory pipe and returns both results and transcripts.
func session(startCookie, acceptCookie string, sn, an fakeNode, sopts, aopts gen.HandshakeOptions) (hsResult, hsResult, *tap, *tap) {
	ca, cb := net.Pipe()
	ta, tb := &tap{Conn: ca}, &tap{Conn: cb}
	hs := handshake.Create(handshake.Options{PoolSize: 2})
	ch := make(chan hsResult, 1)
	aopts.Cookie = acceptCookie
	sopts.Cookie = startCookie
	go func() {
		r, err := hs.Accept(an, tb, aopts)
		if err != nil {
			tb.Close()
		}
		ch <- hsResult{r, err}
	}()
	r, err := hs.Start(sn, ta, sopts)
	if err != nil {
		ta.Close()
	}
	ar := <-ch
	ta.Close()
	tb.Close()
	return hsResult{r, err}, ar, ta, tb
}

var cookiePool = []string{"", "a", "secret", "secret ", "secre", "secret:x", "sec:ret", "SECRET", "s\x00ecret", "другой", "a-much-longer-cookie-value-0123456789"}

var recCookie = kit.NewRecorder("C15", "cookies",
	"real handshake Start against real Accept over an in-memory pipe: both cookies drawn from a pool of equal / different / empty / prefix / ':'-containing / case-differing values, generated flags, max message sizes, node names and incarnations on both sides; "+
		"oracle: the handshake completes on both ends iff the cookies are equal; on success both results agree: each side's Peer / PeerCreation / PeerVersion / PeerFlags / PeerMaxMessageSize equal the other side's own values and the connection ids are equal; on failure neither side reports success; "+
		"non-trivial = cookies differ, or non-default flags/sizes; distinct by configuration")

func genFlags(t *rapid.T, label string) gen.NetworkFlags {
	return gen.NetworkFlags{Enable: true,
		EnableRemoteSpawn:            rapid.Bool().Draw(t, label+"_spawn"),
		EnableRemoteApplicationStart: rapid.Bool().Draw(t, label+"_appstart"),
		EnableImportantDelivery:      rapid.Bool().Draw(t, label+"_important"),
		EnableProxyAccept:            rapid.Bool().Draw(t, label+"_proxy"),
	}
}

func propCookies(t *rapid.T) {
	c1 := rapid.SampledFrom(cookiePool).Draw(t, "start_cookie")
	c2 := c1
	if rapid.Bool().Draw(t, "different") {
		c2 = rapid.SampledFrom(cookiePool).Draw(t, "accept_cookie")
	}
	sn := fakeNode{gen.Atom(fmt.Sprintf("s%d@h", rapid.IntRange(1, 5).Draw(t, "sname"))), rapid.Int64Range(1, 1<<40).Draw(t, "screation")}
	an := fakeNode{gen.Atom(fmt.Sprintf("a%d@h", rapid.IntRange(1, 5).Draw(t, "aname"))), rapid.Int64Range(1, 1<<40).Draw(t, "acreation")}
	so := gen.HandshakeOptions{Flags: genFlags(t, "sf"), MaxMessageSize: rapid.SampledFrom([]int{0, 1024, 65536, 1 << 30}).Draw(t, "smax")}
	ao := gen.HandshakeOptions{Flags: genFlags(t, "af"), MaxMessageSize: rapid.SampledFrom([]int{0, 567, 765, 1 << 20}).Draw(t, "amax")}
	sr, ar, _, _ := session(c1, c2, sn, an, so, ao)
	equal := c1 == c2
	switch {
	case equal && (sr.err != nil || ar.err != nil):
		t.Fatalf("equal cookies %q but the handshake failed: start=%v accept=%v", c1, sr.err, ar.err)
	case !equal && (sr.err == nil || ar.err == nil):
		t.Fatalf("cookies differ (%q vs %q) but a side reported success: start err=%v accept err=%v", c1, c2, sr.err, ar.err)
	}
	if equal {
		s, a := sr.res, ar.res
		if s.Peer != an.name || a.Peer != sn.name {
			t.Fatalf("names disagree: start sees %s (is %s), accept sees %s (is %s)", s.Peer, an.name, a.Peer, sn.name)
		}
		if s.PeerCreation != an.creation || a.PeerCreation != sn.creation {
			t.Fatalf("incarnations disagree: start sees %d (is %d), accept sees %d (is %d)", s.PeerCreation, an.creation, a.PeerCreation, sn.creation)
		}
		if s.PeerFlags != ao.Flags || a.PeerFlags != so.Flags || s.NodeFlags != so.Flags || a.NodeFlags != ao.Flags {
			t.Fatalf("flags disagree: start{node %v peer %v} accept{node %v peer %v} configured start %v accept %v", s.NodeFlags, s.PeerFlags, a.NodeFlags, a.PeerFlags, so.Flags, ao.Flags)
		}
		if s.PeerMaxMessageSize != ao.MaxMessageSize || a.PeerMaxMessageSize != so.MaxMessageSize || s.NodeMaxMessageSize != so.MaxMessageSize || a.NodeMaxMessageSize != ao.MaxMessageSize {
			t.Fatalf("message size limits disagree: start{node %d peer %d} accept{node %d peer %d}", s.NodeMaxMessageSize, s.PeerMaxMessageSize, a.NodeMaxMessageSize, a.PeerMaxMessageSize)
		}
		if s.ConnectionID == "" || s.ConnectionID != a.ConnectionID {
			t.Fatalf("connection ids disagree: %q vs %q", s.ConnectionID, a.ConnectionID)
		}
		if s.PeerVersion != an.Version() || a.PeerVersion != sn.Version() {
			t.Fatalf("versions disagree")
		}
	}
	recCookie.Case(!equal || so.MaxMessageSize != 0 || ao.MaxMessageSize != 0, fmt.Sprintf("c1=%q c2=%q sn=%v an=%v so=%v ao=%v", c1, c2, sn, an, so, ao), fmt.Sprintf("equal=%v", equal))
}

func TestCookies(t *testing.T) {
	rapid.Check(t, propCookies)
}

// ---------------------------------------------------------------- adversary without the cookie

const sigJoinReplay = "recorded-join-message-is-accepted-again"

var recAdv = kit.NewRecorder("C15", "adversary",
	"an adversary that does not know the cookie faces a real Accept (as dialling side), a real Start or a real Join (as accepting side). Its script of 1-5 steps is built from the transcripts of 1-2 earlier honest sessions with the same cookie (own role and the other role, Hello and Join variants): replay message i verbatim, replay it with generated byte mutations / truncation / extension, reflect what the victim just sent, replay a recorded message with one field rewritten (fixed values, or the digest / salt the victim itself just sent), send generated garbage with a valid frame header, or stay silent; "+
		"oracle: the victim's Accept / Start / Join never returns success; "+
		"non-trivial = the script got past the victim's first message check (the victim answered at least once); distinct by script")

type advStep struct {
	kind   int // 0 replay 1 mutated replay 2 reflect 3 garbage 4 silence 5 recorded message with one field rewritten 6 recorded message with one field taken from what the victim just sent
	from   int // which recorded message
	flips  []int
	cutTo  int
	extend int
	field  int // kind 5: which field
	value  int // kind 5: which replacement
}

var tweakFields = []string{"Digest", "DigestCert", "Salt", "Node", "ConnectionID", "ID", "Creation"}
var tweakStrings = []string{"", "0", "e3b0c44298fc1c149afbf4c8996fb92427ae41e4649b934ca495991b7852b855", "evil@h", "the-connection-id", "victim@h"}

// tweakMessage decodes a recorded handshake message (6 byte header + EDF), rewrites one field
// with a value that needs no knowledge of the cookie, and encodes it again. nil: not applicable.
func tweakMessage(rec []byte, st advStep) []byte {
	if len(rec) < 7 {
		return nil
	}
	v, _, err := edf.Decode(rec[6:], edf.Options{})
	if err != nil || v == nil {
		return nil
	}
	rv := reflect.New(reflect.TypeOf(v)).Elem()
	rv.Set(reflect.ValueOf(v))
	if rv.Kind() != reflect.Struct {
		return nil
	}
	f := rv.FieldByName(tweakFields[st.field%len(tweakFields)])
	if !f.IsValid() {
		return nil
	}
	switch f.Kind() {
	case reflect.String:
		f.SetString(tweakStrings[st.value%len(tweakStrings)])
	case reflect.Int64:
		f.SetInt(int64(st.value))
	default:
		return nil
	}
	buf := lib.TakeBuffer()
	defer lib.ReleaseBuffer(buf)
	buf.Allocate(6)
	if err := edf.Encode(rv.Interface(), buf, edf.Options{}); err != nil {
		return nil
	}
	out := append([]byte(nil), buf.B...)
	copy(out[:2], rec[:2])
	binary.BigEndian.PutUint32(out[2:6], uint32(len(out)-6))
	return out
}

var echoFields = []string{"Digest", "Salt", "DigestCert"}

// echoMessage is tweakMessage with a value lifted from the victim's own last message (its
// digest, salt or certificate digest): everything the victim says is known to the adversary.
func echoMessage(rec []byte, victimSaid []byte, st advStep) []byte {
	if len(rec) < 7 || len(victimSaid) < 7 {
		return nil
	}
	v, _, err := edf.Decode(victimSaid[6:], edf.Options{})
	if err != nil || v == nil {
		return nil
	}
	src := reflect.ValueOf(v)
	if src.Kind() != reflect.Struct {
		return nil
	}
	sf := src.FieldByName(echoFields[st.value%len(echoFields)])
	if !sf.IsValid() || sf.Kind() != reflect.String {
		return nil
	}
	m, _, err := edf.Decode(rec[6:], edf.Options{})
	if err != nil || m == nil {
		return nil
	}
	rv := reflect.New(reflect.TypeOf(m)).Elem()
	rv.Set(reflect.ValueOf(m))
	if rv.Kind() != reflect.Struct {
		return nil
	}
	f := rv.FieldByName(tweakFields[st.field%len(tweakFields)])
	if !f.IsValid() || f.Kind() != reflect.String {
		return nil
	}
	f.SetString(sf.String())
	buf := lib.TakeBuffer()
	defer lib.ReleaseBuffer(buf)
	buf.Allocate(6)
	if err := edf.Encode(rv.Interface(), buf, edf.Options{}); err != nil {
		return nil
	}
	out := append([]byte(nil), buf.B...)
	copy(out[:2], rec[:2])
	binary.BigEndian.PutUint32(out[2:6], uint32(len(out)-6))
	return out
}

func honestTranscripts(cookie string, join bool) (starter [][]byte, acceptor [][]byte, id string) {
	sn, an := fakeNode{"honest-s@h", 11}, fakeNode{"victim@h", 22}
	if !join {
		_, ar, ta, tb := session(cookie, cookie, sn, an, gen.HandshakeOptions{}, gen.HandshakeOptions{})
		return ta.sent, tb.sent, ar.res.ConnectionID
	}
	ca, cb := net.Pipe()
	ta, tb := &tap{Conn: ca}, &tap{Conn: cb}
	hs := handshake.Create(handshake.Options{})
	done := make(chan struct{})
	go func() {
		hs.Accept(an, tb, gen.HandshakeOptions{Cookie: cookie})
		close(done)
	}()
	hs.Join(sn, ta, "the-connection-id", gen.HandshakeOptions{Cookie: cookie})
	<-done
	ta.Close()
	tb.Close()
	return ta.sent, tb.sent, "the-connection-id"
}

func mutateBytes(b []byte, st advStep) []byte {
	out := append([]byte(nil), b...)
	for _, f := range st.flips {
		if len(out) > 0 {
			out[f%len(out)] ^= byte(1 + f%250)
		}
	}
	if st.cutTo > 0 && st.cutTo < len(out) {
		out = out[:st.cutTo]
	}
	for i := 0; i < st.extend; i++ {
		out = append(out, byte(i*31))
	}
	return out
}

func propAdversary(t *rapid.T) {
	cookie := rapid.SampledFrom([]string{"secret", "another-cookie", "x"}).Draw(t, "cookie")
	role := rapid.IntRange(0, 2).Draw(t, "victim_role") // 0 victim accepts 1 victim starts 2 victim joins
	useJoin := rapid.Bool().Draw(t, "join_transcript")
	st1, ac1, _ := honestTranscripts(cookie, useJoin)
	st2, ac2, _ := honestTranscripts(cookie, !useJoin)
	pool := append(append(append(append([][]byte{}, st1...), ac1...), st2...), ac2...)
	own := st1
	if role != 0 {
		own = ac1
	}
	n := rapid.IntRange(1, 5).Draw(t, "steps")
	var steps []advStep
	if rapid.Bool().Draw(t, "follow_protocol") && len(own) > 0 {
		// the structured adversary: the recorded messages of the role it plays, in protocol order,
		// each one verbatim or with one field rewritten (mostly the cookie proofs)
		n = 0
		for i := range own {
			s := advStep{kind: rapid.SampledFrom([]int{0, 0, 0, 0, 5, 5, 2, 6, 6}).Draw(t, "step"), from: -1 - i}
			if s.kind == 5 {
				s.field = rapid.SampledFrom([]int{0, 0, 0, 0, 1, 2, 3, 4, 5, 6}).Draw(t, "field")
				s.value = rapid.IntRange(0, len(tweakStrings)-1).Draw(t, "value")
			}
			if s.kind == 6 {
				s.field = rapid.SampledFrom([]int{0, 0, 0, 1, 2}).Draw(t, "field")
				s.value = rapid.SampledFrom([]int{0, 0, 1, 2}).Draw(t, "echo")
			}
			steps = append(steps, s)
		}
	}
	for i := 0; i < n; i++ {
		s := advStep{kind: rapid.IntRange(0, 6).Draw(t, "step")}
		if s.kind == 5 || s.kind == 6 {
			s.field = rapid.IntRange(0, len(tweakFields)-1).Draw(t, "field")
			s.value = rapid.IntRange(0, len(tweakStrings)-1).Draw(t, "value")
		}
		if rapid.Bool().Draw(t, "own_role_message") && len(own) > 0 {
			// the i-th message of the role the adversary plays, in order: the most promising replay
			s.from = -1 - (i % len(own))
		} else {
			s.from = rapid.IntRange(0, len(pool)-1).Draw(t, "from")
		}
		if s.kind == 1 {
			s.flips = rapid.SliceOfN(rapid.IntRange(0, 4000), 0, 3).Draw(t, "flips")
			s.cutTo = rapid.IntRange(0, 300).Draw(t, "cut")
			s.extend = rapid.IntRange(0, 20).Draw(t, "extend")
		}
		steps = append(steps, s)
	}
	pick := func(s advStep) []byte {
		if s.from < 0 {
			return own[-1-s.from]
		}
		return pool[s.from]
	}

	cv, ca := net.Pipe() // victim end, adversary end
	hs := handshake.Create(handshake.Options{})
	victim := fakeNode{"victim@h", 22}
	res := make(chan error, 1)
	var joinedPeer gen.Atom
	go func() {
		switch role {
		case 0:
			r, err := hs.Accept(victim, cv, gen.HandshakeOptions{Cookie: cookie})
			joinedPeer = r.Peer
			res <- err
		case 1:
			_, err := hs.Start(victim, cv, gen.HandshakeOptions{Cookie: cookie})
			res <- err
		case 2:
			_, err := hs.Join(victim, cv, "the-connection-id", gen.HandshakeOptions{Cookie: cookie})
			res <- err
		}
	}()
	// adversary: reads whatever the victim sends (non-blocking pump), sends its script
	var got [][]byte
	var gmu sync.Mutex
	go func() {
		buf := make([]byte, 65536)
		for {
			n, err := ca.Read(buf)
			if n > 0 {
				gmu.Lock()
				got = append(got, append([]byte(nil), buf[:n]...))
				gmu.Unlock()
			}
			if err != nil {
				return
			}
		}
	}()
	answered := 0
	isJoinReplay := false
	lastSeen := 0
	for _, s := range steps {
		var out []byte
		if s.kind == 2 || s.kind == 6 {
			// these need the victim's latest message: give it a moment to arrive
			for i := 0; i < 60; i++ {
				gmu.Lock()
				n := len(got)
				gmu.Unlock()
				if n > lastSeen {
					break
				}
				time.Sleep(500 * time.Microsecond)
			}
		}
		gmu.Lock()
		lastSeen = len(got)
		gmu.Unlock()
		switch s.kind {
		case 6:
			gmu.Lock()
			var said []byte
			if len(got) > 0 {
				said = got[len(got)-1]
			}
			gmu.Unlock()
			out = echoMessage(pick(s), said, s)
		case 0:
			out = pick(s)
		case 1:
			out = mutateBytes(pick(s), s)
		case 2:
			gmu.Lock()
			if len(got) > 0 {
				out = got[len(got)-1]
			}
			gmu.Unlock()
		case 3:
			body := rapid.SliceOfN(rapid.Byte(), 0, 64).Draw(t, "garbage")
			out = append([]byte{87, 1, 0, 0, 0, byte(len(body))}, body...)
		case 4:
			time.Sleep(2 * time.Millisecond)
		case 5:
			out = tweakMessage(pick(s), s)
		}
		joinMsg := st2[0]
		if useJoin {
			joinMsg = st1[0]
		}
		if role == 0 && bytes.HasPrefix(out, joinMsg) {
			isJoinReplay = true // a recorded Join sent verbatim (possibly followed by more bytes): the open known finding
		}
		if role == 0 && len(out) > 6 && len(joinMsg) > 6 {
			// the same finding: the recorded proof (connection id, salt, digest) in a Join whose other
			// fields were rewritten - the digest covers neither the node name nor anything else
			a, _, e1 := edf.Decode(out[6:], edf.Options{})
			b, _, e2 := edf.Decode(joinMsg[6:], edf.Options{})
			ja, ok1 := a.(handshake.MessageJoin)
			jb, ok2 := b.(handshake.MessageJoin)
			if e1 == nil && e2 == nil && ok1 && ok2 && ja.ConnectionID == jb.ConnectionID && ja.Salt == jb.Salt && ja.Digest == jb.Digest {
				isJoinReplay = true
			}
		}
		if len(out) > 0 {
			ca.SetWriteDeadline(time.Now().Add(300 * time.Millisecond))
			if _, err := ca.Write(out); err != nil {
				break
			}
		}
		time.Sleep(time.Millisecond)
		gmu.Lock()
		answered = len(got)
		gmu.Unlock()
	}
	// the victim either fails on its own (1 s read timeouts) or we close
	var verr error
	select {
	case verr = <-res:
	case <-time.After(50 * time.Millisecond):
		ca.Close()
		verr = <-res
	}
	ca.Close()
	cv.Close()
	if verr == nil {
		if role == 0 && isJoinReplay && kit.IsKnown("C15", sigJoinReplay) {
			recAdv.Excluded(sigJoinReplay)
		} else {
			t.Fatalf("the victim's handshake (role %d) completed against a peer that does not know the cookie (peer claimed %q); script %+v", role, joinedPeer, steps)
		}
	}
	first := 0
	if role != 0 {
		first = 1 // the victim speaks first in these roles
	}
	recAdv.Case(answered > first, fmt.Sprintf("role=%d join=%v steps=%+v", role, useJoin, steps), fmt.Sprintf("role=%d", role))
}

func TestAdversary(t *testing.T) {
	rapid.Check(t, propAdversary)
}

// TestKnownJoinReplay is the directed replay of the open finding sigJoinReplay.
func TestKnownJoinReplay(t *testing.T) {
	if !kit.IsKnown("C15", sigJoinReplay) {
		t.Skip("not listed")
	}
	st, _, _ := honestTranscripts("secret", true)
	cv, ca := net.Pipe()
	hs := handshake.Create(handshake.Options{})
	res := make(chan error, 1)
	go func() {
		_, err := hs.Accept(fakeNode{"victim@h", 22}, cv, gen.HandshakeOptions{Cookie: "secret"})
		res <- err
	}()
	go func() {
		buf := make([]byte, 4096)
		for {
			if _, err := ca.Read(buf); err != nil {
				return
			}
		}
	}()
	ca.Write(st[0])
	err := <-res
	ca.Close()
	cv.Close()
	if err == nil {
		recAdv.Confirmed(sigJoinReplay, kit.KnownWhat("C15", sigJoinReplay))
	}
	recAdv.Case(true, "directed replay: a recorded MessageJoin sent verbatim to Accept")
}
