package c15

import (
	"fmt"
	"sync"
	"testing"
	"time"

	"ergo.services/ergo/gen"
	"pgregory.net/rapid"

	"verif/harness/kit"
	"verif/harness/kit/netkit"
)

// "A connected peer can spawn processes or start applications ... only if the flags allow it":
// the flags that count are the ones the *receiving* node announced, whatever the requesting
// peer announced about itself or chooses to believe - a peer that knows the cookie but does not
// follow the rules (sends the request although the receiver's flags forbid it, announces an
// empty flag word) is stopped by the receiver. The connection pair is built directly from two
// handshake results, so either side's view can be set independently.
var recFlags = kit.NewRecorder("C15", "flags-enforced",
	"two protocol connections joined back to back over in-memory links; the receiver B announces generated flags (remote spawn on/off, remote application start on/off); the requester A believes B's announcement, or 'believes' that everything is allowed (a peer that ignores what it was told), and announces generated flags about itself (honest, permissive, or an all-zero flag word); A issues a remote spawn and a remote application start; "+
		"oracle: B's core is asked to spawn / to start iff B's own flags allow that kind of request; an honest requester is refused locally with 'not allowed' and sends nothing; "+
		"non-trivial = the requester ignored B's announcement for a kind of request B forbids; distinct by configuration")

func propFlags(t *rapid.T) {
	bFlags := gen.NetworkFlags{Enable: true, EnableImportantDelivery: true,
		EnableRemoteSpawn:            rapid.Bool().Draw(t, "b_spawn"),
		EnableRemoteApplicationStart: rapid.Bool().Draw(t, "b_appstart")}
	belief := rapid.IntRange(0, 2).Draw(t, "a_believes") // 0 what B announced 1 everything allowed 2 an empty flag word (= no restrictions known)
	about := rapid.IntRange(0, 2).Draw(t, "a_announces") // 0 same as B 1 permissive 2 all-zero word
	aBelief := bFlags
	switch belief {
	case 1:
		aBelief = gen.NetworkFlags{Enable: true, EnableImportantDelivery: true, EnableRemoteSpawn: true, EnableRemoteApplicationStart: true}
	case 2:
		aBelief = gen.NetworkFlags{}
	}
	aFlags := bFlags
	switch about {
	case 1:
		aFlags = gen.NetworkFlags{Enable: true, EnableImportantDelivery: true, EnableRemoteSpawn: true, EnableRemoteApplicationStart: true}
	case 2:
		aFlags = gen.NetworkFlags{}
	}
	p, err := netkit.NewPair(netkit.PairOptions{Pool: rapid.IntRange(1, 2).Draw(t, "pool"), Tweak: func(ra, rb *gen.HandshakeResult) {
		ra.NodeFlags, ra.PeerFlags = aFlags, aBelief
		rb.NodeFlags, rb.PeerFlags = bFlags, aFlags
	}})
	if err != nil {
		t.Fatalf("pair: %v", err)
	}
	closed := false
	defer func() {
		if !closed {
			p.Close()
		}
	}()
	var wg sync.WaitGroup
	var spawnErr, appErr error
	var spawnDone, appDone bool
	var mu sync.Mutex
	wg.Add(2)
	go func() {
		defer wg.Done()
		_, e := p.ConnA.RemoteSpawn("worker", gen.ProcessOptionsExtra{ParentPID: gen.PID{Node: "a@localhost", ID: 1010, Creation: 1001}})
		mu.Lock()
		spawnErr, spawnDone = e, true
		mu.Unlock()
	}()
	go func() {
		defer wg.Done()
		e := p.ConnA.Node().ApplicationStart("app", gen.ApplicationOptions{})
		mu.Lock()
		appErr, appDone = e, true
		mu.Unlock()
	}()
	// a request B refuses is dropped without an answer (the requester would wait for its timeout):
	// give both requests time to cross, then look at what reached B's core
	count := func(kind string) int {
		n := 0
		for _, c := range p.CoreB.Calls() {
			if c.Kind == kind {
				n++
			}
		}
		return n
	}
	// what B allows must show up at its core (awaited); what it forbids is dropped without an answer,
	// so for that there is only "not seen": a plain message sent after the requests is the witness
	// that B has been handling what A sent, then a short grace period
	kit.WaitUntil(5*time.Second, func() bool {
		return (!bFlags.EnableRemoteSpawn || count("spawn") > 0) && (!bFlags.EnableRemoteApplicationStart || count("app-start") > 0)
	})
	p.ConnA.SendPID(gen.PID{Node: "a@localhost", ID: 1010, Creation: 1001}, gen.PID{Node: "b@localhost", ID: 2020, Creation: 2002}, gen.MessageOptions{}, "marker")
	kit.WaitUntil(5*time.Second, func() bool { return count("send-pid") > 0 })
	time.Sleep(40 * time.Millisecond)
	spawns, starts := count("spawn"), count("app-start")
	mu.Lock()
	se, sd, ae, ad := spawnErr, spawnDone, appErr, appDone
	mu.Unlock()
	p.Close()
	closed = true
	// (a requester whose request was dropped keeps waiting for its own time-out; nobody waits for it)
	_ = &wg
	cfg := fmt.Sprintf("B announces spawn=%v appstart=%v; A believes %d, announces %d", bFlags.EnableRemoteSpawn, bFlags.EnableRemoteApplicationStart, belief, about)
	if !bFlags.EnableRemoteSpawn && spawns > 0 {
		t.Fatalf("B forbids remote spawn and its core was asked to spawn %d time(s) (%s)", spawns, cfg)
	}
	if !bFlags.EnableRemoteApplicationStart && starts > 0 {
		t.Fatalf("B forbids remote application start and its core was asked to start an application %d time(s) (%s)", starts, cfg)
	}
	if bFlags.EnableRemoteSpawn && spawns != 1 {
		t.Fatalf("B allows remote spawn and its core saw %d spawn requests, want 1 (requester's result: done=%v err=%v; %s)", spawns, sd, se, cfg)
	}
	if bFlags.EnableRemoteApplicationStart && starts != 1 {
		t.Fatalf("B allows remote application start and its core saw %d requests, want 1 (requester's result: done=%v err=%v; %s)", starts, ad, ae, cfg)
	}
	if belief == 0 {
		// the honest requester does not even send what it was told is forbidden
		if !bFlags.EnableRemoteSpawn && !(sd && se == gen.ErrNotAllowed) {
			t.Fatalf("an honest requester was told that remote spawn is forbidden and its request returned done=%v err=%v instead of 'not allowed' (%s)", sd, se, cfg)
		}
		if !bFlags.EnableRemoteApplicationStart && !(ad && ae == gen.ErrNotAllowed) {
			t.Fatalf("an honest requester was told that remote application start is forbidden and its request returned done=%v err=%v instead of 'not allowed' (%s)", ad, ae, cfg)
		}
	}
	ignored := belief != 0 && (!bFlags.EnableRemoteSpawn || !bFlags.EnableRemoteApplicationStart)
	recFlags.Case(ignored, cfg, fmt.Sprintf("belief=%d", belief), fmt.Sprintf("announces=%d", about))
}

func TestFlagsEnforced(t *testing.T) {
	rapid.Check(t, propFlags)
}
