package c15

import (
	"fmt"
	"strings"
	"sync"
	"testing"
	"time"

	"ergo.services/ergo/gen"
	"pgregory.net/rapid"

	"verif/harness/kit"
	"verif/harness/kit/netkit"
)

var recNodeCookie = kit.NewRecorder("C15", "node-cookies",
	"two real nodes: node cookies of A and B, an optional own cookie on B's acceptor and an optional own cookie on A's static route to B, each drawn from {unset, x, y, z}; then 0-3 run-time changes of B's node cookie or of its acceptor's cookie (including its withdrawal); A connects to B; "+
		"oracle: the nodes become connected iff the cookie A presents (the route's cookie if set, else A's node cookie) equals the cookie B's endpoint requires (the acceptor's cookie if set, else B's node cookie); when connected each side lists the other and nothing else; "+
		"non-trivial = an acceptor or route cookie is set; distinct by configuration")

func propNodeCookies(t *rapid.T) {
	cs := []string{"x", "y", "z"}
	na := rapid.SampledFrom(cs).Draw(t, "node_cookie_a")
	nb := rapid.SampledFrom(cs).Draw(t, "node_cookie_b")
	acc := rapid.SampledFrom([]string{"", "", "x", "y", "z"}).Draw(t, "acceptor_cookie_b")
	rt := rapid.SampledFrom([]string{"", "", "x", "y", "z"}).Draw(t, "route_cookie_a")
	hub := netkit.NewHub()
	b, err := netkit.StartNetNode(hub, netkit.NetNodeName("c15b"), nb, func(o *gen.NodeOptions) { o.Network.Acceptors[0].Cookie = acc })
	if err != nil {
		t.Fatalf("B: %v", err)
	}
	defer b.StopForce()
	a, err := netkit.StartNetNode(hub, netkit.NetNodeName("c15a"), na)
	if err != nil {
		t.Fatalf("A: %v", err)
	}
	defer a.StopForce()
	if rt != "" {
		route, _ := hub.Route(b.Name())
		if err := a.Network().AddRoute(string(b.Name()), gen.NetworkRoute{Route: route, Cookie: rt}, 10); err != nil {
			t.Fatalf("AddRoute: %v", err)
		}
	}
	// cookies changed at run time (before anybody connects). An acceptor cookie set at run time is
	// the endpoint's cookie; one that is withdrawn again ("") hands the endpoint back to the node's
	// current cookie. What a change of the *node's* cookie means for an acceptor that was started
	// without a cookie of its own is not specified (the acceptor keeps the cookie it was started
	// with, new acceptors and outgoing connections use the new one): both are admissible then.
	var changes []string
	nodeCookies := map[string]bool{nb: true} // the node cookies an acceptor without an own cookie may require
	ownSet, withdrawn := acc != "", false
	for n := rapid.IntRange(0, 3).Draw(t, "changes"); n > 0; n-- {
		c := rapid.SampledFrom([]string{"", "x", "y", "z"}).Draw(t, "new_cookie")
		if rapid.Bool().Draw(t, "change_acceptor") {
			accs, err := b.Network().Acceptors()
			if err != nil || len(accs) != 1 {
				t.Fatalf("acceptors of B: %v %v", accs, err)
			}
			accs[0].SetCookie(c)
			acc = c
			ownSet, withdrawn = c != "", c == ""
			changes = append(changes, fmt.Sprintf("acceptor=%q", c))
		} else if c != "" {
			if err := b.Network().SetCookie(c); err != nil {
				t.Fatalf("SetCookie: %v", err)
			}
			nb = c
			nodeCookies[c] = true
			changes = append(changes, fmt.Sprintf("node=%q", c))
		}
	}
	presented := na
	if rt != "" {
		presented = rt
	}
	admissible := map[string]bool{}
	switch {
	case ownSet:
		admissible[acc] = true
	case withdrawn:
		admissible[nb] = true
	default:
		admissible = nodeCookies
	}
	required := fmt.Sprint(admissible)
	_, cerr := a.Network().GetNode(b.Name())
	want := admissible[presented]
	if want && cerr != nil && len(admissible) == 1 {
		t.Fatalf("A presents %q, B's endpoint requires %s (node cookies a=%q b=%q, acceptor %q, route %q, changes %v): connection refused: %v", presented, required, na, nb, acc, rt, changes, cerr)
	}
	if !want && cerr == nil {
		t.Fatalf("A presents %q, B's endpoint requires %s (node cookies a=%q b=%q, acceptor %q, route %q, changes %v): the nodes got connected", presented, required, na, nb, acc, rt, changes)
	}
	want = cerr == nil
	if want {
		kit.WaitUntil(2*time.Second, func() bool { return len(b.Network().Nodes()) == 1 })
		if ns := b.Network().Nodes(); len(ns) != 1 || ns[0] != a.Name() {
			t.Fatalf("B lists %v, expected exactly %v", ns, a.Name())
		}
	} else {
		time.Sleep(5 * time.Millisecond)
		if ns := b.Network().Nodes(); len(ns) != 0 {
			t.Fatalf("B lists %v although the handshake must have failed", ns)
		}
	}
	recNodeCookie.Case(acc != "" || rt != "" || len(changes) > 0, fmt.Sprintf("a=%q b=%q acceptor=%q route=%q changes=%v", na, nb, acc, rt, changes), fmt.Sprintf("connected=%v", want), fmt.Sprintf("changes=%d", len(changes)))
}

func TestNodeCookies(t *testing.T) {
	rapid.Check(t, propNodeCookies)
}

// ---------------------------------------------------------------- spawn / application start permissions

var recPerm = kit.NewRecorder("C15", "permissions",
	"a target node T (generated network flags, configured node-wide, on its acceptor, or both) and three peers (generated env exposure): a stateful history of 4-20 steps from {EnableSpawn / DisableSpawn / EnableApplicationStart / DisableApplicationStart with 0-2 peer names on 2 process names and 2 applications, a peer issues Spawn / SpawnRegister / ApplicationStart(Temporary|Transient|Permanent)}; "+
		"oracle (security direction): a request succeeds only if some Enable covering (name, peer) is not followed by a Disable covering it, the name is known, and T's flags allow that kind of request; (functional direction, plain cases) a request covered by an Enable with no Disable ever issued for that name succeeds when the flags allow; the spawned process's environment contains the requester's variable iff the requester switched env exposure on; "+
		"non-trivial = a request issued for a (name, peer) that was enabled and later disabled; distinct by history")

type permOp struct {
	kind  int // 0 enable-spawn 1 disable-spawn 2 enable-app 3 disable-app 4 spawn 5 spawn-register 6 app-start
	name  int
	peers []int
	peer  int
}

func propPermissions(t *rapid.T) {
	hub := netkit.NewHub()
	flags := gen.NetworkFlags{Enable: true, EnableImportantDelivery: true,
		EnableRemoteSpawn:            rapid.IntRange(0, 4).Draw(t, "flag_spawn") != 0,
		EnableRemoteApplicationStart: rapid.IntRange(0, 4).Draw(t, "flag_appstart") != 0}
	flagsWhere := rapid.IntRange(0, 2).Draw(t, "flags_configured_where")
	probe := kit.NewProbe()
	var emu sync.Mutex
	envSeen := map[gen.PID]map[gen.Env]any{}
	childCfg := &kit.ActorConfig{Label: "spawned", Probe: probe, Quiet: true,
		OnInit: func(a *kit.Actor, args ...any) error {
			emu.Lock()
			envSeen[a.PID()] = a.EnvList()
			emu.Unlock()
			return nil
		}}
	apps := []*kit.App{}
	appEnvSeen := make([]map[gen.Env]any, 2)
	appStarts := make([]int, 2)
	for i := 0; i < 2; i++ {
		i := i
		apps = append(apps, &kit.App{Label: fmt.Sprintf("app%d", i), Probe: probe, Spec: gen.ApplicationSpec{
			Name: gen.Atom(fmt.Sprintf("permapp%d", i)),
			Group: []gen.ApplicationMemberSpec{{Name: gen.Atom(fmt.Sprintf("permapp%dm", i)), Factory: kit.Factory(&kit.ActorConfig{Label: "member", Probe: probe, Quiet: true,
				OnInit: func(a *kit.Actor, args ...any) error {
					emu.Lock()
					appEnvSeen[i] = a.EnvList()
					appStarts[i]++
					emu.Unlock()
					return nil
				}})}},
		}})
	}
	target, err := netkit.StartNetNode(hub, netkit.NetNodeName("c15t"), "perm", func(o *gen.NodeOptions) {
		// the same effective flags, configured in one of three places: node-wide and on the
		// acceptor, node-wide only (a listed acceptor without flags of its own inherits them),
		// on the acceptor only (node-wide defaults, which allow everything, must not win)
		switch flagsWhere {
		case 0:
			o.Network.Flags = flags
			o.Network.Acceptors[0].Flags = flags
		case 1:
			o.Network.Flags = flags
		case 2:
			o.Network.Acceptors[0].Flags = flags
		}
	})
	if err != nil {
		t.Fatalf("target: %v", err)
	}
	defer target.StopForce()
	for _, a := range apps {
		if _, err := target.ApplicationLoad(a); err != nil {
			t.Fatalf("load: %v", err)
		}
	}
	var peers []gen.Node
	expose := make([]bool, 3)
	exposeApp := make([]bool, 3)
	for i := 0; i < 3; i++ {
		expose[i] = rapid.Bool().Draw(t, "expose_env")
		exposeApp[i] = rapid.Bool().Draw(t, "expose_env_app_start")
		i := i
		p, err := netkit.StartNetNode(hub, netkit.NetNodeName(fmt.Sprintf("c15p%d", i)), "perm", func(o *gen.NodeOptions) {
			o.Security.ExposeEnvRemoteSpawn = expose[i]
			o.Security.ExposeEnvRemoteApplicationStart = exposeApp[i]
			o.Env = map[gen.Env]any{"VERIF_SECRET": fmt.Sprintf("secret-of-peer-%d", i)}
		})
		if err != nil {
			t.Fatalf("peer: %v", err)
		}
		defer p.StopForce()
		peers = append(peers, p)
	}
	names := []gen.Atom{"permproc0", "permproc1"}
	n := rapid.IntRange(4, 20).Draw(t, "steps")
	// model: index of the last covering enable / disable per (kind, name, peer); -1 = never
	type key struct {
		app        bool
		name, peer int
	}
	lastEnable, lastDisable := map[key]int{}, map[key]int{}
	everDisabled := map[[2]int]bool{}  // (kind,name)
	lastEnableStep := map[[2]int]int{} // (kind,name) -> step of the most recent Enable of that name
	for k := 0; k < 2; k++ {
		for nm := 0; nm < 2; nm++ {
			for p := 0; p < 3; p++ {
				lastEnable[key{k == 1, nm, p}], lastDisable[key{k == 1, nm, p}] = -1, -1
			}
		}
	}
	var hist []string
	nontriv := false
	for step := 0; step < n; step++ {
		op := permOp{kind: rapid.SampledFrom([]int{0, 1, 2, 3, 4, 4, 5, 6, 6}).Draw(t, "op"), name: rapid.IntRange(0, 1).Draw(t, "name"), peer: rapid.IntRange(0, 2).Draw(t, "peer")}
		if op.kind <= 3 {
			for i := rapid.IntRange(0, 2).Draw(t, "npeers"); i > 0; i-- {
				op.peers = append(op.peers, rapid.IntRange(0, 2).Draw(t, "listed_peer"))
			}
		}
		var pn []gen.Atom
		for _, p := range op.peers {
			pn = append(pn, peers[p].Name())
		}
		covers := func(p int) bool {
			if len(op.peers) == 0 {
				return true
			}
			for _, q := range op.peers {
				if q == p {
					return true
				}
			}
			return false
		}
		switch op.kind {
		case 0, 2:
			var err error
			if op.kind == 0 {
				err = target.Network().EnableSpawn(names[op.name], kit.Factory(childCfg), pn...)
			} else {
				err = target.Network().EnableApplicationStart(apps[op.name].Spec.Name, pn...)
			}
			if err == nil {
				for p := 0; p < 3; p++ {
					if covers(p) {
						lastEnable[key{op.kind == 2, op.name, p}] = step
					}
				}
				lastEnableStep[[2]int{op.kind / 2, op.name}] = step
			}
			hist = append(hist, fmt.Sprintf("enable(kind%d,%d,%v)=%v", op.kind, op.name, op.peers, err))
		case 1, 3:
			var err error
			if op.kind == 1 {
				err = target.Network().DisableSpawn(names[op.name], pn...)
			} else {
				err = target.Network().DisableApplicationStart(apps[op.name].Spec.Name, pn...)
			}
			// a Disable is honoured by the model whether or not it reported an error
			for p := 0; p < 3; p++ {
				if covers(p) {
					lastDisable[key{op.kind == 3, op.name, p}] = step
				}
			}
			everDisabled[[2]int{op.kind / 2, op.name}] = true
			hist = append(hist, fmt.Sprintf("disable(kind%d,%d,%v)=%v", op.kind, op.name, op.peers, err))
		case 4, 5, 6:
			isApp := op.kind == 6
			k := key{isApp, op.name, op.peer}
			rn, err := peers[op.peer].Network().GetNode(target.Name())
			if err != nil {
				t.Skip(fmt.Sprintf("peer %d cannot connect: %v (inconclusive)", op.peer, err))
			}
			var rerr error
			var pid gen.PID
			switch op.kind {
			case 4:
				pid, rerr = rn.Spawn(names[op.name], gen.ProcessOptions{})
			case 5:
				pid, rerr = rn.SpawnRegister(gen.Atom(fmt.Sprintf("reg%d", step)), names[op.name], gen.ProcessOptions{})
			case 6:
				switch step % 3 {
				case 0:
					rerr = rn.ApplicationStartTemporary(apps[op.name].Spec.Name, gen.ApplicationOptions{})
				case 1:
					rerr = rn.ApplicationStartTransient(apps[op.name].Spec.Name, gen.ApplicationOptions{})
				default:
					rerr = rn.ApplicationStartPermanent(apps[op.name].Spec.Name, gen.ApplicationOptions{})
				}
			}
			enabled := lastEnable[k] >= 0 && lastEnable[k] > lastDisable[k]
			flagOK := (isApp && flags.EnableRemoteApplicationStart) || (!isApp && flags.EnableRemoteSpawn)
			if lastEnable[k] >= 0 && lastDisable[k] > lastEnable[k] {
				nontriv = true
			}
			hist = append(hist, fmt.Sprintf("request(kind%d,%d,peer%d)=%v", op.kind, op.name, op.peer, rerr))
			ok := rerr == nil || (isApp && rerr == gen.ErrApplicationRunning)
			if ok && (!enabled || !flagOK) {
				t.Fatalf("peer %d was allowed to %s %d although enabled=%v (last enable step %d, last disable step %d) and flag=%v\nhistory: %v",
					op.peer, map[bool]string{true: "start application", false: "spawn"}[isApp], op.name, enabled, lastEnable[k], lastDisable[k], flagOK, hist)
			}
			// functional direction only for the plain case: the most recent Enable of that name covers the peer
			// (whether an Enable for some peers narrows an earlier Enable for everybody is not specified)
			if !ok && enabled && flagOK && !everDisabled[[2]int{b2i(isApp), op.name}] && lastEnable[k] == lastEnableStep[[2]int{b2i(isApp), op.name}] {
				t.Fatalf("peer %d is covered by an Enable for %s %d, no Disable was ever issued, the flags allow it, yet the request failed: %v\nhistory: %v",
					op.peer, map[bool]string{true: "application", false: "process"}[isApp], op.name, rerr, hist)
			}
			if isApp && rerr == nil {
				// the requester's environment travels only when the requester exposes it for application starts
				emu.Lock()
				env := appEnvSeen[op.name]
				emu.Unlock()
				_, has := env["VERIF_SECRET"]
				if has != exposeApp[op.peer] {
					t.Fatalf("peer %d (env exposure for spawn %v, for application start %v): the member of the remotely started application sees the requester's environment: %v\nhistory: %v", op.peer, expose[op.peer], exposeApp[op.peer], has, hist)
				}
			}
			if isApp && ok {
				target.ApplicationStop(apps[op.name].Spec.Name)
			}
			if !isApp && rerr == nil {
				kit.WaitUntil(2*time.Second, func() bool { emu.Lock(); defer emu.Unlock(); _, ok := envSeen[pid]; return ok })
				emu.Lock()
				env := envSeen[pid]
				emu.Unlock()
				_, has := env["VERIF_SECRET"]
				if has != expose[op.peer] {
					t.Fatalf("peer %d (env exposure %v): the remotely spawned process sees the requester's environment: %v (env %v)", op.peer, expose[op.peer], has, env)
				}
				target.Kill(pid)
			}
		}
	}
	recPerm.Case(nontriv, fmt.Sprintf("where=%d ", flagsWhere)+strings.Join(hist, ";"), fmt.Sprintf("flags=%v/%v", flags.EnableRemoteSpawn, flags.EnableRemoteApplicationStart), fmt.Sprintf("flags-where=%d", flagsWhere))
}

func b2i(b bool) int {
	if b {
		return 1
	}
	return 0
}

func TestPermissions(t *testing.T) {
	rapid.Check(t, propPermissions)
}
