// Package racelab holds the scheduled race between link/monitor requests and the
// disappearance of the target identity; it is shared by C04 (all identity kinds) and C18
// (subscriptions to an event whose owner terminates or unregisters it).
package racelab

import (
	"errors"
	"fmt"
	"strings"
	"sync"
	"time"

	"ergo.services/ergo/gen"
	"pgregory.net/rapid"

	"verif/harness/kit"
)

// schedTM wraps the node's target manager: every relation-table operation becomes a pair of
// yield points (before / after) of the controlled scheduler. The code base places its own
// existence checks and table removals around these calls, so the interleaving of "check",
// "insert", "remove", "drain" is under the generator's control wherever the code puts them -
// no source hook needed.
type schedTM struct {
	gen.TargetManager
	mu    sync.Mutex
	sched *kit.Sched
	owner uint64 // id used for operations keyed by a target that is not a pid
}

func (m *schedTM) point(name string, id uint64) {
	m.mu.Lock()
	s := m.sched
	m.mu.Unlock()
	if s != nil {
		s.Point(name, id)
	}
}

func (m *schedTM) tid(target any) uint64 {
	if p, ok := target.(gen.PID); ok {
		return p.ID
	}
	return m.owner
}

func (m *schedTM) AddLink(c gen.PID, target any) error {
	m.point("tm.add.pre", c.ID)
	err := m.TargetManager.AddLink(c, target)
	m.point("tm.add.post", c.ID)
	return err
}

func (m *schedTM) AddMonitor(c gen.PID, target any) error {
	m.point("tm.add.pre", c.ID)
	err := m.TargetManager.AddMonitor(c, target)
	m.point("tm.add.post", c.ID)
	return err
}

func (m *schedTM) CleanupTarget(target any) ([]gen.PID, []gen.PID) {
	m.point("tm.drain.pre", m.tid(target))
	l, mo := m.TargetManager.CleanupTarget(target)
	m.point("tm.drain.post", m.tid(target))
	return l, mo
}

// Prop is one case of the race between link/monitor requests and the disappearance of the
// target identity. onlyIdent < 0: the identity kind is generated (0 pid 1 name 2 alias 3 event).
func Prop(t *rapid.T, viaTM bool, onlyIdent int, rec *kit.Recorder) {
	ident := onlyIdent
	if ident < 0 {
		ident = rapid.IntRange(0, 3).Draw(t, "identity") // 0 pid 1 name 2 alias 3 event
	}
	vanish := rapid.IntRange(0, 2).Draw(t, "vanish")  // 0 kill 1 stop message 2 unregister that identity
	if ident == 0 && vanish == 2 {
		vanish = 0
	}
	nreq := rapid.IntRange(1, 2).Draw(t, "requesters")
	monitor := make([]bool, nreq)
	for i := range monitor {
		monitor[i] = rapid.Bool().Draw(t, "monitor")
	}
	choices := rapid.SliceOfN(rapid.IntRange(0, 5), 6, 40).Draw(t, "schedule")

	var wtm *schedTM
	node, err := kit.StartLocalNode(func(o *gen.NodeOptions) {
		if viaTM {
			wtm = &schedTM{TargetManager: gen.CreateDefaultTargetManager()}
			o.TargetManager = wtm
		}
	})
	if err != nil {
		t.Fatalf("start node: %v", err)
	}
	defer node.StopForce()
	probe := kit.NewProbe()
	target, err := node.SpawnRegister("tgt", kit.Factory(&kit.ActorConfig{Label: "target", Probe: probe, Quiet: true}), gen.ProcessOptions{})
	if err != nil {
		t.Fatalf("spawn: %v", err)
	}
	var alias gen.Alias
	kit.InProc(node, target, func(a *kit.Actor) {
		alias, _ = a.CreateAlias()
		a.RegisterEvent("tev", gen.EventOptions{})
	})
	var id any = target
	switch ident {
	case 1:
		id = gen.ProcessID{Name: "tgt", Node: node.Name()}
	case 2:
		id = alias
	case 3:
		id = gen.Event{Name: "tev", Node: node.Name()}
	}
	idKey := fmt.Sprintf("%v", id)

	var mu sync.Mutex
	notes := make([]int, nreq)
	reqs := make([]gen.PID, nreq)
	for i := 0; i < nreq; i++ {
		i := i
		reqs[i], err = node.Spawn(kit.Factory(&kit.ActorConfig{Label: fmt.Sprintf("req%d", i), Probe: probe, Quiet: true, Trap: true,
			OnMessage: func(a *kit.Actor, from gen.PID, msg any) (bool, error) {
				var k string
				switch m := msg.(type) {
				case gen.MessageExitPID:
					k = fmt.Sprintf("%v", m.PID)
				case gen.MessageDownPID:
					k = fmt.Sprintf("%v", m.PID)
				case gen.MessageExitProcessID:
					k = fmt.Sprintf("%v", m.ProcessID)
				case gen.MessageDownProcessID:
					k = fmt.Sprintf("%v", m.ProcessID)
				case gen.MessageExitAlias:
					k = fmt.Sprintf("%v", m.Alias)
				case gen.MessageDownAlias:
					k = fmt.Sprintf("%v", m.Alias)
				case gen.MessageExitEvent:
					k = fmt.Sprintf("%v", m.Event)
				case gen.MessageDownEvent:
					k = fmt.Sprintf("%v", m.Event)
				}
				if k == idKey {
					mu.Lock()
					notes[i]++
					mu.Unlock()
				}
				return true, nil
			}}), gen.ProcessOptions{})
		if err != nil {
			t.Fatalf("spawn: %v", err)
		}
	}
	ids := map[uint64]bool{target.ID: true}
	for _, r := range reqs {
		ids[r.ID] = true
	}
	s := kit.NewSched(func(name string, pid uint64) bool {
		if !ids[pid] {
			return false
		}
		if viaTM {
			return strings.HasPrefix(name, "tm.")
		}
		return name == "link.add" || name == "monitor.add" || strings.HasPrefix(name, "unreg.")
	})
	defer s.Close()
	if viaTM {
		wtm.mu.Lock()
		wtm.sched, wtm.owner = s, target.ID
		wtm.mu.Unlock()
		defer func() { wtm.mu.Lock(); wtm.sched = nil; wtm.mu.Unlock() }()
	}

	results := make([]error, nreq)
	var wg sync.WaitGroup
	for i := 0; i < nreq; i++ {
		wg.Add(1)
		go func(i int) {
			defer wg.Done()
			var rerr error
			e := kit.InProc(node, reqs[i], func(a *kit.Actor) {
				if ev, ok := id.(gen.Event); ok {
					if monitor[i] {
						_, rerr = a.MonitorEvent(ev)
					} else {
						_, rerr = a.LinkEvent(ev)
					}
					return
				}
				if monitor[i] {
					rerr = a.Monitor(id)
				} else {
					rerr = a.Link(id)
				}
			})
			if e != nil {
				rerr = e
			}
			results[i] = rerr
		}(i)
	}
	vanished := make(chan struct{}) // closed when the target has carried out the unregistration (vanish 2)
	wg.Add(1)
	go func() {
		defer wg.Done()
		switch vanish {
		case 0:
			node.Kill(target)
		case 1:
			node.Send(target, kit.Stop{Reason: errors.New("stop-reason")})
		case 2:
			node.Send(target, kit.Do{F: func(a *kit.Actor) {
				switch ident {
				case 1:
					a.UnregisterName()
				case 2:
					a.DeleteAlias(alias)
				case 3:
					a.UnregisterEvent("tev")
				}
			}, Done: vanished})
		}
	}()
	doneCh := make(chan struct{})
	go func() { wg.Wait(); close(doneCh) }()
	s.Run(choices, func() bool {
		select {
		case <-doneCh:
			return true
		default:
			return false
		}
	}, 3*time.Second)
	s.Close()
	select {
	case <-doneCh:
	case <-time.After(12 * time.Second):
		t.Fatalf("requests did not return")
	}
	// the identity must really be gone before judging silence (the unregistration is carried out
	// by the target process when it gets round to the request)
	if vanish == 2 {
		select {
		case <-vanished:
		case <-time.After(5 * time.Second):
			t.Skip("the target did not carry out the unregistration (inconclusive)")
		}
	}
	gone := kit.WaitUntil(2*time.Second, func() bool {
		switch ident {
		case 0:
			_, err := node.ProcessInfo(target)
			return err != nil
		default:
			if vanish != 2 {
				_, err := node.ProcessInfo(target)
				return err != nil
			}
			// unregistered identity: a fresh request on it fails
			return node.Send(id, "probe") != nil || ident == 3
		}
	})
	if !gone {
		t.Skip("target identity did not disappear (inconclusive)")
	}
	for _, r := range reqs {
		r := r
		kit.WaitUntil(time.Second, func() bool { return kit.Quiesced(node, r) })
	}
	time.Sleep(2 * time.Millisecond)
	mu.Lock()
	defer mu.Unlock()
	for i := range reqs {
		switch {
		case results[i] == nil && notes[i] == 0:
			t.Fatalf("requester %d: %s on %v returned nil but no notification ever arrived although the identity is gone (identity kind %d, vanish %d)\ntrace: %v",
				i, map[bool]string{true: "monitor", false: "link"}[monitor[i]], id, ident, vanish, s.Trace)
		case notes[i] > 1:
			t.Fatalf("requester %d received %d notifications for %v", i, notes[i], id)
		case results[i] != nil && notes[i] != 0:
			t.Fatalf("requester %d: request failed with %v but a notification arrived", i, results[i])
		}
	}
	if viaTM {
		// and the identity that is gone is the target of no relation any more (C06)
		for i := range reqs {
			if wtm.TargetManager.HasLink(reqs[i], id) || wtm.TargetManager.HasMonitor(reqs[i], id) {
				t.Fatalf("requester %d still holds a relation on %v although that identity is gone (request returned %v, %d notifications; identity kind %d, vanish %d)\ntrace: %v",
					i, id, results[i], notes[i], ident, vanish, s.Trace)
			}
		}
	}
	nontrivial := false
	for pair := range s.CoPark {
		ab := strings.Split(pair, "|")
		add := func(x string) bool { return x == "link.add" || x == "monitor.add" || strings.HasPrefix(x, "tm.add") }
		un := func(x string) bool { return strings.HasPrefix(x, "unreg.") || strings.HasPrefix(x, "tm.drain") }
		if (add(ab[0]) && un(ab[1])) || (un(ab[0]) && add(ab[1])) {
			nontrivial = true
		}
	}
	rec.Case(nontrivial, fmt.Sprintf("ident=%d vanish=%d mon=%v trace=%s", ident, vanish, monitor, strings.Join(s.Trace, ",")),
		fmt.Sprintf("ident=%d", ident), fmt.Sprintf("vanish=%d", vanish))
}

