package c13

import (
	"errors"
	"fmt"
	"strings"
	"sync"
	"testing"
	"time"

	"ergo.services/ergo/gen"
	"pgregory.net/rapid"

	"verif/harness/kit"
	"verif/harness/kit/netkit"
)

// The connection-level streams (order_test.go) choose the message options themselves. Here
// real processes on two real nodes send the streams, so the options are the ones the process
// API derives for every kind of send: plain Send, Send of a big payload (slow to decode on the
// other side), SendImportant (waits for the acknowledgement), Send after SetCompression.
var recNodeStreams = kit.NewRecorder("C13", "node-streams",
	"two real nodes connected over loopback TCP (default pool of 3 links, established and complete before the first case); 1-3 sender processes on A each send one numbered stream of 10-80 messages to one of 2 receiver processes on B, addressed by pid, registered name or alias (fixed per stream); per message a generated kind from {Send small, Send with a 64-256 KiB payload, SendImportant small, SendImportant big}, per stream compression on/off; "+
		"oracle: invariant over the receiver's handling order - per (sender, receiver) the accepted messages are handled in the order they were sent, none twice; "+
		"non-trivial = a stream mixes at least two kinds of send; distinct by script")

type nodesAB struct {
	a, b gen.Node
	err  error
}

var (
	nsOnce sync.Once
	nsPair nodesAB
)

func twoNodes() (*nodesAB, error) {
	nsOnce.Do(func() {
		hub := netkit.NewHub()
		nsPair.b, nsPair.err = netkit.StartNetNode(hub, netkit.NetNodeName("c13b"), "cookie-c13")
		if nsPair.err != nil {
			return
		}
		nsPair.a, nsPair.err = netkit.StartNetNode(hub, netkit.NetNodeName("c13a"), "cookie-c13")
		if nsPair.err != nil {
			return
		}
		rn, err := nsPair.a.Network().GetNode(nsPair.b.Name())
		if err != nil {
			nsPair.err = fmt.Errorf("connect: %w", err)
			return
		}
		// the pool is dialled in the background right after the connection is up; streams
		// that start while links are still joining belong to the open finding (pool change
		// mid-stream), so wait until the pool is complete and stays so
		kit.WaitUntil(5*time.Second, func() bool { return rn.Info().PoolSize >= 3 })
		time.Sleep(200 * time.Millisecond)
	})
	return &nsPair, nsPair.err
}

func propNodeStreams(t *rapid.T) {
	n, err := twoNodes()
	if err != nil {
		t.Fatalf("nodes: %v", err)
	}
	tag := fmt.Sprintf("%d", time.Now().UnixNano())
	ns := rapid.IntRange(1, 3).Draw(t, "senders")
	type plan struct {
		recv, mode int
		compress   bool
		kinds      []int // 0 Send small 1 Send big 2 SendImportant small 3 SendImportant big
	}
	plans := make([]plan, ns)
	mixed := false
	for s := range plans {
		p := plan{recv: rapid.IntRange(0, 1).Draw(t, "receiver"), mode: rapid.IntRange(0, 2).Draw(t, "mode"), compress: rapid.Bool().Draw(t, "compress")}
		k := rapid.IntRange(10, 80).Draw(t, "messages")
		// per stream mixture of kinds
		var bag []int
		for kind, wmax := range []int{4, 2, 3, 1} {
			for i := rapid.IntRange(0, wmax).Draw(t, "weight"); i > 0; i-- {
				bag = append(bag, kind)
			}
		}
		if len(bag) == 0 {
			bag = []int{0, 2}
		}
		seen := map[int]bool{}
		for i := 0; i < k; i++ {
			kd := rapid.SampledFrom(bag).Draw(t, "kind")
			seen[kd] = true
			p.kinds = append(p.kinds, kd)
		}
		if len(seen) >= 2 {
			mixed = true
		}
		plans[s] = p
	}

	var mu sync.Mutex
	got := map[[2]int][]int{} // (sender, receiver) -> sequence numbers in handling order
	var spawned []struct {
		node gen.Node
		pid  gen.PID
	}
	defer func() {
		for _, s := range spawned {
			s.node.Kill(s.pid)
		}
	}()
	probe := kit.NewProbe()
	recvPID := make([]gen.PID, 2)
	recvName := make([]gen.Atom, 2)
	recvAlias := make([]gen.Alias, 2)
	for r := 0; r < 2; r++ {
		r := r
		recvName[r] = gen.Atom(fmt.Sprintf("c13recv%s-%d", tag, r))
		pid, err := n.b.SpawnRegister(recvName[r], kit.Factory(&kit.ActorConfig{Label: fmt.Sprintf("recv%d", r), Probe: probe, Quiet: true,
			OnMessage: func(a *kit.Actor, from gen.PID, msg any) (bool, error) {
				if e, ok := msg.(netkit.Envelope); ok {
					mu.Lock()
					k := [2]int{int(e.ID / 1000000), r}
					got[k] = append(got[k], int(e.ID%1000000))
					mu.Unlock()
				}
				return true, nil
			}}), gen.ProcessOptions{})
		if err != nil {
			t.Fatalf("spawn receiver: %v", err)
		}
		recvPID[r] = pid
		spawned = append(spawned, struct {
			node gen.Node
			pid  gen.PID
		}{n.b, pid})
		kit.InProc(n.b, pid, func(a *kit.Actor) { recvAlias[r], _ = a.CreateAlias() })
	}
	big := make([][]byte, 3)
	for i, sz := range []int{65536, 131072, 262144} {
		big[i] = make([]byte, sz)
		for j := range big[i] {
			big[i][j] = byte(j*7 + i)
		}
	}
	sent := make([][]int, ns) // accepted sequence numbers per sender
	var wg sync.WaitGroup
	var firstErr error
	timedOut := false
	for s := range plans {
		pid, err := n.a.Spawn(kit.Factory(&kit.ActorConfig{Label: fmt.Sprintf("sender%d", s), Probe: probe, Quiet: true}), gen.ProcessOptions{})
		if err != nil {
			t.Fatalf("spawn sender: %v", err)
		}
		spawned = append(spawned, struct {
			node gen.Node
			pid  gen.PID
		}{n.a, pid})
		wg.Add(1)
		go func(s int, pid gen.PID) {
			defer wg.Done()
			p := plans[s]
			var to any
			switch p.mode {
			case 0:
				to = recvPID[p.recv]
			case 1:
				to = gen.ProcessID{Name: recvName[p.recv], Node: n.b.Name()}
			case 2:
				to = recvAlias[p.recv]
			}
			done := make(chan struct{})
			if err := n.a.Send(pid, kit.Do{F: func(a *kit.Actor) {
				a.SetCompression(p.compress)
				for i, kd := range p.kinds {
					env := netkit.Envelope{ID: int64(s)*1000000 + int64(i)}
					if kd == 1 || kd == 3 {
						env.Body = big[i%3]
					}
					var err error
					if kd >= 2 {
						err = a.SendImportant(to, env)
					} else {
						err = a.Send(to, env)
					}
					if err == nil {
						sent[s] = append(sent[s], i)
					} else {
						mu.Lock()
						if firstErr == nil {
							firstErr = fmt.Errorf("sender %d message %d (kind %d): %w", s, i, kd, err)
						}
						mu.Unlock()
					}
				}
			}, Done: done}); err != nil {
				return
			}
			select {
			case <-done:
			case <-time.After(60 * time.Second):
			}
		}(s, pid)
	}
	wg.Wait()
	if firstErr != nil {
		if errors.Is(firstErr, gen.ErrTimeout) {
			// the acknowledgement of an important send did not come back within 5 s: the machine is
			// too busy for this case; what was delivered is still judged for order below
			timedOut = true
		} else {
			t.Fatalf("a send to an existing remote process on a live connection failed: %v", firstErr)
		}
	}
	want := 0
	for s := range sent {
		want += len(sent[s])
	}
	kit.WaitUntil(20*time.Second, func() bool {
		mu.Lock()
		defer mu.Unlock()
		t := 0
		for _, l := range got {
			t += len(l)
		}
		return t >= want
	})
	time.Sleep(5 * time.Millisecond)
	mu.Lock()
	defer mu.Unlock()
	var desc []string
	for s, p := range plans {
		ks := make([]string, len(p.kinds))
		for i, k := range p.kinds {
			ks[i] = fmt.Sprint(k)
		}
		desc = append(desc, fmt.Sprintf("s%d->r%d/m%d/z%v:%s", s, p.recv, p.mode, p.compress, strings.Join(ks, "")))
	}
	for s, p := range plans {
		seq := got[[2]int{s, p.recv}]
		seen := map[int]bool{}
		for i, v := range seq {
			if seen[v] {
				t.Fatalf("stream of sender %d: message %d handled twice || %s", s, v, strings.Join(desc, " "))
			}
			seen[v] = true
			if i > 0 && v < seq[i-1] {
				t.Fatalf("stream of sender %d: message %d (kind %d) handled after message %d (kind %d), position %d of %d || %s", s, v, p.kinds[v], seq[i-1], p.kinds[seq[i-1]], i, len(seq), strings.Join(desc, " "))
			}
		}
		if len(seq) != len(sent[s]) && !timedOut {
			t.Fatalf("stream of sender %d: %d messages accepted, %d handled by the receiver || %s", s, len(sent[s]), len(seq), strings.Join(desc, " "))
		}
		if other := got[[2]int{s, 1 - p.recv}]; len(other) > 0 {
			t.Fatalf("stream of sender %d: %d messages handled by the other receiver || %s", s, len(other), strings.Join(desc, " "))
		}
	}
	if timedOut {
		t.Skip("inconclusive: an important send timed out (busy machine)")
	}
	recNodeStreams.Case(mixed, strings.Join(desc, " "), fmt.Sprintf("senders=%d", ns))
}

func TestNodeStreams(t *testing.T) {
	rapid.Check(t, propNodeStreams)
}
