package c13

import (
	"fmt"
	"runtime"
	"sync"
	"sync/atomic"
	"testing"

	"ergo.services/ergo/lib"
	"pgregory.net/rapid"

	"verif/harness/kit"
)

// The "one worker per receive queue" rule of the protocol rests on the queue's Lock():
// readers push a frame and start a worker only if Lock() says they took the lock; the worker
// drains, unlocks, re-checks and re-locks. This part drives lib.QueueMPSC exactly in that
// pattern with several producers (the link readers) and checks the two things per-pair order
// depends on: at no moment do two goroutines hold the lock, and every producer's items come
// out once and in the order it pushed them.
var recLock = kit.NewRecorder("C13", "queue-lock",
	"lib.QueueMPSC used the way net/proto uses its receive queues: 2-6 producer goroutines push numbered items (generated bursts with generated pauses) and start a draining worker whenever Lock() returns true; the worker pops until the queue is empty, unlocks, re-checks the queue and re-locks; "+
		"oracle: invariant - never two holders of the lock at the same time (entry counter), every item is popped exactly once, per producer in push order; "+
		"non-trivial = at least two workers were started during the run (the lock changed hands); distinct by script")

func TestQueueLock(t *testing.T) {
	rapid.Check(t, func(t *rapid.T) {
		np := rapid.IntRange(2, 6).Draw(t, "producers")
		per := rapid.IntRange(200, 3000).Draw(t, "items")
		pause := make([]int, np)
		for i := range pause {
			pause[i] = rapid.SampledFrom([]int{0, 0, 1, 3, 17}).Draw(t, "pause-every")
		}
		q := lib.NewQueueMPSC()
		var holders, maxHolders, workers atomic.Int32
		var wg, wwg sync.WaitGroup
		var mu sync.Mutex
		got := make([][]int, np)
		var problem atomic.Value
		var worker func()
		worker = func() {
			defer wwg.Done()
			for {
				if h := holders.Add(1); h > 1 {
					for {
						m := maxHolders.Load()
						if h <= m || maxHolders.CompareAndSwap(m, h) {
							break
						}
					}
				}
				for {
					v, ok := q.Pop()
					if !ok {
						break
					}
					it, isItem := v.([2]int)
					if !isItem {
						problem.Store(fmt.Sprintf("popped %#v, which nobody pushed", v))
						continue
					}
					mu.Lock()
					got[it[0]] = append(got[it[0]], it[1])
					mu.Unlock()
				}
				holders.Add(-1)
				q.Unlock()
				if q.Len() == 0 {
					return
				}
				if !q.Lock() {
					return // somebody else took over
				}
			}
		}
		for p := 0; p < np; p++ {
			wg.Add(1)
			go func(p int) {
				defer wg.Done()
				for i := 0; i < per; i++ {
					q.Push([2]int{p, i})
					if q.Lock() {
						workers.Add(1)
						wwg.Add(1)
						go worker()
					}
					if pause[p] > 0 && i%pause[p] == 0 {
						runtime.Gosched()
					}
				}
			}(p)
		}
		wg.Wait()
		wwg.Wait()
		// whatever is left (pushed after the last worker's re-check) is drained here
		if q.Lock() {
			wwg.Add(1)
			worker()
		}
		if m := maxHolders.Load(); m > 1 {
			t.Fatalf("%d goroutines held the lock of one queue at the same time (producers %d, items %d, pauses %v)", m, np, per, pause)
		}
		if p, ok := problem.Load().(string); ok {
			t.Fatalf("%s", p)
		}
		for p := 0; p < np; p++ {
			if len(got[p]) != per {
				t.Fatalf("producer %d pushed %d items, %d were popped", p, per, len(got[p]))
			}
			for i, v := range got[p] {
				if v != i {
					t.Fatalf("producer %d: item %d popped at position %d (out of order or twice)", p, v, i)
				}
			}
		}
		recLock.Case(workers.Load() >= 2, fmt.Sprintf("producers=%d items=%d pauses=%v", np, per, pause), fmt.Sprintf("producers=%d", np))
	})
}
