package c13

import (
	"fmt"
	"sync"
	"testing"
	"time"

	"ergo.services/ergo/gen"
	"pgregory.net/rapid"

	"verif/harness/kit"
	"verif/harness/kit/netkit"
)

const sigOrderZero = "order-byte-zero-for-ids-divisible-by-255"

// open known finding: the link is chosen by order % len(pool); when a link joins or leaves
// the pool mid-stream, later messages travel over another link and can overtake earlier ones
const sigPoolChange = "link-selection-changes-when-the-pool-changes-mid-stream"

type stream struct {
	from gen.PID
	to   gen.PID
	mode int // 0 pid 1 name 2 alias
	// every bigEvery-th message (0: none) carries a 4 KiB body; with compression enabled those
	// frames are compressed (above the threshold) and the others are not: both kinds belong to
	// the same ordered stream
	bigEvery int
	comp     gen.Compression
}

// runStreams sends n numbered messages per stream from A to B (interleaved round robin by
// one goroutine per stream) and returns, per stream, the order in which B's core got them.
func runStreams(p *netkit.Pair, streams []stream, n int, during func(i int), mayLose func() bool) (map[int][]int, error) {
	type key struct{ s, seq int }
	var mu sync.Mutex
	got := map[int][]int{}
	total := 0
	p.CoreB.OnRoute = func(r netkit.Routed) {
		if m, ok := r.Message.([2]int); ok {
			mu.Lock()
			got[m[0]] = append(got[m[0]], m[1])
			total++
			mu.Unlock()
		}
		if m, ok := r.Message.(netkit.Envelope); ok {
			mu.Lock()
			got[int(m.ID/1000000)] = append(got[int(m.ID/1000000)], int(m.ID%1000000))
			total++
			mu.Unlock()
		}
	}
	var wg sync.WaitGroup
	var sendErr error
	for si, st := range streams {
		wg.Add(1)
		go func(si int, st stream) {
			defer wg.Done()
			opts := gen.MessageOptions{KeepNetworkOrder: true, Compression: st.comp}
			big := make([]byte, 4096)
			for i := 0; i < n; i++ {
				var err error
				var msg any = [2]int{si, i}
				if st.bigEvery > 0 {
					e := netkit.Envelope{ID: int64(si)*1000000 + int64(i)}
					if i%st.bigEvery == 0 {
						e.Body = big
					}
					msg = e
				}
				switch st.mode {
				case 0:
					err = p.ConnA.SendPID(st.from, st.to, opts, msg)
				case 1:
					err = p.ConnA.SendProcessID(st.from, gen.ProcessID{Name: gen.Atom(fmt.Sprintf("recv%d", st.to.ID)), Node: "b@localhost"}, opts, msg)
				case 2:
					err = p.ConnA.SendAlias(st.from, gen.Alias{Node: "b@localhost", Creation: 2002, ID: [3]uint64{st.to.ID, 1, 1}}, opts, msg)
				}
				if err != nil && err != gen.ErrNoConnection {
					mu.Lock()
					sendErr = err
					mu.Unlock()
					return
				}
				if si == 0 && during != nil {
					during(i)
				}
			}
		}(si, st)
	}
	wg.Wait()
	if sendErr != nil {
		return nil, sendErr
	}
	// wait for the deliveries to settle. Without a dropped link nothing may be lost, so "settled"
	// means complete and only a long silence ends the wait (a busy machine delivers in bursts);
	// after a dropped link loss is expected and a short silence is enough.
	want := len(streams) * n
	patience := 10 * time.Second
	if mayLose != nil && mayLose() {
		patience = 200 * time.Millisecond
	}
	last, lastProgress := -1, time.Now()
	for {
		mu.Lock()
		t := total
		mu.Unlock()
		if t >= want {
			break
		}
		if t != last {
			last, lastProgress = t, time.Now()
		} else if time.Since(lastProgress) > patience {
			break
		}
		time.Sleep(time.Millisecond)
	}
	mu.Lock()
	defer mu.Unlock()
	out := map[int][]int{}
	for k, v := range got {
		out[k] = append([]int(nil), v...)
	}
	return out, nil
}

func checkOrder(seqs map[int][]int) (string, bool) {
	for s, seq := range seqs {
		seen := map[int]bool{}
		for i, v := range seq {
			if seen[v] {
				return fmt.Sprintf("stream %d: message %d delivered twice", s, v), false
			}
			seen[v] = true
			if i > 0 && v < seq[i-1] {
				return fmt.Sprintf("stream %d: message %d delivered after message %d (position %d of %d)", s, v, seq[i-1], i, len(seq)), false
			}
		}
	}
	return "", true
}

func shapes(t *rapid.T, pool int) []netkit.Shape {
	var out []netkit.Shape
	for i := 0; i < pool; i++ {
		var sh netkit.Shape
		if rapid.Bool().Draw(t, "recut") {
			sh.Segs = rapid.SliceOfN(rapid.IntRange(1, 300), 1, 4).Draw(t, "segs")
		}
		switch rapid.IntRange(0, 3).Draw(t, "delay") {
		case 1:
			sh.DelayU = []int{rapid.IntRange(1, 300).Draw(t, "delay_us")}
		case 2:
			sh.DelayU = rapid.SliceOfN(rapid.IntRange(0, 500), 2, 4).Draw(t, "delays_us")
		}
		out = append(out, sh)
	}
	return out
}

var recOrder = kit.NewRecorder("C13", "streams",
	"two real proto connections over in-memory links with mock cores: pool size 1-4, every link re-cut into generated segment sizes with generated per-link delays; 1-4 concurrent (sender, receiver) streams of 200-1500 numbered messages with ids drawn around multiples of 255 and at random, addressed by pid / name / alias; during the stream a generated schedule of {join an extra link, drop link j}; "+
		"oracle: for every (sender, receiver) pair the receiving core gets strictly increasing numbers (loss is allowed only after a link drop, duplication never); "+
		"non-trivial = pool >= 2 with unequal link delays, or a join/drop during the stream; distinct by configuration")

func genID(t *rapid.T) uint64 {
	switch rapid.IntRange(0, 3).Draw(t, "idkind") {
	case 0:
		return uint64(255 * rapid.IntRange(4, 40).Draw(t, "mult"))
	case 1:
		return uint64(255*rapid.IntRange(4, 40).Draw(t, "mult") + rapid.IntRange(-2, 2).Draw(t, "off"))
	}
	return uint64(rapid.IntRange(1001, 100000).Draw(t, "id"))
}

func propStreams(t *rapid.T) {
	pool := rapid.IntRange(1, 4).Draw(t, "pool")
	shAB := shapes(t, pool)
	ns := rapid.IntRange(1, 4).Draw(t, "streams")
	n := rapid.IntRange(200, 1500).Draw(t, "messages")
	known := kit.IsKnown("C13", sigOrderZero)
	var streams []stream
	for i := 0; i < ns; i++ {
		st := stream{
			from: gen.PID{Node: "a@localhost", ID: genID(t), Creation: 1001},
			to:   gen.PID{Node: "b@localhost", ID: genID(t), Creation: 2002},
			mode: rapid.IntRange(0, 2).Draw(t, "mode"),
		}
		if rapid.IntRange(0, 2).Draw(t, "mixed-sizes") == 0 {
			st.bigEvery = rapid.IntRange(1, 7).Draw(t, "big-every")
			if rapid.Bool().Draw(t, "compression") {
				st.comp = gen.Compression{Enable: true, Threshold: 1024,
					Type: rapid.SampledFrom([]gen.CompressionType{gen.CompressionTypeGZIP, gen.CompressionTypeZLIB, gen.CompressionTypeLZW}).Draw(t, "ctype")}
			}
		}
		if known && (st.from.ID%255 == 0 || st.to.ID%255 == 0) {
			recOrder.Excluded(sigOrderZero)
			st.from.ID |= 1
			st.to.ID |= 1
			if st.from.ID%255 == 0 {
				st.from.ID += 2
			}
			if st.to.ID%255 == 0 {
				st.to.ID += 2
			}
		}
		streams = append(streams, st)
	}
	type ev struct {
		at   int
		kind int // 0 join 1 drop
		link int
	}
	var events []ev
	for i := rapid.IntRange(0, 3).Draw(t, "events"); i > 0; i-- {
		events = append(events, ev{rapid.IntRange(1, n-1).Draw(t, "at"), rapid.IntRange(0, 1).Draw(t, "evkind"), rapid.IntRange(0, 3).Draw(t, "link")})
	}
	if len(events) > 0 && kit.IsKnown("C13", sigPoolChange) {
		// excluded by construction while the finding is open (the directed replay below re-confirms it)
		recOrder.Excluded(sigPoolChange)
		events = nil
	}
	p, err := netkit.NewPair(netkit.PairOptions{Pool: pool, ShapeAB: shAB, Caches: rapid.Bool().Draw(t, "caches")})
	if err != nil {
		t.Fatalf("pair: %v", err)
	}
	defer p.Close()
	dropped := false
	seqs, err := runStreams(p, streams, n, func(i int) {
		for _, e := range events {
			if e.at != i {
				continue
			}
			if e.kind == 0 {
				p.AddLink("", netkit.Shape{DelayU: []int{50}}, netkit.Shape{})
			} else if len(p.LinksA) > 1 {
				k := e.link % len(p.LinksA)
				p.LinksA[k].Close()
				dropped = true
			}
		}
	}, func() bool { return dropped })
	if err != nil {
		t.Fatalf("send: %v", err)
	}
	if msg, ok := checkOrder(seqs); !ok {
		t.Fatalf("%s\npool=%d shapes=%v streams=%v events=%v", msg, pool, shAB, streams, events)
	}
	if !dropped {
		for s, seq := range seqs {
			if len(seq) != n {
				t.Fatalf("stream %d: %d of %d messages arrived although no link was dropped (pool=%d streams=%v events=%v)", s, len(seq), n, pool, streams, events)
			}
		}
		if len(seqs) != len(streams) {
			t.Fatalf("only %d of %d streams delivered anything", len(seqs), len(streams))
		}
	}
	unequal := false
	for i := 1; i < len(shAB); i++ {
		if fmt.Sprint(shAB[i].DelayU) != fmt.Sprint(shAB[0].DelayU) {
			unequal = true
		}
	}
	recOrder.Case((pool >= 2 && unequal) || len(events) > 0, fmt.Sprintf("pool=%d shapes=%v streams=%v n=%d events=%v", pool, shAB, streams, n, events),
		fmt.Sprintf("pool=%d", pool), fmt.Sprintf("events=%d", len(events)))
}

func TestStreams(t *testing.T) {
	rapid.Check(t, propStreams)
}

// TestResidues sweeps every residue of the id that selects link and receive queue,
// for the sender and for the receiver, with pool 3 and unequal link delays.
func TestResidues(t *testing.T) {
	rec := kit.NewRecorder("C13", "residues",
		"exhaustive sweep: sender id 1275+k and receiver id 2295+k for every k in 0..254 (all residues mod 255, incl. 0), pid addressing, pool 3 with link delays {0, 150us, 400us} and re-cut segments, 200 numbered messages per pair, 10 pairs concurrently; oracle as above; non-trivial = all (pool 3, unequal delays); distinct by (sender residue, receiver residue)")
	known := kit.IsKnown("C13", sigOrderZero)
	sh := []netkit.Shape{{}, {DelayU: []int{150}, Segs: []int{7, 64}}, {DelayU: []int{400}, Segs: []int{3}}}
	shard, shards := kit.Shard()
	const batch = 10
	var pairs [][2]uint64
	for k := uint64(0); k < 255; k++ {
		pairs = append(pairs, [2]uint64{1275 + k, 5001}) // sender residues, receiver fixed (residue != 0)
		pairs = append(pairs, [2]uint64{7001, 2295 + k}) // receiver residues
	}
	pairs = append(pairs, [2]uint64{1275, 2295}) // both zero
	zeroConfirmed := false
	for b := 0; b*batch < len(pairs); b++ {
		if b%shards != shard {
			continue
		}
		chunk := pairs[b*batch : minInt(len(pairs), (b+1)*batch)]
		var streams []stream
		for _, pr := range chunk {
			streams = append(streams, stream{from: gen.PID{Node: "a@localhost", ID: pr[0], Creation: 1001}, to: gen.PID{Node: "b@localhost", ID: pr[1], Creation: 2002}})
		}
		p, err := netkit.NewPair(netkit.PairOptions{Pool: 3, ShapeAB: sh})
		if err != nil {
			t.Fatal(err)
		}
		seqs, err := runStreams(p, streams, 200, nil, nil)
		p.Close()
		if err != nil {
			t.Fatal(err)
		}
		for si, st := range streams {
			one := map[int][]int{si: seqs[si]}
			zero := st.from.ID%255 == 0 || st.to.ID%255 == 0
			msg, ok := checkOrder(one)
			if ok && len(seqs[si]) != 200 {
				msg, ok = fmt.Sprintf("%d of 200 messages arrived", len(seqs[si])), false
			}
			if !ok {
				if zero && known {
					zeroConfirmed = true
					rec.Excluded(sigOrderZero)
					continue
				}
				kit.SaveReplay("C13", "residues", []byte(fmt.Sprintf("sender=%d receiver=%d: %s\n", st.from.ID, st.to.ID, msg)), msg)
				t.Errorf("sender id %d (residue %d) -> receiver id %d (residue %d): %s", st.from.ID, st.from.ID%255, st.to.ID, st.to.ID%255, msg)
			}
			rec.Case(true, fmt.Sprintf("sender%%255=%d receiver%%255=%d", st.from.ID%255, st.to.ID%255))
		}
	}
	if zeroConfirmed {
		rec.Confirmed(sigOrderZero, kit.KnownWhat("C13", sigOrderZero))
	}
	rec.Exhaustive(true)
}

func minInt(a, b int) int {
	if a < b {
		return a
	}
	return b
}


// TestKnownPoolChange is the directed replay of the open finding sigPoolChange: one stream,
// pool 1 with a slow link, a fast link joins after the second message.
func TestKnownPoolChange(t *testing.T) {
	if !kit.IsKnown("C13", sigPoolChange) {
		t.Skip("not listed")
	}
	confirmed := false
	for attempt := 0; attempt < 5 && !confirmed; attempt++ {
		p, err := netkit.NewPair(netkit.PairOptions{Pool: 1, ShapeAB: []netkit.Shape{{DelayU: []int{3000}}}})
		if err != nil {
			t.Fatal(err)
		}
		st := []stream{{from: gen.PID{Node: "a@localhost", ID: 5865, Creation: 1001}, to: gen.PID{Node: "b@localhost", ID: 4081, Creation: 2002}}}
		seqs, err := runStreams(p, st, 400, func(i int) {
			if i == 2 {
				p.AddLink("", netkit.Shape{}, netkit.Shape{})
			}
		}, nil)
		p.Close()
		if err != nil {
			t.Fatal(err)
		}
		if _, ok := checkOrder(seqs); !ok {
			confirmed = true
		}
	}
	if confirmed {
		recOrder.Confirmed(sigPoolChange, kit.KnownWhat("C13", sigPoolChange))
	}
	recOrder.Case(true, "directed replay: pool 1 (slow link), fast link joins after message 2, 400 messages")
}
