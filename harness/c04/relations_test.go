package c04

import (
	"errors"
	"os"
	"fmt"
	"sort"
	"strings"
	"sync"
	"testing"
	"time"

	"ergo.services/ergo/gen"
	"pgregory.net/rapid"

	"verif/harness/kit"
)

var recModel = kit.NewRecorder("C04", "model",
	"stateful history of <= 30 steps over 3-5 trapping processes on one node: link / unlink / monitor / demonitor by pid, registered name, alias and event; register / unregister name; create / delete alias; register / unregister event; spawn with LinkChild / LinkParent (one in four with an Init that fails); terminate a process (normal, error, panic, Kill, exit signal); every step is executed inside the acting process; "+
		"oracle: a model relation set updated from the returned values; whenever a target identity disappears every live requester holding a relation on it receives exactly one exit (link) or down (monitor) message naming that identity with the right reason, nobody else receives anything, and the target manager's content equals the model at the end; "+
		"non-trivial = an identity disappeared while >= 1 relation pointed at it; distinct by history")

type relKey struct {
	consumer int
	target   string // canonical target identity
	monitor  bool
}

type note struct {
	to      int
	monitor bool
	target  string
	reason  string
	// optional: the recipient terminates because of the same termination (its parent died and
	// parent exits cannot be trapped); whether it handles this notification before the exit
	// signal reaches it is not determined
	optional bool
	event    int
}

type mproc struct {
	parent  int // index of the spawning process, -1: the node
	idx     int
	pid     gen.PID
	alive   bool
	name    gen.Atom
	aliases []gen.Alias
	events  []gen.Atom
}

type world struct {
	t     *rapid.T
	node  gen.Node
	probe *kit.Probe
	tm    gen.TargetManager
	procs []*mproc
	rels  map[relKey]any // value: the real target value
	want  []note
	got   []note
	gmu   sync.Mutex
	hist  []string
	hits  int // identities that disappeared with >= 1 relation
	// the termination being applied right now and everybody it takes along
	event     int
	eventDead map[int]bool
}

func (w *world) tkey(target any) string { return fmt.Sprintf("%T:%v", target, target) }

var errInitFails = errors.New("init fails")

// spawnFailing: the parent spawns a child (with the link options) whose Init fails. Nothing
// comes into existence, so no relation does either and nobody is notified of anything.
func (w *world) spawnFailing(parent int, linkChild, linkParent bool) {
	cfg := &kit.ActorConfig{Label: "stillborn", Probe: w.probe, Trap: true, Quiet: true,
		OnInit: func(a *kit.Actor, args ...any) error { return errInitFails }}
	var serr error
	var pid gen.PID
	if e := kit.InProc(w.node, w.procs[parent].pid, func(a *kit.Actor) {
		pid, serr = a.Spawn(kit.Factory(cfg), gen.ProcessOptions{LinkChild: linkChild, LinkParent: linkParent})
	}); e != nil {
		w.t.Fatalf("inproc p%d: %v (history %v)", parent, e, w.hist)
	}
	if serr == nil {
		w.t.Fatalf("spawn of a process whose Init fails returned %v without an error (history %v)", pid, w.hist)
	}
}

func (w *world) spawn(parent int, linkChild, linkParent bool) *mproc {
	idx := len(w.procs)
	mp := &mproc{idx: idx, alive: true, parent: parent}
	cfg := &kit.ActorConfig{Label: fmt.Sprintf("p%d", idx), Probe: w.probe, Trap: true, Quiet: true,
		OnMessage: func(a *kit.Actor, from gen.PID, msg any) (bool, error) {
			var n note
			n.to = idx
			if os.Getenv("VERIF_DEBUG") != "" {
				fmt.Printf("DEBUG p%d handles %T %v\n", idx, msg, msg)
			}
			switch m := msg.(type) {
			case gen.MessageExitPID:
				n.target, n.reason = w.tkey(m.PID), m.Reason.Error()
			case gen.MessageExitProcessID:
				n.target, n.reason = w.tkey(m.ProcessID), m.Reason.Error()
			case gen.MessageExitAlias:
				n.target, n.reason = w.tkey(m.Alias), m.Reason.Error()
			case gen.MessageExitEvent:
				n.target, n.reason = w.tkey(m.Event), m.Reason.Error()
			case gen.MessageDownPID:
				n.monitor, n.target, n.reason = true, w.tkey(m.PID), m.Reason.Error()
			case gen.MessageDownProcessID:
				n.monitor, n.target, n.reason = true, w.tkey(m.ProcessID), m.Reason.Error()
			case gen.MessageDownAlias:
				n.monitor, n.target, n.reason = true, w.tkey(m.Alias), m.Reason.Error()
			case gen.MessageDownEvent:
				n.monitor, n.target, n.reason = true, w.tkey(m.Event), m.Reason.Error()
			default:
				return true, nil
			}
			w.gmu.Lock()
			w.got = append(w.got, n)
			w.gmu.Unlock()
			return true, nil
		}}
	var err error
	if parent < 0 {
		mp.pid, err = w.node.Spawn(kit.Factory(cfg), gen.ProcessOptions{})
	} else {
		var serr error
		if e := kit.InProc(w.node, w.procs[parent].pid, func(a *kit.Actor) {
			mp.pid, serr = a.Spawn(kit.Factory(cfg), gen.ProcessOptions{LinkChild: linkChild, LinkParent: linkParent})
		}); e != nil {
			serr = e
		}
		err = serr
		if err == nil {
			if linkChild {
				w.rels[relKey{parent, w.tkey(mp.pid), false}] = mp.pid
			}
			if linkParent {
				w.rels[relKey{idx, w.tkey(w.procs[parent].pid), false}] = w.procs[parent].pid
			}
		}
	}
	if err != nil {
		w.t.Fatalf("spawn: %v", err)
	}
	w.procs = append(w.procs, mp)
	return mp
}

func (w *world) in(i int, f func(a *kit.Actor)) {
	if e := kit.InProc(w.node, w.procs[i].pid, f); e != nil {
		w.t.Fatalf("inproc p%d: %v (history %v)", i, e, w.hist)
	}
}

// gone: identity target disappeared with reason; every relation on it fires once.
func (w *world) gone(target any, reason string) {
	k := w.tkey(target)
	hit := false
	var cascade []int
	var keys []relKey
	for rk := range w.rels {
		if rk.target == k {
			keys = append(keys, rk)
			delete(w.rels, rk)
		}
	}
	// links first: exit signals are sent (and, being urgent, handled) before down messages
	for _, rk := range keys {
		c := w.procs[rk.consumer]
		if rk.monitor || (!c.alive && !w.eventDead[rk.consumer]) {
			continue
		}
		if !c.alive {
			// it died a moment ago, in this very cascade: it may have handled this one before
			w.want = append(w.want, note{to: rk.consumer, monitor: false, target: k, reason: reason, optional: true, event: w.event})
			continue
		}
		hit = true
		if pid, isPID := target.(gen.PID); isPID && c.parent >= 0 && w.procs[c.parent].pid == pid {
			// an exit signal from the parent cannot be trapped: the child terminates with the same reason
			cascade = append(cascade, rk.consumer)
			continue
		}
		w.want = append(w.want, note{to: rk.consumer, monitor: false, target: k, reason: reason, event: w.event})
	}
	sort.Ints(cascade)
	for _, c := range cascade {
		w.die(c, reason)
	}
	for _, rk := range keys {
		c := w.procs[rk.consumer]
		if !rk.monitor || (!c.alive && !w.eventDead[rk.consumer]) {
			continue
		}
		if c.alive {
			hit = true
		}
		w.want = append(w.want, note{to: rk.consumer, monitor: true, target: k, reason: reason, optional: !c.alive, event: w.event})
	}
	if hit {
		w.hits++
	}
}

// die: process j terminated with reason; all its identities disappear (pid first, as the node does it).
func (w *world) die(j int, reason string) {
	pj := w.procs[j]
	if !pj.alive {
		return
	}
	pj.alive = false
	// (the relations it holds as a requester are dropped when the event is complete: until then
	// they tell which notifications it may still have seen)
	// everything that terminates as a consequence of one termination forms one event; what a
	// process that dies in the event was sent by the same event may or may not have been
	// handled by it before its own exit signal arrived (decided when the event is complete)
	top := w.eventDead == nil
	if top {
		w.event++
		w.eventDead = map[int]bool{}
		defer func() {
			for i := range w.want {
				if w.want[i].event == w.event && w.eventDead[w.want[i].to] {
					w.want[i].optional = true
				}
			}
			for rk := range w.rels {
				if !w.procs[rk.consumer].alive {
					delete(w.rels, rk)
				}
			}
			w.eventDead = nil
		}()
	}
	w.eventDead[j] = true
	// the node releases the name first, then notifies the relations on the pid
	if pj.name != "" {
		w.gone(gen.ProcessID{Name: pj.name, Node: w.node.Name()}, reason)
	}
	w.gone(pj.pid, reason)
	for _, al := range pj.aliases {
		w.gone(al, reason)
	}
	for _, ev := range pj.events {
		w.gone(gen.Event{Name: ev, Node: w.node.Name()}, reason)
	}
}

func (w *world) live() []int {
	var out []int
	for _, p := range w.procs {
		if p.alive {
			out = append(out, p.idx)
		}
	}
	return out
}

func propModel(t *rapid.T) {
	tm := gen.CreateDefaultTargetManager()
	node, err := kit.StartLocalNode(func(o *gen.NodeOptions) { o.TargetManager = tm })
	if err != nil {
		t.Fatalf("start node: %v", err)
	}
	defer node.StopForce()
	w := &world{t: t, node: node, probe: kit.NewProbe(), tm: tm, rels: map[relKey]any{}}
	n0 := rapid.IntRange(3, 5).Draw(t, "procs")
	for i := 0; i < n0; i++ {
		w.spawn(-1, false, false)
	}
	steps := rapid.IntRange(5, 30).Draw(t, "steps")
	// swarm: every case uses its own mixture of operation kinds, so that chains of a few
	// particular kinds (two aliases, delete the second, link the first, terminate) are dense
	// in some cases instead of equally unlikely in all
	var bag []int
	for op := 0; op <= 11; op++ {
		wgt := rapid.SampledFrom([]int{0, 0, 1, 1, 3}).Draw(t, "weight")
		if (op == 0 || op == 1 || op == 11) && wgt == 0 {
			wgt = 1
		}
		for k := 0; k < wgt; k++ {
			bag = append(bag, op)
		}
	}
	for s := 0; s < steps; s++ {
		live := w.live()
		if len(live) < 2 {
			w.spawn(-1, false, false)
			continue
		}
		if os.Getenv("VERIF_DEBUG") != "" {
			for _, p := range w.procs {
				if inf, err := node.ProcessInfo(p.pid); err == nil {
					fmt.Printf("DEBUG step %d p%d state=%v mbox=%+v in=%d mons=%v\n", s, p.idx, inf.State, inf.MailboxQueues, inf.MessagesIn, inf.MonitorsProcessID)
				}
			}
		}
		op := rapid.SampledFrom(bag).Draw(t, "op")
		i := live[rapid.IntRange(0, len(live)-1).Draw(t, "actor")]
		j := live[rapid.IntRange(0, len(live)-1).Draw(t, "target")]
		pi, pj := w.procs[i], w.procs[j]
		arg := rapid.IntRange(0, 5).Draw(t, "arg")
		var serr error
		switch op {
		case 0, 1, 2, 3: // link, monitor, unlink, demonitor
			// choose the identity of j
			var target any = pj.pid
			switch arg % 4 {
			case 1:
				if pj.name != "" {
					target = gen.ProcessID{Name: pj.name, Node: node.Name()}
				}
			case 2:
				if len(pj.aliases) > 0 {
					target = pj.aliases[arg%len(pj.aliases)]
				}
			case 3:
				if len(pj.events) > 0 {
					target = gen.Event{Name: pj.events[arg%len(pj.events)], Node: node.Name()}
				}
			}
			mon := op == 1 || op == 3
			add := op <= 1
			w.in(i, func(a *kit.Actor) {
				if ev, ok := target.(gen.Event); ok {
					switch op {
					case 0:
						_, serr = a.LinkEvent(ev)
					case 1:
						_, serr = a.MonitorEvent(ev)
					case 2:
						serr = a.UnlinkEvent(ev)
					case 3:
						serr = a.DemonitorEvent(ev)
					}
					return
				}
				switch op {
				case 0:
					serr = a.Link(target)
				case 1:
					serr = a.Monitor(target)
				case 2:
					serr = a.Unlink(target)
				case 3:
					serr = a.Demonitor(target)
				}
			})
			rk := relKey{i, w.tkey(target), mon}
			_, had := w.rels[rk]
			if serr == nil {
				if add {
					if had {
						t.Fatalf("op %d on %v by p%d succeeded although the relation already existed (history %v)", op, target, i, w.hist)
					}
					w.rels[rk] = target
				} else {
					if !had {
						t.Fatalf("removal op %d on %v by p%d succeeded although no such relation existed (history %v)", op, target, i, w.hist)
					}
					delete(w.rels, rk)
				}
			} else if add && !had && i != j {
				// a fresh relation on an existing identity of another live process must be accepted
				t.Fatalf("op %d on existing %v by p%d was refused: %v (history %v)", op, target, i, serr, w.hist)
			} else if !add && had {
				t.Fatalf("removal op %d of an existing relation on %v by p%d was refused: %v (history %v)", op, target, i, serr, w.hist)
			}
			w.hist = append(w.hist, fmt.Sprintf("p%d.op%d(%v)=%v", i, op, target, serr))
		case 4: // register name
			nm := gen.Atom(fmt.Sprintf("n%d", arg%2))
			w.in(i, func(a *kit.Actor) { serr = a.RegisterName(nm) })
			if serr == nil {
				pi.name = nm
			}
			w.hist = append(w.hist, fmt.Sprintf("p%d.regname(%s)=%v", i, nm, serr))
		case 5: // unregister name
			old := pi.name
			w.in(i, func(a *kit.Actor) { serr = a.UnregisterName() })
			if serr == nil {
				pi.name = ""
				w.gone(gen.ProcessID{Name: old, Node: node.Name()}, gen.ErrUnregistered.Error())
			}
			w.hist = append(w.hist, fmt.Sprintf("p%d.unregname=%v", i, serr))
		case 6: // create alias
			var al gen.Alias
			w.in(i, func(a *kit.Actor) { al, serr = a.CreateAlias() })
			if serr == nil {
				pi.aliases = append(pi.aliases, al)
			}
			w.hist = append(w.hist, fmt.Sprintf("p%d.alias=%v", i, serr))
		case 7: // delete alias
			if len(pi.aliases) == 0 {
				continue
			}
			k := arg % len(pi.aliases)
			al := pi.aliases[k]
			w.in(i, func(a *kit.Actor) { serr = a.DeleteAlias(al) })
			if serr == nil {
				pi.aliases = append(pi.aliases[:k:k], pi.aliases[k+1:]...)
				w.gone(al, gen.ErrUnregistered.Error())
			}
			w.hist = append(w.hist, fmt.Sprintf("p%d.delalias(%d)=%v", i, k, serr))
		case 8: // register event
			ev := gen.Atom(fmt.Sprintf("e%d", arg%2))
			w.in(i, func(a *kit.Actor) { _, serr = a.RegisterEvent(ev, gen.EventOptions{}) })
			if serr == nil {
				pi.events = append(pi.events, ev)
			}
			w.hist = append(w.hist, fmt.Sprintf("p%d.regevent(%s)=%v", i, ev, serr))
		case 9: // unregister event
			if len(pi.events) == 0 {
				continue
			}
			k := arg % len(pi.events)
			ev := pi.events[k]
			w.in(i, func(a *kit.Actor) { serr = a.UnregisterEvent(ev) })
			if serr == nil {
				pi.events = append(pi.events[:k:k], pi.events[k+1:]...)
				w.gone(gen.Event{Name: ev, Node: node.Name()}, gen.ErrUnregistered.Error())
			}
			w.hist = append(w.hist, fmt.Sprintf("p%d.unregevent(%s)=%v", i, ev, serr))
		case 10: // spawn child with links
			if len(w.procs) >= 9 {
				continue
			}
			lc, lp := arg&1 == 1, arg&2 == 2
			if rapid.IntRange(0, 3).Draw(t, "init_fails") == 0 {
				w.spawnFailing(i, lc, lp)
				w.hist = append(w.hist, fmt.Sprintf("p%d.spawn(init fails,linkchild=%v,linkparent=%v)", i, lc, lp))
				continue
			}
			c := w.spawn(i, lc, lp)
			w.hist = append(w.hist, fmt.Sprintf("p%d.spawn(p%d,linkchild=%v,linkparent=%v)", i, c.idx, lc, lp))
		case 11: // terminate j
			// Kill drops whatever is still in the victim's mailbox, so let every pending
			// notification be handled first (the property speaks about live requesters)
			for _, l := range live {
				pid := w.procs[l].pid
				if !kit.WaitUntil(3*time.Second, func() bool { return kit.Quiesced(node, pid) }) {
					if stuck, wit := kit.Stuck(node, pid); stuck {
						t.Fatalf("p%d is stuck: %s (history %v)", l, wit, w.hist)
					}
					t.Skip("process did not quiesce (inconclusive)")
				}
			}
			var reason string
			switch arg % 5 {
			case 0:
				reason = gen.TerminateReasonNormal.Error()
				node.Send(pj.pid, kit.Stop{Reason: gen.TerminateReasonNormal})
			case 1:
				reason = "custom-reason"
				node.Send(pj.pid, kit.Stop{Reason: errors.New("custom-reason")})
			case 2:
				reason = gen.TerminateReasonPanic.Error()
				node.Send(pj.pid, kit.Boom{})
			case 3:
				reason = gen.TerminateReasonKill.Error()
				node.Kill(pj.pid)
			case 4:
				// an exit signal from the parent cannot be trapped
				reason = "exit-reason"
				switch {
				case pj.parent < 0:
					node.SendExit(pj.pid, errors.New("exit-reason"))
				case w.procs[pj.parent].alive:
					w.in(pj.parent, func(a *kit.Actor) { a.SendExit(pj.pid, errors.New("exit-reason")) })
				default:
					reason = gen.TerminateReasonKill.Error()
					node.Kill(pj.pid)
				}
			}
			w.die(j, reason)
			// wait for the process and everything the model says dies with it
			for _, p := range w.procs {
				if p.alive {
					continue
				}
				pid := p.pid
				lbl := fmt.Sprintf("p%d", p.idx)
				// gone from the process table marks only the beginning of the clean-up: the
				// notifications have all been pushed once the terminate callback has run
				if !kit.WaitUntil(5*time.Second, func() bool { _, err := node.ProcessInfo(pid); return err != nil && w.probe.Terminated(lbl, pid) }) {
					t.Fatalf("p%d did not terminate although the model says so (history %v)", p.idx, append(w.hist, fmt.Sprintf("terminate(p%d,%s)", j, reason)))
				}
			}
			// and the survivors have handled what they were sent before the next step may hit them
			for _, p := range w.procs {
				if p.alive {
					pid := p.pid
					kit.WaitUntil(5*time.Second, func() bool { return kit.Quiesced(node, pid) })
				}
			}
			w.hist = append(w.hist, fmt.Sprintf("terminate(p%d,%s)", j, reason))
		}
	}
	if os.Getenv("VERIF_DEBUG") != "" {
		for _, p := range w.procs {
			inf, err := node.ProcessInfo(p.pid)
			fmt.Printf("DEBUG end p%d alive(model)=%v info=%v state=%v mbox=%+v links=%v mons=%v\n", p.idx, p.alive, err, inf.State, inf.MailboxQueues, inf.LinksPID, inf.MonitorsProcessID)
		}
		fmt.Printf("DEBUG hist %v\n", w.hist)
	}
	// quiescence, then compare notifications as multisets
	canon := func(ns []note) []string {
		var out []string
		for _, n := range ns {
			out = append(out, fmt.Sprintf("to=p%d monitor=%v target=%s reason=%s", n.to, n.monitor, n.target, n.reason))
		}
		sort.Strings(out)
		return out
	}
	var must, may []note
	for _, n := range w.want {
		if n.optional {
			may = append(may, n)
		} else {
			must = append(must, n)
		}
	}
	want := canon(must)
	optional := map[string]int{}
	for _, x := range canon(may) {
		optional[x]++
	}
	strip := func(got []string) []string {
		// take out what the model allows but does not demand
		left := map[string]int{}
		for k, v := range optional {
			left[k] = v
		}
		need := map[string]int{}
		for _, x := range want {
			need[x]++
		}
		var out []string
		for _, x := range got {
			if need[x] > 0 {
				need[x]--
				out = append(out, x)
			} else if left[x] > 0 {
				left[x]--
			} else {
				out = append(out, x)
			}
		}
		return out
	}
	var got []string
	kit.WaitUntil(10*time.Second, func() bool {
		w.gmu.Lock()
		got = strip(canon(w.got))
		w.gmu.Unlock()
		return len(got) >= len(want)
	})
	time.Sleep(3 * time.Millisecond)
	w.gmu.Lock()
	got = strip(canon(w.got))
	w.gmu.Unlock()
	if os.Getenv("VERIF_DEBUG") != "" {
		fmt.Printf("DEBUG got=%v\nDEBUG want=%v\n", got, want)
	}
	if strings.Join(got, "\n") != strings.Join(want, "\n") {
		t.Fatalf("notifications differ from the model\n got: %v\nwant: %v\nhistory: %v", diff(got, want), diff(want, got), w.hist)
	}
	// target manager content == model
	for rk, target := range w.rels {
		c := w.procs[rk.consumer]
		if !c.alive {
			continue
		}
		has := tm.HasLink(c.pid, target)
		if rk.monitor {
			has = tm.HasMonitor(c.pid, target)
		}
		if !has {
			t.Fatalf("model holds relation p%d -> %s (monitor=%v) but the target manager does not (history %v)", rk.consumer, rk.target, rk.monitor, w.hist)
		}
	}
	for _, p := range w.procs {
		l, m := tm.GetTargetsForConsumer(p.pid)
		for _, tg := range l {
			if _, ok := w.rels[relKey{p.idx, w.tkey(tg), false}]; !ok {
				t.Fatalf("target manager holds link p%d -> %v unknown to the model (history %v)", p.idx, tg, w.hist)
			}
		}
		for _, tg := range m {
			if _, ok := w.rels[relKey{p.idx, w.tkey(tg), true}]; !ok {
				t.Fatalf("target manager holds monitor p%d -> %v unknown to the model (history %v)", p.idx, tg, w.hist)
			}
		}
	}
	recModel.Case(w.hits > 0, strings.Join(w.hist, ";"), fmt.Sprintf("hits=%d", min(w.hits, 5)))
}

func min(a, b int) int {
	if a < b {
		return a
	}
	return b
}

func diff(a, b []string) []string {
	m := map[string]int{}
	for _, x := range b {
		m[x]++
	}
	var out []string
	for _, x := range a {
		if m[x] > 0 {
			m[x]--
			continue
		}
		out = append(out, x)
	}
	return out
}

func TestModel(t *testing.T) {
	rapid.Check(t, propModel)
}
