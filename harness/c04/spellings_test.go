package c04

import (
	"errors"
	"fmt"
	"strings"
	"sync"
	"testing"
	"time"

	"ergo.services/ergo/gen"
	"pgregory.net/rapid"

	"verif/harness/kit"
	"verif/harness/kit/netkit"
)

// The same target can be written in several ways: a registered name as an atom, as a
// ProcessID with the node's name, as a ProcessID with an empty node; an event with or
// without the node. Whatever spelling a request was made with: if it succeeded, the
// requester is told when the target goes away (and a spelling the node does not accept
// must fail, not succeed into a relation nobody will ever fire).
var recSpell = kit.NewRecorder("C04", "spellings",
	"one node with networking enabled (in-memory registrar, nobody to connect to); 1-3 requesters each issue 1-4 link/monitor requests on a target process's registered name and event, spelled as atom / ProcessID with node / ProcessID with empty node / Event with node / Event with empty node; then the identity goes away (terminate with a reason, kill, unregister the name or the event); "+
		"oracle: every request that returned nil yields exactly one exit/down notification naming the target, every request that failed yields none; "+
		"non-trivial = a request was made with a spelling other than the canonical one; distinct by script")

func TestSpellings(t *testing.T) {
	rapid.Check(t, func(t *rapid.T) {
		hub := netkit.NewHub()
		node, err := netkit.StartNetNode(hub, netkit.NetNodeName("c04s"), "cookie")
		if err != nil {
			t.Fatalf("start node: %v", err)
		}
		defer node.StopForce()
		probe := kit.NewProbe()
		target, err := node.SpawnRegister("spelled", kit.Factory(&kit.ActorConfig{Label: "target", Probe: probe, Quiet: true}), gen.ProcessOptions{})
		if err != nil {
			t.Fatalf("spawn: %v", err)
		}
		if err := kit.InProc(node, target, func(a *kit.Actor) { a.RegisterEvent("spelledev", gen.EventOptions{}) }); err != nil {
			t.Fatalf("setup: %v", err)
		}
		type req struct {
			spelling int // 0 atom 1 ProcessID+node 2 ProcessID empty node 3 Event+node 4 Event empty node
			monitor  bool
			err      error
			notes    int
		}
		nreq := rapid.IntRange(1, 3).Draw(t, "requesters")
		var mu sync.Mutex
		reqs := make([][]*req, nreq)
		pids := make([]gen.PID, nreq)
		odd := false
		for i := range reqs {
			i := i
			used := map[string]bool{}
			for n := rapid.IntRange(1, 4).Draw(t, "requests"); n > 0; n-- {
				r := &req{spelling: rapid.IntRange(0, 4).Draw(t, "spelling"), monitor: rapid.Bool().Draw(t, "monitor")}
				// one relation per (kind of target, link/monitor) and requester: two spellings of one
				// target are the same relation
				k := fmt.Sprintf("%v-%v", r.spelling >= 3, r.monitor)
				if used[k] {
					continue
				}
				used[k] = true
				if r.spelling == 2 || r.spelling == 4 {
					odd = true
				}
				reqs[i] = append(reqs[i], r)
			}
			pids[i], err = node.Spawn(kit.Factory(&kit.ActorConfig{Label: fmt.Sprintf("req%d", i), Probe: probe, Quiet: true, Trap: true,
				OnMessage: func(a *kit.Actor, from gen.PID, msg any) (bool, error) {
					isEvent, isMon := false, false
					switch m := msg.(type) {
					case gen.MessageExitProcessID:
						if m.ProcessID.Name != "spelled" {
							return true, nil
						}
					case gen.MessageDownProcessID:
						if m.ProcessID.Name != "spelled" {
							return true, nil
						}
						isMon = true
					case gen.MessageExitEvent:
						isEvent = true
					case gen.MessageDownEvent:
						isEvent, isMon = true, true
					default:
						return true, nil
					}
					mu.Lock()
					for _, r := range reqs[i] {
						if (r.spelling >= 3) == isEvent && r.monitor == isMon {
							r.notes++
						}
					}
					mu.Unlock()
					return true, nil
				}}), gen.ProcessOptions{})
			if err != nil {
				t.Fatalf("spawn: %v", err)
			}
		}
		var desc []string
		for i := range reqs {
			for _, r := range reqs[i] {
				r := r
				if e := kit.InProc(node, pids[i], func(a *kit.Actor) {
					var tgt any
					switch r.spelling {
					case 0:
						tgt = gen.Atom("spelled")
					case 1:
						tgt = gen.ProcessID{Name: "spelled", Node: node.Name()}
					case 2:
						tgt = gen.ProcessID{Name: "spelled"}
					case 3:
						tgt = gen.Event{Name: "spelledev", Node: node.Name()}
					case 4:
						tgt = gen.Event{Name: "spelledev"}
					}
					if ev, ok := tgt.(gen.Event); ok {
						if r.monitor {
							_, r.err = a.MonitorEvent(ev)
						} else {
							_, r.err = a.LinkEvent(ev)
						}
						return
					}
					if r.monitor {
						r.err = a.Monitor(tgt)
					} else {
						r.err = a.Link(tgt)
					}
				}); e != nil {
					t.Fatalf("request did not return: %v", e)
				}
				desc = append(desc, fmt.Sprintf("req%d:s%d/m%v=%v", i, r.spelling, r.monitor, r.err == nil))
				if r.err != nil && (r.spelling == 0 || r.spelling == 1 || r.spelling == 3) {
					t.Fatalf("a request on the canonical spelling %d of an existing target was refused: %v", r.spelling, r.err)
				}
			}
		}
		vanish := rapid.IntRange(0, 3).Draw(t, "vanish")
		switch vanish {
		case 0:
			node.Send(target, kit.Stop{Reason: errors.New("spelled-reason")})
		case 1:
			node.Kill(target)
		case 2:
			kit.InProc(node, target, func(a *kit.Actor) { a.UnregisterName() })
		case 3:
			kit.InProc(node, target, func(a *kit.Actor) { a.UnregisterEvent("spelledev") })
		}
		if vanish <= 1 {
			if !kit.WaitUntil(5*time.Second, func() bool { return probe.Terminated("target", target) }) {
				t.Fatalf("target did not terminate")
			}
		}
		expectFor := func(r *req) bool {
			switch vanish {
			case 2:
				return r.spelling < 3
			case 3:
				return r.spelling >= 3
			}
			return true
		}
		ok := kit.WaitUntil(3*time.Second, func() bool {
			mu.Lock()
			defer mu.Unlock()
			for i := range reqs {
				for _, r := range reqs[i] {
					if r.err == nil && expectFor(r) && r.notes == 0 {
						return false
					}
				}
			}
			return true
		})
		time.Sleep(3 * time.Millisecond)
		mu.Lock()
		defer mu.Unlock()
		for i := range reqs {
			for _, r := range reqs[i] {
				want := 0
				if r.err == nil && expectFor(r) {
					want = 1
				}
				if r.notes != want {
					t.Fatalf("requester %d: request with spelling %d (monitor=%v) returned %v and was notified %d times, want %d (vanish %d, settled=%v) || %s", i, r.spelling, r.monitor, r.err, r.notes, want, vanish, ok, strings.Join(desc, " "))
				}
			}
		}
		recSpell.Case(odd, fmt.Sprintf("vanish=%d %s", vanish, strings.Join(desc, " ")), fmt.Sprintf("vanish=%d", vanish))
	})
}
