package c04

import (
	"testing"

	"pgregory.net/rapid"

	"verif/harness/kit"
	"verif/harness/racelab"
)

var recRace = kit.NewRecorder("C04", "race",
	"one or two requesters issue a link or monitor request on an identity of the target (pid, registered name, alias or event) while the target disappears concurrently (Kill, stop message, UnregisterName, DeleteAlias, UnregisterEvent); the interleaving of the yield points between the existence check and the relation insert (link.add / monitor.add) and between the table removal and the relation drain (unreg.*) is drawn by rapid; "+
		"oracle: every request either returned an error, or returned nil and the requester received exactly one notification naming that identity - never nil-and-silence, never two notifications; "+
		"non-trivial = a requester was parked between its existence check and its insert at the same moment the target was parked between removal and drain; distinct by trace")

func propRace(t *rapid.T) { racelab.Prop(t, false, -1, recRace) }

var recRaceTM = kit.NewRecorder("C04", "race-tm",
	"the same race (1-2 link/monitor requests on pid, name, alias or event against Kill, stop message or unregistration of that identity), but the yield points are the calls into an injected wrapping gen.TargetManager (before and after every AddLink/AddMonitor and every CleanupTarget): the interleaving of relation inserts with drains is generated wherever the code base places its existence checks and table removals around them; "+
		"oracle: as for the race part; non-trivial = an insert and a drain were parked at the same moment; distinct by trace")

func TestRaceTM(t *testing.T) {
	rapid.Check(t, func(t *rapid.T) { racelab.Prop(t, true, -1, recRaceTM) })
}

func TestRace(t *testing.T) {
	rapid.Check(t, propRace)
}
