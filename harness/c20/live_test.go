package c20

import (
	"fmt"
	"sort"
	"strings"
	"sync"
	"testing"
	"time"

	"ergo.services/ergo/gen"
	"pgregory.net/rapid"

	"verif/harness/kit"
)

var recLive = kit.NewRecorder("C20", "live-firing",
	"one real node, real clock: 30-70 generated jobs in generated time zones whose specs are aimed at the coming minute boundary and the one after, at one minute off, at the same minute of another hour/day/month, or at year 1 (the scheduler's zero time); a generated subset is disabled, removed, or disabled and re-enabled (some twice) before the first boundary and again between the two; actions are recorded by a message to a collecting process and by a direct callback; "+
		"oracle: the multiset of (job, action minute) fired == the reference evaluator's set over the boundaries waited for, restricted to jobs that were enabled and present: every expected job fires exactly once, disabled and removed jobs never fire, nothing fires at a minute its spec does not denote; "+
		"non-trivial = a job that was disabled/removed/re-enabled, or whose spec just misses the boundary; distinct by (spec, zone, state)")

type fired struct {
	job gen.Atom
	at  time.Time
}

type recAction struct {
	mu  *sync.Mutex
	out *[]fired
}

func (a recAction) Do(job gen.Atom, node gen.Node, t time.Time) error {
	a.mu.Lock()
	*a.out = append(*a.out, fired{job, t})
	a.mu.Unlock()
	return nil
}
func (a recAction) Info() string { return "record" }

// specFor builds a spec that the reference evaluates to `hit` at local time l.
func specFor(t *rapid.T, l time.Time, kind int) string {
	wd := int(l.Weekday())
	if wd == 0 {
		wd = 7
	}
	m, h, d, mo := l.Minute(), l.Hour(), l.Day(), int(l.Month())
	switch kind {
	case 0:
		return fmt.Sprintf("%d %d * * *", m, h)
	case 1:
		return fmt.Sprintf("%d %d %d %d *", m, h, d, mo)
	case 2:
		return fmt.Sprintf("%d %d * * %d", m, h, wd)
	case 3:
		return fmt.Sprintf("%d * * * %d#%d", m, wd, (d-1)/7+1)
	case 4:
		return fmt.Sprintf("%d-%d * * * *", m, m)
	case 5:
		return "* * * * *"
	case 6: // just misses: the minute before / after
		return fmt.Sprintf("%d %d * * *", (m+1+rapid.IntRange(0, 1).Draw(t, "miss")*57)%60, h)
	case 7: // same minute, another hour
		return fmt.Sprintf("%d %d * * *", m, (h+1+rapid.IntRange(0, 21).Draw(t, "otherhour"))%24)
	case 8: // same time, another weekday
		return fmt.Sprintf("%d %d * * %d", m, h, wd%7+1)
	case 9: // the scheduler's zero time (1 Jan of year 1, 00:00)
		return "0 0 1 1 *"
	case 10: // another month
		return fmt.Sprintf("%d %d %d %d *", m, h, d, mo%12+1)
	}
	return fmt.Sprintf("*/%d * * * *", rapid.IntRange(1, 5).Draw(t, "every"))
}

func TestLiveFiring(t *testing.T) {
	// two boundaries in both tiers: what a job does at the second one depends on how the
	// scheduler left it at the first (spooled, skipped while disabled, fired)
	boundaries := 2
	rapid.Check(t, func(t *rapid.T) {
		node, err := kit.StartLocalNode()
		if err != nil {
			t.Fatalf("start node: %v", err)
		}
		defer node.StopForce()
		cron := node.Cron()
		now := time.Now()
		m1 := now.Truncate(time.Minute).Add(time.Minute)
		if m1.Sub(now) < 4*time.Second {
			time.Sleep(m1.Sub(now) + 200*time.Millisecond) // too close: take the next one
			now = time.Now()
			m1 = now.Truncate(time.Minute).Add(time.Minute)
		}
		bounds := []time.Time{m1}
		if boundaries == 2 {
			bounds = append(bounds, m1.Add(time.Minute))
		}
		var mu sync.Mutex
		var got []fired
		act := recAction{&mu, &got}

		type jb struct {
			name    gen.Atom
			spec    string
			loc     *time.Location
			ref     *refSpec
			present bool
			enabled bool
			touched bool
			miss    bool
		}
		n := rapid.IntRange(30, 70).Draw(t, "jobs")
		var jobs []*jb
		for i := 0; i < n; i++ {
			zn := rapid.SampledFrom(zoneNames).Draw(t, "zone")
			loc, _ := time.LoadLocation(zn)
			target := bounds[rapid.IntRange(0, len(bounds)-1).Draw(t, "target")]
			kind := rapid.IntRange(0, 11).Draw(t, "kind")
			spec := specFor(t, target.In(loc), kind)
			ref, err := refParse(spec)
			if err != nil {
				t.Fatalf("harness: %q: %v", spec, err)
			}
			j := &jb{name: gen.Atom(fmt.Sprintf("job%d", i)), spec: spec, loc: loc, ref: ref, present: true, enabled: true, miss: kind >= 6 && kind <= 10}
			if err := cron.AddJob(gen.CronJob{Name: j.name, Spec: spec, Location: loc, Action: act}); err != nil {
				t.Fatalf("AddJob(%q): %v", spec, err)
			}
			jobs = append(jobs, j)
		}
		// state changes before the first boundary
		for _, j := range jobs {
			switch rapid.IntRange(0, 9).Draw(t, "state") {
			case 0:
				cron.DisableJob(j.name)
				j.enabled, j.touched = false, true
			case 1:
				cron.RemoveJob(j.name)
				j.present, j.touched = false, true
			case 2:
				cron.DisableJob(j.name)
				cron.EnableJob(j.name)
				j.touched = true
			case 3:
				cron.DisableJob(j.name)
				cron.EnableJob(j.name)
				cron.DisableJob(j.name)
				cron.EnableJob(j.name)
				j.touched = true
			}
		}
		want := map[string]int{}
		for bi, b := range bounds {
			if d := time.Until(b); d > 0 {
				time.Sleep(d)
			}
			for _, j := range jobs {
				if j.present && j.enabled && j.ref.matches(b.In(j.loc)) {
					want[fmt.Sprintf("%s@%s", string(j.name), b.UTC().Format("15:04"))]++
				}
			}
			time.Sleep(3 * time.Second) // let the timer fire and the actions run
			if bi == 0 && len(bounds) == 2 {
				// between the boundaries: flip a few more
				for _, j := range jobs {
					if !j.present {
						continue
					}
					st2 := rapid.IntRange(0, 7).Draw(t, "state2")
					if !j.enabled && st2 >= 4 {
						st2 = 1 // a job that sat out the first boundary disabled is often switched on again
					}
					switch st2 {
					case 0:
						cron.DisableJob(j.name)
						j.enabled, j.touched = false, true
					case 1:
						cron.EnableJob(j.name)
						j.enabled, j.touched = true, true
					case 2:
						cron.RemoveJob(j.name)
						j.present, j.touched = false, true
					}
				}
			}
		}
		mu.Lock()
		have := map[string]int{}
		for _, f := range got {
			have[fmt.Sprintf("%s@%s", string(f.job), f.at.UTC().Format("15:04"))]++
		}
		mu.Unlock()
		var problems []string
		specOf := map[gen.Atom]*jb{}
		for _, j := range jobs {
			specOf[j.name] = j
		}
		for k, c := range want {
			if have[k] != c {
				j := specOf[gen.Atom(strings.Split(k, "@")[0])]
				problems = append(problems, fmt.Sprintf("%s (spec %q zone %s) should have fired %d time(s), fired %d", k, j.spec, j.loc, c, have[k]))
			}
		}
		for k, c := range have {
			if want[k] == 0 {
				j := specOf[gen.Atom(strings.Split(k, "@")[0])]
				problems = append(problems, fmt.Sprintf("%s (spec %q zone %s present=%v enabled=%v) fired %d time(s) but must not", k, j.spec, j.loc, j.present, j.enabled, c))
			}
		}
		sort.Strings(problems)
		if len(problems) > 0 {
			if len(problems) > 6 {
				problems = problems[:6]
			}
			fmt.Printf("LIVE-FIRING problems at boundaries %v:\n%s\n", bounds, strings.Join(problems, "\n"))
			t.Fatalf("boundaries %v:\n%s", bounds, strings.Join(problems, "\n"))
		}
		for _, j := range jobs {
			recLive.Case(j.touched || j.miss, fmt.Sprintf("spec=%q zone=%s present=%v enabled=%v", j.spec, j.loc, j.present, j.enabled))
		}
	})
}
