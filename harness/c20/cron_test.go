package c20

import (
	"fmt"
	"strings"
	"sync/atomic"
	"testing"
	"time"
	_ "time/tzdata"

	"ergo.services/ergo/gen"
	"pgregory.net/rapid"

	"verif/harness/kit"
)

var zoneNames = []string{"UTC", "Europe/Berlin", "America/New_York", "Australia/Lord_Howe", "Asia/Kathmandu", "America/Sao_Paulo", "Pacific/Apia", "Africa/Cairo"}

// transition days worth aiming at (local dates around which the zone's offset changes)
var hotDays = map[string][]time.Time{}

func init() {
	for _, zn := range zoneNames {
		loc, err := time.LoadLocation(zn)
		if err != nil {
			panic(err)
		}
		// find offset changes 2019-2032 by scanning hourly
		t := time.Date(2019, 1, 1, 0, 0, 0, 0, time.UTC)
		end := time.Date(2033, 1, 1, 0, 0, 0, 0, time.UTC)
		_, prev := t.In(loc).Zone()
		for ; t.Before(end); t = t.Add(6 * time.Hour) {
			_, off := t.In(loc).Zone()
			if off != prev {
				hotDays[zn] = append(hotDays[zn], t)
				prev = off
			}
		}
	}
}

func genItem(t *rapid.T, lo, hi int, allowStarStep, allowRangeStep bool) string {
	kinds := []int{0, 0, 1}
	if allowRangeStep {
		kinds = append(kinds, 2)
	}
	if allowStarStep {
		kinds = append(kinds, 3)
	}
	switch rapid.SampledFrom(kinds).Draw(t, "item") {
	case 1:
		a := rapid.IntRange(lo, hi).Draw(t, "a")
		b := rapid.IntRange(a, hi).Draw(t, "b")
		return fmt.Sprintf("%d-%d", a, b)
	case 2:
		a := rapid.IntRange(lo, hi).Draw(t, "a")
		b := rapid.IntRange(a, hi).Draw(t, "b")
		return fmt.Sprintf("%d-%d/%d", a, b, rapid.IntRange(1, hi).Draw(t, "step"))
	case 3:
		return fmt.Sprintf("*/%d", rapid.IntRange(1, hi).Draw(t, "step"))
	}
	return fmt.Sprint(rapid.IntRange(lo, hi).Draw(t, "v"))
}

func genField(t *rapid.T, k fieldKind, starBias int) (string, bool) {
	lo, hi := bounds(k)
	if rapid.IntRange(0, 9).Draw(t, "star") < starBias {
		return "*", false
	}
	n := rapid.IntRange(1, 4).Draw(t, "items")
	var items []string
	special := false
	for i := 0; i < n; i++ {
		switch {
		case k == fDay && rapid.IntRange(0, 3).Draw(t, "L") == 0:
			items = append(items, "L")
			special = true
		case k == fWday && rapid.IntRange(0, 2).Draw(t, "wspecial") == 0:
			special = true
			if rapid.Bool().Draw(t, "last") {
				items = append(items, fmt.Sprintf("%dL", rapid.IntRange(1, 7).Draw(t, "d")))
			} else {
				items = append(items, fmt.Sprintf("%d#%d", rapid.IntRange(1, 7).Draw(t, "d"), rapid.IntRange(1, 5).Draw(t, "n")))
			}
		default:
			items = append(items, genItem(t, lo, hi, k != fWday, k != fMonth && k != fWday))
		}
	}
	return strings.Join(items, ","), special
}

// genSpec builds a valid spec by construction. hour/minute are biased towards hitting often enough.
func genSpec(t *rapid.T) (string, bool) {
	if rapid.IntRange(0, 19).Draw(t, "macro") == 0 {
		return rapid.SampledFrom([]string{"@hourly", "@daily", "@monthly", "@weekly"}).Draw(t, "macroname"), false
	}
	m, _ := genField(t, fMin, 3)
	h, _ := genField(t, fHour, 5)
	d, s1 := genField(t, fDay, 4)
	mo, _ := genField(t, fMonth, 7)
	w, s2 := genField(t, fWday, 4)
	sep := rapid.SampledFrom([]string{" ", " ", "  ", "\t"}).Draw(t, "sep")
	return strings.Join([]string{m, h, d, mo, w}, sep), s1 || s2 || (d != "*" && w != "*")
}

var recSched = kit.NewRecorder("C20", "schedule",
	"valid crontab specs built by construction from the accepted grammar (lists <= 4, ranges, steps, L, dL, d#n, macros) x 8 time zones (incl. 30-minute DST, +5:45, midnight DST, a skipped calendar day) x windows of 1-20 days placed over 2019-2032 with weights on month ends, 29 February and each zone's offset transitions; "+
		"oracle (differential, both directions): Cron.JobSchedule and Cron.Schedule must equal, minute by minute, an independent reference evaluator written from the crontab rules with calendar arithmetic; AddJob must accept the spec; "+
		"non-trivial = the spec uses L/dL/d#n or restricts both day fields, and the window contains a month end or an offset transition; distinct by (spec, zone, window)")

func pickWindow(t *rapid.T, zn string) (time.Time, int, bool) {
	days := rapid.IntRange(1, 20).Draw(t, "days")
	var start time.Time
	hot := false
	switch rapid.IntRange(0, 5).Draw(t, "placement") {
	case 0, 1: // a transition of this zone
		if hs := hotDays[zn]; len(hs) > 0 {
			h := hs[rapid.IntRange(0, len(hs)-1).Draw(t, "transition")]
			start = h.Add(-time.Duration(rapid.IntRange(0, days*24).Draw(t, "before_h")) * time.Hour)
			hot = true
			break
		}
		fallthrough
	case 2: // month end
		y := rapid.IntRange(2019, 2032).Draw(t, "year")
		mo := rapid.IntRange(1, 12).Draw(t, "month")
		start = time.Date(y, time.Month(mo), 25, rapid.IntRange(0, 23).Draw(t, "h"), rapid.IntRange(0, 59).Draw(t, "m"), 0, 0, time.UTC)
		hot = days >= 7
	case 3: // leap day
		y := rapid.SampledFrom([]int{2020, 2024, 2028, 2032, 2023, 2100}).Draw(t, "leapyear")
		start = time.Date(y, 2, 24, 0, 0, 0, 0, time.UTC)
		hot = true
	default:
		start = time.Date(2019, 1, 1, 0, 0, 0, 0, time.UTC).Add(time.Duration(rapid.Int64Range(0, 14*365*24*60).Draw(t, "offset_min")) * time.Minute)
		hot = days >= 10
	}
	return start, days, hot
}

func withCron(t interface {
	Fatalf(string, ...any)
}) (gen.Node, gen.Cron) {
	node, err := kit.StartLocalNode()
	if err != nil {
		t.Fatalf("start node: %v", err)
	}
	return node, node.Cron()
}

type nopAction struct{}

func (nopAction) Do(job gen.Atom, node gen.Node, t time.Time) error { return nil }
func (nopAction) Info() string                                     { return "nop" }

// aimedSpec builds a spec around an offset transition of the zone: last/n-th weekday or last
// day of month, at the hours next to midnight and around the transition hour.
func aimedSpec(t *rapid.T, loc *time.Location, tr time.Time) string {
	l := tr.In(loc).AddDate(0, 0, rapid.IntRange(-8, 8).Draw(t, "day_shift"))
	wd := int(l.Weekday())
	if wd == 0 {
		wd = 7
	}
	hour := rapid.SampledFrom([]string{"0", "23", "*", "0,23", fmt.Sprint(tr.In(loc).Hour()), "1-3"}).Draw(t, "aimed_hour")
	min := rapid.SampledFrom([]string{"*/15", "0", "30", "*"}).Draw(t, "aimed_min")
	var day, wday string
	switch rapid.IntRange(0, 4).Draw(t, "aimed_kind") {
	case 0, 1:
		day, wday = "*", fmt.Sprintf("%dL", wd)
	case 2:
		day, wday = "*", fmt.Sprintf("%d#%d", wd, (l.Day()-1)/7+1)
	case 3:
		day, wday = "L", "*"
	default:
		day, wday = fmt.Sprint(l.Day()), fmt.Sprintf("%dL", wd)
	}
	return fmt.Sprintf("%s %s %s * %s", min, hour, day, wday)
}

func propSchedule(t *rapid.T) {
	spec, special := genSpec(t)
	zn := rapid.SampledFrom(zoneNames).Draw(t, "zone")
	loc, _ := time.LoadLocation(zn)
	start, days, hot := pickWindow(t, zn)
	if hs := hotDays[zn]; len(hs) > 0 && rapid.IntRange(0, 3).Draw(t, "aimed") == 0 {
		tr := hs[rapid.IntRange(0, len(hs)-1).Draw(t, "aimed_transition")]
		spec, special, hot = aimedSpec(t, loc, tr), true, true
		days = rapid.IntRange(10, 20).Draw(t, "aimed_days")
		start = tr.Add(-time.Duration(days*12+rapid.IntRange(-48, 48).Draw(t, "aimed_off_h")) * time.Hour)
	}
	node, cron := withCron(t)
	defer node.StopForce()

	ref, rerr := refParse(spec)
	if rerr != nil {
		t.Fatalf("harness bug: the reference grammar rejects a spec built by construction: %q: %v", spec, rerr)
	}
	if err := cron.AddJob(gen.CronJob{Name: "j", Spec: spec, Location: loc, Action: nopAction{}}); err != nil {
		t.Fatalf("AddJob rejected the valid spec %q: %v", spec, err)
	}
	// a second job so that Schedule() has something to merge
	other := "*/7 3 * * *"
	oref, _ := refParse(other)
	if err := cron.AddJob(gen.CronJob{Name: "other", Spec: other, Location: time.UTC, Action: nopAction{}}); err != nil {
		t.Fatalf("AddJob(other): %v", err)
	}
	dur := time.Duration(days) * 24 * time.Hour
	got, err := cron.JobSchedule("j", start, dur)
	if err != nil {
		t.Fatalf("JobSchedule: %v", err)
	}
	begin := start.Truncate(time.Minute)
	gi := 0
	hits := 0
	for m := begin; m.Before(begin.Add(dur)); m = m.Add(time.Minute) {
		want := ref.matches(m.In(loc))
		have := gi < len(got) && got[gi].Equal(m)
		if have {
			gi++
		}
		if want != have {
			l := m.In(loc)
			t.Fatalf("spec %q zone %s: at %s (local %s, %s) the scheduler says run=%v, crontab rules say run=%v", spec, zn, m.Format(time.RFC3339), l.Format("2006-01-02 15:04 -0700"), l.Weekday(), have, want)
		}
		if want {
			hits++
		}
	}
	if gi != len(got) {
		t.Fatalf("spec %q zone %s: JobSchedule returned %d extra or unordered entries (first: %v)", spec, zn, len(got)-gi, got[gi])
	}
	// Schedule(): the merged view over a shorter window
	sdur := dur
	if sdur > 3*24*time.Hour {
		sdur = 3 * 24 * time.Hour
	}
	sched := cron.Schedule(start, sdur)
	si := 0
	for m := begin; m.Before(begin.Add(sdur)); m = m.Add(time.Minute) {
		wantJ := ref.matches(m.In(loc))
		wantO := oref.matches(m.In(time.UTC))
		var haveJ, haveO bool
		if si < len(sched) && sched[si].Time.Equal(m) {
			for _, n := range sched[si].Jobs {
				if n == "j" {
					haveJ = true
				}
				if n == "other" {
					haveO = true
				}
			}
			si++
		}
		if wantJ != haveJ || wantO != haveO {
			t.Fatalf("spec %q zone %s: Schedule() at %s lists j=%v other=%v, crontab rules say j=%v other=%v", spec, zn, m.Format(time.RFC3339), haveJ, haveO, wantJ, wantO)
		}
	}
	if si != len(sched) {
		t.Fatalf("Schedule() returned %d entries outside the window or out of order", len(sched)-si)
	}
	recSched.Case(special && hot, fmt.Sprintf("spec=%q zone=%s start=%s days=%d hits=%d", spec, zn, start.Format(time.RFC3339), days, hits),
		"zone="+zn, fmt.Sprintf("special=%v", special), fmt.Sprintf("hot=%v", hot))
}

func TestSchedule(t *testing.T) {
	rapid.Check(t, propSchedule)
}

var recGrammar = kit.NewRecorder("C20", "grammar",
	"valid specs (as above) and malformed mutants of them: out-of-range numbers, reversed ranges, zero or oversized steps, missing/extra fields, '*' inside a list, L / dL / d#n in the wrong field or with wrong digits, stray characters, signs, empty items; "+
		"oracle (differential): Cron.AddJob returns an error iff the reference grammar rejects the spec, and a rejected job leaves no trace (JobInfo, Schedule, the name stays free); when both accept, two days of JobSchedule must agree with the reference; "+
		"non-trivial = a mutant (accepted or rejected); distinct by spec string")

func mutate(t *rapid.T, spec string) string {
	fields := strings.Fields(spec)
	if len(fields) != 5 {
		return spec + " *"
	}
	i := rapid.IntRange(0, 4).Draw(t, "mut_field")
	lo, hi := bounds(fieldKind(i))
	switch rapid.IntRange(0, 15).Draw(t, "mutation") {
	case 0:
		fields[i] = fmt.Sprint(hi + rapid.IntRange(1, 40).Draw(t, "over"))
	case 1:
		if lo > 0 {
			fields[i] = fmt.Sprint(lo - 1)
		} else {
			fields[i] = "-1"
		}
	case 2:
		fields[i] = fmt.Sprintf("%d-%d", hi, lo)
	case 3:
		fields[i] = "*/0"
	case 4:
		fields[i] = fmt.Sprintf("*/%d", hi+1)
	case 5:
		return strings.Join(fields[:4], " ")
	case 6:
		return strings.Join(append(fields, "*"), " ")
	case 7:
		fields[i] = fields[i] + ",*"
	case 8:
		fields[i] = "L"
	case 9:
		fields[i] = fmt.Sprintf("%dL", rapid.IntRange(0, 9).Draw(t, "dl"))
	case 10:
		fields[i] = fmt.Sprintf("%d#%d", rapid.IntRange(0, 8).Draw(t, "d"), rapid.IntRange(0, 7).Draw(t, "n"))
	case 11:
		fields[i] = fields[i] + rapid.SampledFrom([]string{"x", "/", "-", ",", "#", "+1", " ", "?"}).Draw(t, "junk")
	case 12:
		fields[i] = "+" + fields[i]
	case 13:
		fields[i] = fmt.Sprintf("%d-%d/%d", lo, hi, rapid.SampledFrom([]int{0, 1, hi, hi + 1}).Draw(t, "rstep"))
	case 14:
		fields[i] = "0" + fields[i]
	case 15:
		fields[i] = rapid.StringMatching(`[0-9*/,L#-]{1,6}`).Draw(t, "soup")
	}
	return strings.Join(fields, " ")
}

func checkGrammar(fatalf func(string, ...any), cron gen.Cron, name gen.Atom, spec string) (accepted bool) {
	ref, rerr := refParse(spec)
	err := cron.AddJob(gen.CronJob{Name: name, Spec: spec, Location: time.UTC, Action: nopAction{}})
	if (err == nil) != (rerr == nil) {
		fatalf("spec %q: AddJob error = %v, reference grammar error = %v", spec, err, rerr)
	}
	if err != nil {
		// a rejected job is not there: unknown to JobInfo, absent from Info, never scheduled, and
		// its name is free for a correct spec
		if _, ierr := cron.JobInfo(name); ierr == nil {
			fatalf("spec %q was rejected by AddJob (%v) and JobInfo knows the job", spec, err)
		}
		// (Cron.Info is not consulted: it walks the spool while the scheduler's timer may be popping
		// it and can panic on an item that was just taken out - see DESIGN.md section 9, observations)
		at := time.Date(2024, 2, 27, 22, 0, 0, 0, time.UTC)
		for _, sc := range cron.Schedule(at, 3*time.Hour) {
			for _, j := range sc.Jobs {
				if j == name {
					fatalf("spec %q was rejected by AddJob (%v) and the job is scheduled for %s", spec, err, sc.Time)
				}
			}
		}
		if e2 := cron.AddJob(gen.CronJob{Name: name, Spec: "* * * * *", Location: time.UTC, Action: nopAction{}}); e2 != nil {
			fatalf("spec %q was rejected by AddJob (%v) and the name is taken afterwards: %v", spec, err, e2)
		}
		cron.RemoveJob(name)
		return false
	}
	defer cron.RemoveJob(name)
	start := time.Date(2024, 2, 27, 22, 0, 0, 0, time.UTC)
	got, _ := cron.JobSchedule(name, start, 72*time.Hour)
	gi := 0
	for m := start; m.Before(start.Add(72 * time.Hour)); m = m.Add(time.Minute) {
		want := ref.matches(m)
		have := gi < len(got) && got[gi].Equal(m)
		if have {
			gi++
		}
		if want != have {
			fatalf("spec %q: at %s scheduler says run=%v, crontab rules say %v", spec, m.Format(time.RFC3339), have, want)
		}
	}
	return true
}

func propGrammar(t *rapid.T) {
	spec, _ := genSpec(t)
	mutant := rapid.IntRange(0, 3).Draw(t, "mutant") != 0
	if mutant {
		spec = mutate(t, spec)
	}
	node, cron := withCron(t)
	defer node.StopForce()
	acc := checkGrammar(t.Fatalf, cron, "g", spec)
	recGrammar.Case(mutant, fmt.Sprintf("%q accepted=%v", spec, acc), fmt.Sprintf("accepted=%v", acc))
}

func TestGrammar(t *testing.T) {
	rapid.Check(t, propGrammar)
}

var fuzzSeq atomic.Int64

// FuzzSpec: coverage-guided mutation of the spec string itself, same differential oracle.
func FuzzSpec(f *testing.F) {
	for _, s := range []string{"* * * * *", "*/15 0,23 L * 7L", "1-30/2 3 1,15 1-6 1#2", "@daily", "0 12 15 * 1", "5 4 * * 7", "59 23 31 12 5L,1#5"} {
		f.Add(s)
	}
	node, err := kit.StartLocalNode()
	if err != nil {
		f.Fatal(err)
	}
	cron := node.Cron()
	f.Fuzz(func(t *testing.T, spec string) {
		if len(spec) > 120 {
			return
		}
		checkGrammar(t.Fatalf, cron, gen.Atom(fmt.Sprintf("fz%d", fuzzSeq.Add(1))), spec)
	})
}
