package c20

import (
	"fmt"
	"strings"
	"time"
)

// Reference crontab evaluator, written from the crontab rules and the documented
// grammar of gen.CronJob.Spec (fields: minute 0-59, hour 0-23, day 1-31, month 1-12,
// weekday 1-7 with 7 = Sunday; forms *, d, d-d, */s, d-d/s, lists; day: L; weekday:
// dL, d#n; macros @hourly @daily @monthly @weekly). It uses calendar arithmetic
// only (no duration arithmetic) and shares no code with node/cron_parse.go.

type refSpec struct {
	min, hour, month [64]bool
	dayAny, wdayAny  bool
	day              [32]bool
	dayLast          bool
	wday             [8]bool
	wdayLast         [8]bool    // dL
	wdayNth          [8][6]bool // d#n
}

func digits(s string) (int, bool) {
	if s == "" {
		return 0, false
	}
	n := 0
	for _, c := range s {
		if c < '0' || c > '9' {
			return 0, false
		}
		if n < 1000000 { // saturate: anything that large is out of every field's range
			n = n*10 + int(c-'0')
		}
	}
	return n, true
}

type fieldKind int

const (
	fMin fieldKind = iota
	fHour
	fDay
	fMonth
	fWday
)

func bounds(k fieldKind) (int, int) {
	switch k {
	case fMin:
		return 0, 59
	case fHour:
		return 0, 23
	case fDay:
		return 1, 31
	case fMonth:
		return 1, 12
	}
	return 1, 7
}

// parseField returns the set of plain values, whether the field is a wildcard, and the specials.
func (r *refSpec) parseField(f string, k fieldKind) error {
	lo, hi := bounds(k)
	set := func(v int) {
		switch k {
		case fMin:
			r.min[v] = true
		case fHour:
			r.hour[v] = true
		case fDay:
			r.day[v] = true
		case fMonth:
			r.month[v] = true
		case fWday:
			r.wday[v] = true
		}
	}
	in := func(v int) bool { return v >= lo && v <= hi }
	items := strings.Split(f, ",")
	for _, it := range items {
		if it == "*" {
			if len(items) > 1 {
				return fmt.Errorf("wildcard in a list")
			}
			switch k {
			case fDay:
				r.dayAny = true
			case fWday:
				r.wdayAny = true
			default:
				for v := lo; v <= hi; v++ {
					set(v)
				}
			}
			return nil
		}
		if strings.HasPrefix(it, "*/") {
			if k == fWday {
				return fmt.Errorf("step not allowed in weekday")
			}
			s, ok := digits(it[2:])
			if !ok || s < 1 || s > hi {
				return fmt.Errorf("bad step")
			}
			for v := lo; v <= hi; v += s {
				set(v)
			}
			continue
		}
		if k == fDay && it == "L" {
			r.dayLast = true
			continue
		}
		if k == fWday && len(it) == 2 && it[1] == 'L' {
			d, ok := digits(it[:1])
			if !ok || d < 1 || d > 7 {
				return fmt.Errorf("bad dL")
			}
			r.wdayLast[d] = true
			continue
		}
		if k == fWday && len(it) == 3 && it[1] == '#' {
			d, ok1 := digits(it[:1])
			n, ok2 := digits(it[2:])
			if !ok1 || !ok2 || d < 1 || d > 7 || n < 1 || n > 5 {
				return fmt.Errorf("bad d#n")
			}
			r.wdayNth[d][n] = true
			continue
		}
		if i := strings.IndexByte(it, '-'); i >= 0 {
			a, ok := digits(it[:i])
			if !ok || !in(a) {
				return fmt.Errorf("bad range start")
			}
			rest := it[i+1:]
			step := 1
			if j := strings.IndexByte(rest, '/'); j >= 0 {
				if k == fMonth || k == fWday {
					return fmt.Errorf("range step not allowed here")
				}
				s, ok := digits(rest[j+1:])
				if !ok || s < 1 || s > hi {
					return fmt.Errorf("bad range step")
				}
				step = s
				rest = rest[:j]
			}
			b, ok := digits(rest)
			if !ok || !in(b) || a > b {
				return fmt.Errorf("bad range end")
			}
			for v := a; v <= b; v += step {
				set(v)
			}
			continue
		}
		v, ok := digits(it)
		if !ok || !in(v) {
			return fmt.Errorf("bad number %q", it)
		}
		set(v)
	}
	return nil
}

func refParse(spec string) (*refSpec, error) {
	switch spec {
	case "@hourly":
		spec = "1 * * * *"
	case "@daily":
		spec = "10 3 * * *"
	case "@monthly":
		spec = "20 4 1 * *"
	case "@weekly":
		spec = "30 5 * * 1"
	}
	fields := strings.Fields(spec)
	if len(fields) != 5 {
		return nil, fmt.Errorf("need 5 fields")
	}
	r := &refSpec{}
	for i, k := range []fieldKind{fMin, fHour, fDay, fMonth, fWday} {
		if err := r.parseField(fields[i], k); err != nil {
			return nil, err
		}
	}
	return r, nil
}

func daysIn(year int, m time.Month) int {
	switch m {
	case time.February:
		if year%4 == 0 && (year%100 != 0 || year%400 == 0) {
			return 29
		}
		return 28
	case time.April, time.June, time.September, time.November:
		return 30
	}
	return 31
}

// matches evaluates the spec on a wall-clock moment (already in the job's location).
func (r *refSpec) matches(t time.Time) bool {
	if !r.min[t.Minute()] || !r.hour[t.Hour()] || !r.month[int(t.Month())] {
		return false
	}
	wd := int(t.Weekday())
	if wd == 0 {
		wd = 7
	}
	d := t.Day()
	dim := daysIn(t.Year(), t.Month())
	dayHit := r.day[d] || (r.dayLast && d == dim)
	wdHit := r.wday[wd] || (r.wdayLast[wd] && d+7 > dim)
	if n := (d-1)/7 + 1; n <= 5 && r.wdayNth[wd][n] {
		wdHit = true
	}
	switch {
	case r.dayAny && r.wdayAny:
		return true
	case r.dayAny:
		return wdHit
	case r.wdayAny:
		return dayHit
	}
	return dayHit || wdHit // both restricted: either
}
