package c07

import (
	"errors"
	"fmt"
	"strings"
	"sync"
	"testing"
	"time"

	"ergo.services/ergo/act"
	"ergo.services/ergo/gen"
	"ergo.services/ergo/net/edf"
	"pgregory.net/rapid"

	"verif/harness/kit"
	"verif/harness/kit/netkit"
)

func init() {
	for _, v := range []any{Req{}, Rep{}} {
		if err := edf.RegisterTypeOf(v); err != nil && err != gen.ErrTaken {
			panic(err)
		}
	}
}

// reaction of the callee to one request
const (
	mNow   = iota // reply from the handler's return value
	mSend         // reply with an explicit SendResponse inside the handler, return nil
	mSelf         // reply later from the callee itself (after a self-addressed message)
	mThird        // reply from another process
	mErr          // SendResponseError
	mTwice        // reply twice with the same reference
	mStale        // first a reply carrying the reference of an earlier, completed request of this caller, then the proper one
	mCross        // first a reply carrying another caller's outstanding reference, addressed to this caller, then the proper one
	mLate         // no reply now; the reply is sent when the next request of the same caller arrives (or at the end)
	mNever        // never reply
	mDie          // terminate without replying
	mFlood        // never reply, while another process keeps sending replies that carry the reference of an earlier, completed request of this caller for the whole timeout
	nModes
)

var modeName = []string{"now", "send", "self", "third", "err", "twice", "stale", "cross", "late", "never", "die", "flood"}

func slow(m int) bool { return m == mLate || m == mNever || m == mDie || m == mFlood }

// Req is the request payload; Rep the reply. Both embed the request's unique id.
type Req struct {
	ID      int
	Mode    int
	After   bool // stale material is sent after the proper reply instead of before it
	ErrKind int  // mErr: 0 an error made for this request (its text carries the id), k > 0 the k-th well-known error value
}

type Rep struct {
	ID int
	By string
}

type deferred struct {
	From gen.PID
	Ref  gen.Ref
	ID   int
	By   string
}

type flush struct{}

type floodReq struct {
	From gen.PID
	Ref  gen.Ref
	ID   int
}

func errFor(id int) error { return fmt.Errorf("callee-error-%d", id) }

// wellKnown: error values that travel between nodes as short codes instead of text
var wellKnown = []error{gen.ErrProcessUnknown, gen.ErrProcessMailboxFull, gen.ErrProcessTerminated, gen.ErrMetaMailboxFull, gen.ErrNotAllowed, gen.ErrIncorrect}

// errOf is the error the callee answers request r with in mode mErr.
func errOf(r Req) error {
	if r.ErrKind > 0 {
		return wellKnown[(r.ErrKind-1)%len(wellKnown)]
	}
	return errFor(r.ID)
}

type calleeState struct {
	mu       sync.Mutex
	late     map[gen.PID][]deferred
	lastDone map[gen.PID]deferred
	current  map[gen.PID]deferred
	helper   gen.PID
	flooder  gen.ProcessFactory
	staleOut int // stale replies actually handed over (SendResponse returned nil)
}

func newCalleeState(helper gen.PID, flooder gen.ProcessFactory) *calleeState {
	return &calleeState{late: map[gen.PID][]deferred{}, lastDone: map[gen.PID]deferred{}, current: map[gen.PID]deferred{}, helper: helper, flooder: flooder}
}

func (st *calleeState) onCall(a *kit.Actor, from gen.PID, ref gen.Ref, request any) (any, error) {
	r, ok := request.(Req)
	if !ok {
		return request, nil
	}
	st.mu.Lock()
	defer st.mu.Unlock()
	me := deferred{From: from, Ref: ref, ID: r.ID}
	st.current[from] = me
	var stale []deferred
	stale = append(stale, st.late[from]...)
	delete(st.late, from)
	switch r.Mode {
	case mStale:
		if d, ok := st.lastDone[from]; ok {
			stale = append(stale, d)
		}
	case mCross:
		for p, d := range st.current {
			if p != from {
				stale = append(stale, deferred{From: from, Ref: d.Ref, ID: d.ID})
				break
			}
		}
	}
	sendStale := func() {
		for _, d := range stale {
			if a.SendResponse(d.From, d.Ref, Rep{ID: d.ID, By: "stale"}) == nil {
				st.staleOut++
			}
		}
	}
	if !r.After {
		sendStale()
	}
	proper := func() { a.SendResponse(from, ref, Rep{ID: r.ID, By: "callee"}) }
	var ret any
	var rerr error
	switch r.Mode {
	case mNow:
		if r.After {
			proper()
		} else {
			ret = Rep{ID: r.ID, By: "callee"}
		}
		st.lastDone[from] = me
	case mSend, mStale, mCross:
		proper()
		st.lastDone[from] = me
	case mSelf:
		a.Send(a.PID(), deferred{From: from, Ref: ref, ID: r.ID, By: "self"})
		st.lastDone[from] = me
	case mThird:
		a.Send(st.helper, deferred{From: from, Ref: ref, ID: r.ID, By: "helper"})
		st.lastDone[from] = me
	case mErr:
		a.SendResponseError(from, ref, errOf(r))
		st.lastDone[from] = me
	case mTwice:
		proper()
		if a.SendResponse(from, ref, Rep{ID: r.ID, By: "dup"}) == nil {
			st.staleOut++
		}
		st.lastDone[from] = me
	case mLate:
		st.late[from] = append(st.late[from], me)
	case mNever:
	case mFlood:
		if d, ok := st.lastDone[from]; ok {
			// one flooder per flooded call (they must not queue behind each other)
			if fl, err := a.Spawn(st.flooder, gen.ProcessOptions{}); err == nil {
				if a.Send(fl, floodReq{From: from, Ref: d.Ref, ID: d.ID}) == nil {
					st.staleOut++
				}
			}
		}
	case mDie:
		rerr = errors.New("callee dies without replying")
	}
	if r.After {
		sendStale()
	}
	return ret, rerr
}

func (st *calleeState) onMessage(a *kit.Actor, from gen.PID, msg any) (bool, error) {
	switch m := msg.(type) {
	case deferred:
		a.SendResponse(m.From, m.Ref, Rep{ID: m.ID, By: m.By})
		return true, nil
	case flush:
		st.mu.Lock()
		for p, l := range st.late {
			for _, d := range l {
				if a.SendResponse(d.From, d.Ref, Rep{ID: d.ID, By: "stale"}) == nil {
					st.staleOut++
				}
			}
			delete(st.late, p)
		}
		st.mu.Unlock()
		return true, nil
	}
	return false, nil
}

// metaCallee is a meta-process callee: it can answer at once, hand the reply over to
// its parent process, or stay silent.
type metaCallee struct {
	gen.MetaProcess
	probe *kit.Probe
	stop  chan struct{}
}

func (m *metaCallee) Init(p gen.MetaProcess) error { m.MetaProcess = p; return nil }
func (m *metaCallee) Start() error                 { <-m.stop; return nil }
func (m *metaCallee) HandleMessage(from gen.PID, message any) error {
	return nil
}
func (m *metaCallee) HandleCall(from gen.PID, ref gen.Ref, request any) (any, error) {
	r, ok := request.(Req)
	if !ok {
		return request, nil
	}
	m.probe.Note("meta", "call", from, request)
	switch r.Mode {
	case mThird, mSelf:
		m.Send(m.Parent(), deferred{From: from, Ref: ref, ID: r.ID, By: "meta-parent"})
		return nil, nil
	case mNever, mLate:
		return nil, nil
	case mDie:
		// hands the reply over to its parent and terminates normally in the same callback
		m.Send(m.Parent(), deferred{From: from, Ref: ref, ID: r.ID, By: "meta-parent"})
		return nil, gen.TerminateReasonNormal
	}
	return Rep{ID: r.ID, By: "meta"}, nil
}
func (m *metaCallee) HandleInspect(from gen.PID, item ...string) map[string]string { return nil }
func (m *metaCallee) Terminate(reason error)                                       {}

type callOp struct {
	Target int // 0,1: callee actors; 2: meta-process of callee 0; 3: a pool of 2-3 worker actors (requests are forwarded)
	Addr   int // 0 pid 1 name 2 alias
	Req    Req
	// Burn: before this call the caller draws 2^Burn-1 references from the node, so that this
	// call's reference is exactly 2^Burn generations after the previous call's (a reference
	// counter that loses high bits would hand out the same reference again: the withheld reply
	// to the previous request would then pass for the reply to this one)
	Burn int
}

type callResult struct {
	op    callOp
	value any
	err   error
}

func (o callOp) String() string {
	after := ""
	if o.Req.After {
		after = "+after"
	}
	burn := ""
	if o.Burn > 0 {
		burn = fmt.Sprintf("/burn2^%d", o.Burn)
	}
	return fmt.Sprintf("#%d->t%d/a%d:%s%s%s", o.Req.ID, o.Target, o.Addr, modeName[o.Req.Mode], after, burn)
}

var recCorr = kit.NewRecorder("C07", "correlation",
	"1-3 caller processes (on the callees' node, or in one of four cases on another node connected to it) run scripts of 2-6 calls (1 s timeout, 2 s across nodes) concurrently against 1-2 callee actors (by pid, name, alias; with or without split handling of named requests), a meta-process callee and a pool of 2-3 worker actors that forwards requests (a worker that terminates is replaced when its turn comes again); per request the callee's generated reaction is one of {return value, explicit SendResponse, reply later from itself, reply from a third process, SendResponseError (an error made for the request or a well-known error value), reply twice, reply with the reference of an earlier completed request first, reply with another caller's outstanding reference addressed to this caller first, reply only when the caller's next request arrives (= late reply while the next call waits, before or after the proper reply), never, terminate without reply}; afterwards every withheld reply is flushed and each caller makes one more call per live callee; "+
		"oracle: a call returns the reply/error carrying ITS OWN id or a timeout/delivery error, never another id; modes that reply in time must return that reply (callee never terminated in the case), withheld ones must time out; each request id is seen by a callee at most once, exactly once when the call was accepted; "+
		"non-trivial = a stale reply (late, duplicate, foreign or old reference) was handed to a caller that made a later call; distinct by scripts")

func TestCorrelation(t *testing.T) {
	rapid.Check(t, func(t *rapid.T) {
		ncallers := rapid.IntRange(1, 3).Draw(t, "callers")
		ncallees := rapid.IntRange(1, 2).Draw(t, "callees")
		nextID := 0
		scripts := make([][]callOp, ncallers)
		remote := rapid.IntRange(0, 3).Draw(t, "remote") == 0
		tmo := 1
		if remote {
			tmo = 2
		}
		split := []bool{rapid.Bool().Draw(t, "split0"), rapid.Bool().Draw(t, "split1")}
		dies, metaDies, poolDies := false, false, false
		poolSize := rapid.IntRange(2, 3).Draw(t, "pool_size")
		for c := range scripts {
			n := rapid.IntRange(2, 6).Draw(t, "calls")
			slowBudget := 2
			for i := 0; i < n; i++ {
				var o callOp
				o.Target = rapid.SampledFrom([]int{0, 0, 1, 2, 3}).Draw(t, "target")
				if o.Target == 1 && ncallees == 1 {
					o.Target = 0
				}
				o.Addr = rapid.IntRange(0, 2).Draw(t, "addr")
				if n := len(scripts[c]); n > 0 && scripts[c][n-1].Req.Mode == mLate {
					// the call after a withheld reply is the interesting one: often to the same callee
					// (its arrival releases the withheld reply), often a power of two references later
					if rapid.Bool().Draw(t, "same-callee") {
						o.Target, o.Addr = scripts[c][n-1].Target, scripts[c][n-1].Addr
					}
					if scripts[c][n-1].Target == o.Target {
						o.Burn = rapid.SampledFrom([]int{0, 0, 16, 17, 18, 17, 18, 19}).Draw(t, "burn")
					}
				}
				mode := rapid.SampledFrom([]int{mNow, mNow, mSend, mSelf, mThird, mErr, mTwice, mTwice, mStale, mStale, mCross, mCross, mLate, mLate, mLate, mNever, mFlood, mDie}).Draw(t, "mode")
				if slow(mode) {
					if slowBudget == 0 {
						mode = mNow
					} else {
						slowBudget--
					}
				}
				if remote && mode == mFlood {
					mode = mNever
				}
				if o.Target == 3 {
					// a worker that dies is replaced by the pool when its turn comes again
					o.Addr %= 2
					if mode == mFlood || mode == mNever {
						mode = mDie // (the worker that keeps silent for good)
					}
					if mode == mDie {
						poolDies = true
					}
				} else if mode == mDie && o.Target == 2 && !metaDies {
					metaDies = true
				} else if mode == mDie && (o.Target != 1 || dies) {
					mode = mNever
				} else if mode == mDie {
					dies = true
				}
				if o.Target == 2 {
					o.Addr = 2
					switch mode {
					case mNow, mThird, mSelf, mNever, mLate, mDie:
					case mFlood:
						mode = mNever
					default:
						mode = mNow
					}
				}
				o.Req = Req{ID: nextID, Mode: mode, After: rapid.Bool().Draw(t, "after")}
			if mode == mErr && rapid.Bool().Draw(t, "well_known_error") {
				o.Req.ErrKind = rapid.IntRange(1, len(wellKnown)).Draw(t, "error_value")
			}
				nextID++
				scripts[c] = append(scripts[c], o)
			}
		}

		// the callees' node; the callers live on the same node or on another one connected to it
		var node, cnode gen.Node
		var err error
		if remote {
			hub := netkit.NewHub()
			if cnode, err = netkit.StartNetNode(hub, netkit.NetNodeName("c07a"), "cookie"); err != nil {
				t.Fatalf("start node: %v", err)
			}
			defer cnode.StopForce()
			if node, err = netkit.StartNetNode(hub, netkit.NetNodeName("c07b"), "cookie"); err != nil {
				t.Fatalf("start node: %v", err)
			}
			defer node.StopForce()
			if _, err := cnode.Network().GetNode(node.Name()); err != nil {
				t.Fatalf("connect: %v", err)
			}
		} else {
			if node, err = kit.StartLocalNode(); err != nil {
				t.Fatalf("start node: %v", err)
			}
			defer node.StopForce()
			cnode = node
		}
		probe := kit.NewProbe()
		helper, err := node.Spawn(kit.Factory(&kit.ActorConfig{Label: "helper", Probe: probe, Quiet: true,
			OnMessage: func(a *kit.Actor, from gen.PID, msg any) (bool, error) {
				if d, ok := msg.(deferred); ok {
					a.SendResponse(d.From, d.Ref, Rep{ID: d.ID, By: d.By})
					return true, nil
				}
				return false, nil
			}}), gen.ProcessOptions{})
		if err != nil {
			t.Fatalf("spawn helper: %v", err)
		}
		// keeps a stale reply in the caller's response channel for the whole timeout of the
		// request that is never answered: whatever instant the timer fires at, one is there
		flooder := kit.Factory(&kit.ActorConfig{Label: "flooder", Probe: probe, Quiet: true,
			OnMessage: func(a *kit.Actor, from gen.PID, msg any) (bool, error) {
				if f, ok := msg.(floodReq); ok {
					for t0 := time.Now(); time.Since(t0) < 1150*time.Millisecond; {
						a.SendResponse(f.From, f.Ref, Rep{ID: f.ID, By: "stale"})
					}
					return true, gen.TerminateReasonNormal
				}
				return false, nil
			}})
		calleePID := make([]gen.PID, ncallees)
		calleeAlias := make([]gen.Alias, ncallees)
		calleeName := []gen.Atom{"callee0", "callee1"}
		states := make([]*calleeState, ncallees)
		var metaAlias gen.Alias
		metaStop := make(chan struct{})
		defer close(metaStop)
		for i := 0; i < ncallees; i++ {
			i := i
			st := newCalleeState(helper, flooder)
			states[i] = st
			calleePID[i], err = node.SpawnRegister(calleeName[i], kit.Factory(&kit.ActorConfig{Label: fmt.Sprintf("callee%d", i), Probe: probe,
				Split:     split[i], // requests by name and by alias arrive through HandleCallName / HandleCallAlias
				OnCall:    st.onCall,
				OnMessage: st.onMessage,
			}), gen.ProcessOptions{})
			if err != nil {
				t.Fatalf("spawn callee: %v", err)
			}
			var ierr error
			if err := kit.InProc(node, calleePID[i], func(a *kit.Actor) {
				calleeAlias[i], ierr = a.CreateAlias()
				if ierr == nil && i == 0 {
					metaAlias, ierr = a.SpawnMeta(&metaCallee{probe: probe, stop: metaStop}, gen.MetaOptions{})
				}
			}); err != nil || ierr != nil {
				t.Fatalf("callee setup: %v %v", err, ierr)
			}
		}
		poolState := newCalleeState(helper, flooder)
		poolName := gen.Atom("calleepool")
		poolPID, err := node.SpawnRegister(poolName, kit.PoolFactory(&kit.PoolConfig{Label: "pool", Probe: probe,
			Options: func(args ...any) (act.PoolOptions, error) {
				return act.PoolOptions{PoolSize: int64(poolSize), WorkerFactory: kit.Factory(&kit.ActorConfig{Label: "poolworker", Probe: probe,
					OnCall:    poolState.onCall,
					OnMessage: poolState.onMessage,
				})}, nil
			}}), gen.ProcessOptions{})
		if err != nil {
			t.Fatalf("spawn pool: %v", err)
		}
		states = append(states, poolState)
		target := func(o callOp) any {
			if o.Target == 2 {
				return metaAlias
			}
			if o.Target == 3 {
				if o.Addr == 1 {
					if remote {
						return gen.ProcessID{Name: poolName, Node: node.Name()}
					}
					return poolName
				}
				return poolPID
			}
			switch o.Addr {
			case 1:
				if remote {
					return gen.ProcessID{Name: calleeName[o.Target], Node: node.Name()}
				}
				return calleeName[o.Target]
			case 2:
				return calleeAlias[o.Target]
			}
			return calleePID[o.Target]
		}
		callers := make([]gen.PID, ncallers)
		for c := range callers {
			callers[c], err = cnode.Spawn(kit.Factory(&kit.ActorConfig{Label: fmt.Sprintf("caller%d", c), Probe: probe, Quiet: true}), gen.ProcessOptions{})
			if err != nil {
				t.Fatalf("spawn caller: %v", err)
			}
		}
		results := make([][]callResult, ncallers)
		run := func(c int, ops []callOp) {
			done := make(chan struct{})
			if err := cnode.Send(callers[c], kit.Do{F: func(a *kit.Actor) {
				for _, o := range ops {
					for i := 0; o.Burn > 0 && i < (1<<o.Burn)-1; i++ {
						a.Node().MakeRef()
					}
					v, err := a.CallWithTimeout(target(o), o.Req, tmo)
					results[c] = append(results[c], callResult{op: o, value: v, err: err})
					if o.Req.Mode == mFlood {
						time.Sleep(200 * time.Millisecond) // the flooder outlasts the timeout by design; let it finish
					}
				}
			}, Done: done}); err != nil {
				t.Fatalf("start caller: %v", err)
			}
			select {
			case <-done:
			case <-time.After(30 * time.Second):
				t.Fatalf("caller %d did not finish its script within 30 s", c)
			}
		}
		var wg sync.WaitGroup
		for c := range scripts {
			wg.Add(1)
			go func(c int) { defer wg.Done(); run(c, scripts[c]) }(c)
		}
		wg.Wait()
		// flush withheld replies (nobody is waiting: they are refused or stay buffered), then probe
		for i := range calleePID {
			node.Send(calleePID[i], flush{})
		}
		node.Send(poolPID, flush{})
		kit.WaitUntil(5*time.Second, func() bool {
			for i := range calleePID {
				if !kit.Quiesced(node, calleePID[i]) {
					return false
				}
			}
			return kit.Quiesced(node, helper)
		})
		probes := make([][]callOp, ncallers)
		for c := range probes {
			for i := range calleePID {
				if i == 1 && dies {
					continue
				}
				probes[c] = append(probes[c], callOp{Target: i, Addr: c % 3, Req: Req{ID: nextID, Mode: mNow}})
				nextID++
			}
			if !metaDies {
				probes[c] = append(probes[c], callOp{Target: 2, Addr: 2, Req: Req{ID: nextID, Mode: mNow}})
				nextID++
			}
			for k := 0; k < poolSize; k++ { // once around the ring: every worker slot is visited
				probes[c] = append(probes[c], callOp{Target: 3, Addr: k % 2, Req: Req{ID: nextID, Mode: mNow}})
				nextID++
			}
		}
		for c := range probes {
			wg.Add(1)
			go func(c int) { defer wg.Done(); run(c, probes[c]) }(c)
		}
		wg.Wait()

		// callee-side: how often was each request presented
		seen := map[int]int{}
		for _, e := range probe.Events() {
			if e.Kind == "call" {
				if r, ok := e.Msg.(Req); ok {
					seen[r.ID]++
				}
			}
		}
		staleOut := 0
		for _, st := range states {
			st.mu.Lock()
			staleOut += st.staleOut
			st.mu.Unlock()
		}
		var sb strings.Builder
		nontrivial := false
		for c := range results {
			staleBefore := false
			afterFlood := false
			fmt.Fprintf(&sb, "c%d:", c)
			for _, r := range results[c] {
				o := r.op
				fmt.Fprintf(&sb, " %s", o)
				id := o.Req.ID
				if staleBefore {
					nontrivial = true
				}
				switch o.Req.Mode {
				case mLate, mTwice, mStale, mCross, mFlood:
					staleBefore = true
				}
				// 1. never somebody else's reply
				if r.err == nil {
					rep, ok := r.value.(Rep)
					if !ok || rep.ID != id {
						t.Fatalf("caller %d: call %s returned %#v - a response made for another request\n%s", c, o, r.value, sb.String())
					}
				} else if strings.HasPrefix(r.err.Error(), "callee-error-") && r.err.Error() != errFor(id).Error() {
					t.Fatalf("caller %d: call %s returned the error %q made for another request\n%s", c, o, r.err, sb.String())
				}
				// 2. presented at most once / exactly once when accepted
				if seen[id] > 1 {
					t.Fatalf("request %s was presented to the callee %d times", o, seen[id])
				}
				// 3. completeness (only where no termination interferes). The response channel of a
				// process is bounded and hand-over is non-blocking: right after a flood of stale
				// replies the channel can still be full when the proper reply arrives, which is then
				// refused - the call times out, which the property allows. The first call after a
				// flood is therefore only held to "never somebody else's reply".
				if afterFlood {
					afterFlood = o.Req.Mode == mFlood
					continue
				}
				afterFlood = o.Req.Mode == mFlood
				if (o.Target == 1 && dies) || (o.Target == 2 && metaDies) {
					continue
				}
				if o.Target == 3 && poolDies && ncallers > 1 {
					// another caller's request may sit in the mailbox of a worker that is terminating
					continue
				}
				accepted := r.err == nil || r.err == gen.ErrTimeout || strings.HasPrefix(r.err.Error(), "callee-error-") || (o.Req.Mode == mErr && r.err.Error() == errOf(o.Req).Error())
				if accepted && seen[id] != 1 {
					t.Fatalf("call %s returned (%v, %v) but the callee saw the request %d times", o, r.value, r.err, seen[id])
				}
				switch o.Req.Mode {
				case mNow, mSend, mSelf, mThird, mTwice, mStale, mCross:
					if r.err != nil {
						t.Fatalf("caller %d: call %s was answered in time but returned %v\n%s", c, o, r.err, sb.String())
					}
				case mErr:
					if r.err == nil || r.err.Error() != errOf(o.Req).Error() {
						t.Fatalf("caller %d: call %s was answered with an error response but returned (%#v, %v)", c, o, r.value, r.err)
					}
				case mLate, mNever, mFlood:
					if r.err != gen.ErrTimeout {
						t.Fatalf("caller %d: call %s was not answered within its timeout and yet returned (%#v, %v)\n%s", c, o, r.value, r.err, sb.String())
					}
				}
			}
			sb.WriteString(" | ")
		}
		labels := []string{fmt.Sprintf("callers=%d", ncallers), fmt.Sprintf("remote=%v", remote)}
		if staleOut > 0 {
			labels = append(labels, "stale-reply-handed-over")
		}
		if dies {
			labels = append(labels, "callee-died")
		}
		if poolDies {
			labels = append(labels, "pool-worker-died")
		}
		recCorr.Case(nontrivial && staleOut > 0, fmt.Sprintf("remote=%v ", remote)+sb.String(), labels...)
	})
}
