package c07

import (
	"testing"

	"verif/harness/kit"
)

func TestMain(m *testing.M) { kit.Main(m) }
