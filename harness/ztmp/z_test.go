package ztmp

import (
	"fmt"
	"os"
	"sync"
	"testing"
	"time"

	"ergo.services/ergo/gen"
	"ergo.services/ergo/net/edf"

	"verif/harness/kit"
	"verif/harness/kit/netkit"
)

type Pub struct{ Seq int }

func init() { edf.RegisterTypeOf(Pub{}) }

func TestGap(t *testing.T) {
	locals := os.Getenv("Z_LOCALS") != ""
	gaps := 0
	for iter := 0; iter < 60; iter++ {
		hub := netkit.NewHub()
		a, _ := netkit.StartNetNode(hub, netkit.NetNodeName("za"), "cookie")
		b, _ := netkit.StartNetNode(hub, netkit.NetNodeName("zb"), "cookie")
		b.Network().GetNode(a.Name())
		probe := kit.NewProbe()
		sp := func(n gen.Node, l string) gen.PID {
			p, _ := n.Spawn(kit.Factory(&kit.ActorConfig{Label: l, Probe: probe, Trap: true}), gen.ProcessOptions{})
			return p
		}
		owner, rc, lc := sp(a, "owner"), sp(b, "rc"), sp(a, "lc")
		var token gen.Ref
		kit.InProc(a, owner, func(x *kit.Actor) { token, _ = x.RegisterEvent("s", gen.EventOptions{Buffer: 3}) })
		ev := gen.Event{Name: "s", Node: a.Name()}
		var wg sync.WaitGroup
		wg.Add(1)
		go func() {
			defer wg.Done()
			kit.InProc(a, owner, func(x *kit.Actor) {
				for i := 0; i < 600; i++ {
					x.SendEvent("s", token, Pub{Seq: i})
				}
			})
		}()
		var snap []gen.MessageEvent
		kit.InProc(b, rc, func(x *kit.Actor) { snap, _ = x.MonitorEvent(ev) })
		if locals {
			wg.Add(1)
			go func() {
				defer wg.Done()
				for r := 0; r < 6; r++ {
					kit.InProc(a, lc, func(x *kit.Actor) { x.LinkEvent(ev) })
					time.Sleep(time.Millisecond)
					kit.InProc(a, lc, func(x *kit.Actor) { x.UnlinkEvent(ev) })
				}
			}()
		}
		wg.Wait()
		time.Sleep(150 * time.Millisecond)
		var got []int
		for _, e := range probe.EventsOf("rc") {
			if m, ok := e.Msg.(gen.MessageEvent); ok && e.Kind == "event" {
				got = append(got, m.Message.(Pub).Seq)
			}
		}
		for i := 1; i < len(got); i++ {
			if got[i] != got[i-1]+1 {
				gaps++
				fmt.Printf("iter %d: gap %d -> %d (snapshot %d items, first live %d, n=%d)\n", iter, got[i-1], got[i], len(snap), got[0], len(got))
			}
		}
		if len(got) > 0 && got[len(got)-1] != 599 {
			fmt.Printf("iter %d: last received %d\n", iter, got[len(got)-1])
		}
		b.StopForce()
		a.StopForce()
	}
	fmt.Println("gaps:", gaps)
}
