//go:build verif

package c12

import (
	"fmt"
	"strings"
	"sync"
	"testing"
	"time"

	"ergo.services/ergo/gen"
	"pgregory.net/rapid"

	"verif/harness/kit"
	"verif/harness/kit/netkit"
)

var recRecvQ = kit.NewRecorder("C12", "recvq-scheduled",
	"a real proto connection pair over an in-memory link, mock cores; 2-6 small messages of one (sender, receiver) pair - hence one receive queue - sent one after the other while the controlled scheduler interleaves the reading side's push / lock steps with the queue worker's unlock / re-check / re-lock steps (yield points recvq.*); "+
		"oracle: every accepted message is routed to the receiving core exactly once, in order, without further traffic - a frame left in the queue with no worker is a lost wake-up (checked after the scheduler has let everything run and 300 ms have passed); "+
		"non-trivial = a push or lock step of the reader was parked at the same moment as an unlock / re-check step of the worker; distinct by trace")

func TestRecvQueueScheduled(t *testing.T) {
	rapid.Check(t, func(t *rapid.T) {
		n := rapid.IntRange(2, 6).Draw(t, "messages")
		choices := rapid.SliceOfN(rapid.IntRange(0, 5), 6, 60).Draw(t, "schedule")
		p, err := netkit.NewPair(netkit.PairOptions{Pool: 1})
		if err != nil {
			t.Fatalf("pair: %v", err)
		}
		defer p.Close()
		var mu sync.Mutex
		var got []int
		p.CoreB.OnRoute = func(r netkit.Routed) {
			if m, ok := r.Message.([2]int); ok {
				mu.Lock()
				got = append(got, m[1])
				mu.Unlock()
			}
		}
		s := kit.NewSched(func(name string, id uint64) bool { return strings.HasPrefix(name, "recvq.") })
		defer s.Close()
		from := gen.PID{Node: "a@localhost", ID: 1001, Creation: 1001}
		to := gen.PID{Node: "b@localhost", ID: 2002, Creation: 2002}
		done := make(chan struct{})
		go func() {
			defer close(done)
			for i := 0; i < n; i++ {
				if err := p.ConnA.SendPID(from, to, gen.MessageOptions{KeepNetworkOrder: true}, [2]int{0, i}); err != nil {
					return
				}
			}
		}()
		count := func() int { mu.Lock(); defer mu.Unlock(); return len(got) }
		s.Run(choices, func() bool {
			select {
			case <-done:
				return count() >= n
			default:
				return false
			}
		}, 3*time.Second)
		trace := append([]string(nil), s.Trace...)
		copark := s.CoPark
		s.Close()
		<-done
		if !kit.WaitUntil(300*time.Millisecond, func() bool { return count() >= n }) {
			mu.Lock()
			g := append([]int(nil), got...)
			mu.Unlock()
			t.Fatalf("%d messages were sent over the connection, the receiving core got %v and nothing more within 300 ms: a frame is sitting in the receive queue with no worker\ntrace: %v", n, g, trace)
		}
		mu.Lock()
		g := append([]int(nil), got...)
		mu.Unlock()
		for i, x := range g {
			if x != i {
				t.Fatalf("messages arrived as %v\ntrace: %v", g, trace)
			}
		}
		nontrivial := false
		for pair := range copark {
			ab := strings.Split(pair, "|")
			rd := func(x string) bool { return x == "recvq.push" || x == "recvq.lock" }
			wk := func(x string) bool { return x == "recvq.unlock" || x == "recvq.recheck" || x == "recvq.relock" }
			if (rd(ab[0]) && wk(ab[1])) || (wk(ab[0]) && rd(ab[1])) {
				nontrivial = true
			}
		}
		recRecvQ.Case(nontrivial, fmt.Sprintf("n=%d trace=%s", n, strings.Join(trace, ",")))
	})
}
