package c12

import (
	"errors"
	"fmt"
	"sort"
	"strings"
	"sync"
	"testing"
	"time"

	"ergo.services/ergo/gen"
	"ergo.services/ergo/lib"
	"ergo.services/ergo/net/edf"
	"pgregory.net/rapid"

	"verif/harness/kit"
	"verif/harness/kit/edfgen"
	"verif/harness/kit/netkit"
)

var recProto = kit.NewRecorder("C12", "proto",
	"two real proto connections over in-memory links with mock cores: pool 1-4, every link re-cut into generated segment sizes (1 byte .. 64 KiB) with generated per-link delays, peer max-message-size in {0, 1 KiB, 64 KiB}, negotiated caches on/off; 1-8 concurrent senders x 1-12 items of every frame kind (send/call by pid, name, alias; response, response-error, exit, event, terminate pid/name/alias/event; link/monitor requests; remote spawn) with payloads from the EDF value generator and byte/string payloads of 0 .. 300 KiB straddling 4096*2^k, per-item compression {off, gzip, zlib, lzw} x level x threshold, priorities, important flag; "+
		"oracle: the receiving core's log == the accepted sends as multisets: every accepted item is routed exactly once with the same kind, sender, addressee, priority, reference and an equal payload, refused items are routed nowhere, ErrTooLarge only with a limit and (for uncompressed frames) iff the frame exceeds it; "+
		"non-trivial = a frame split over >= 2 segments, two frames in one segment, a compressed frame, or >= 2 concurrent senders; distinct by script")

type pitem struct {
	ID     int64
	Kind   int
	Body   any
	Prio   gen.MessagePriority
	Comp   gen.Compression
	From   gen.PID
	ToID   uint64
	Err    error
	raw    int
	Import bool
	Start  time.Time
}

const (
	kSendPID = iota
	kSendName
	kSendAlias
	kCallPID
	kCallName
	kCallAlias
	kResponse
	kResponseErr
	kExit
	kEvent
	kTermPID
	kTermName
	kTermAlias
	kTermEvent
	kLinkPID
	kMonitorName
	kSpawn
	kKinds
)

var kindRoute = map[int]string{kSendPID: "send-pid", kSendName: "send-name", kSendAlias: "send-alias", kCallPID: "call-pid", kCallName: "call-name",
	kCallAlias: "call-alias", kResponse: "response", kResponseErr: "response-error", kExit: "exit", kEvent: "event", kTermPID: "terminate-pid",
	kTermName: "terminate-name", kTermAlias: "terminate-alias", kTermEvent: "terminate-event", kLinkPID: "link-pid", kMonitorName: "monitor-name", kSpawn: "spawn"}

func genBody(t *rapid.T) any {
	switch rapid.IntRange(0, 9).Draw(t, "bodykind") {
	case 0, 1:
		// sizes straddling the buffer growth steps and the compression threshold
		base := rapid.SampledFrom([]int{0, 1, 1000, 1023, 1024, 1025, 2048, 4095, 4096, 4097, 8192, 16384, 65535, 65536, 131072, 262144, 300000}).Draw(t, "size")
		n := base + rapid.IntRange(-3, 3).Draw(t, "jitter")
		switch rapid.IntRange(0, 5).Draw(t, "near-frame-boundary") {
		case 0, 1:
			// the frame is the payload plus a header of a few dozen bytes that depends on the kind
			// and the addressing: sweep the payload sizes whose *frame* lands on a buffer boundary
			n = 4096*rapid.SampledFrom([]int{1, 1, 1, 2, 4, 16}).Draw(t, "frame-k") - rapid.IntRange(0, 90).Draw(t, "header")
		}
		if rapid.IntRange(0, 2).Draw(t, "any-size") == 0 {
			// not only the boundaries: any size up to a few buffer lengths (decoders may treat
			// "large" binaries differently from some threshold that no constant here names)
			n = rapid.IntRange(0, 20000).Draw(t, "uniform-size")
		}
		if n < 0 {
			n = 0
		}
		b := make([]byte, n)
		seed := rapid.Uint32().Draw(t, "fill")
		compressible := rapid.Bool().Draw(t, "compressible")
		x := seed
		for i := range b {
			if compressible {
				b[i] = byte(i / 64)
			} else {
				x = x*1664525 + 1013904223
				b[i] = byte(x >> 24)
			}
		}
		return b
	case 2:
		return strings.Repeat("s", rapid.SampledFrom([]int{0, 100, 4096, 60000, 65535}).Draw(t, "strsize"))
	}
	return edfgen.Generate(t, edfgen.Options{MaxDepth: 3}).Value
}

func propProto(t *rapid.T) {
	pool := rapid.IntRange(1, 4).Draw(t, "pool")
	limit := rapid.SampledFrom([]int{0, 0, 1024, 65536}).Draw(t, "peer_max_message_size")
	caches := rapid.Bool().Draw(t, "caches")
	var shAB []netkit.Shape
	for i := 0; i < pool; i++ {
		var sh netkit.Shape
		switch rapid.IntRange(0, 3).Draw(t, "segkind") {
		case 1:
			sh.Segs = []int{rapid.IntRange(1, 16).Draw(t, "tiny")}
		case 2:
			sh.Segs = rapid.SliceOfN(rapid.IntRange(1, 65536), 1, 5).Draw(t, "segs")
		case 3:
			sh.Segs = []int{7, 4096, 1}
		}
		if rapid.IntRange(0, 2).Draw(t, "delay") == 0 {
			sh.DelayU = []int{rapid.IntRange(1, 200).Draw(t, "delay_us")}
		}
		shAB = append(shAB, sh)
	}
	ns := rapid.IntRange(1, 8).Draw(t, "senders")
	var id int64
	items := make([][]*pitem, ns)
	for s := range items {
		n := rapid.IntRange(1, 12).Draw(t, "items")
		for j := 0; j < n; j++ {
			id++
			it := &pitem{ID: id, Kind: rapid.IntRange(0, kKinds-1).Draw(t, "kind"), Body: genBody(t),
				Prio:   rapid.SampledFrom([]gen.MessagePriority{gen.MessagePriorityNormal, gen.MessagePriorityHigh, gen.MessagePriorityMax}).Draw(t, "prio"),
				From:   gen.PID{Node: "a@localhost", ID: uint64(rapid.IntRange(1001, 5000).Draw(t, "from")), Creation: 1001},
				ToID:   uint64(rapid.IntRange(1001, 5000).Draw(t, "to")),
				Import: rapid.IntRange(0, 5).Draw(t, "important") == 0,
			}
			if rapid.IntRange(0, 2).Draw(t, "compress") == 0 {
				it.Comp = gen.Compression{Enable: true,
					Type:      rapid.SampledFrom([]gen.CompressionType{gen.CompressionTypeGZIP, gen.CompressionTypeZLIB, gen.CompressionTypeLZW}).Draw(t, "ctype"),
					Level:     rapid.SampledFrom([]gen.CompressionLevel{gen.CompressionDefault, gen.CompressionBestSpeed, gen.CompressionBestSize}).Draw(t, "clevel"),
					Threshold: rapid.SampledFrom([]int{1024, 1025, 4096, 100000}).Draw(t, "cthreshold")}
			}
			buf := lib.TakeBuffer()
			if err := edf.Encode(netkit.Envelope{ID: it.ID, Body: it.Body}, buf, edf.Options{}); err != nil {
				t.Fatalf("harness: body does not encode: %v", err)
			}
			it.raw = buf.Len()
			lib.ReleaseBuffer(buf)
			items[s] = append(items[s], it)
		}
	}

	// keep the number of segments per case bounded (a case is sized by volume, not by time):
	// widen tiny segments when the total payload is large
	volume := 0
	for _, list := range items {
		for _, it := range list {
			volume += it.raw
		}
	}
	for i := range shAB {
		for j, sg := range shAB[i].Segs {
			if sg > 0 && volume/sg > 150000 {
				shAB[i].Segs[j] = volume/150000 + 1
			}
		}
	}
	p, err := netkit.NewPair(netkit.PairOptions{Pool: pool, ShapeAB: shAB, Caches: caches, MaxMessageSizeB: limit})
	if err != nil {
		t.Fatalf("pair: %v", err)
	}
	defer p.Close()

	var wg sync.WaitGroup
	for s := range items {
		wg.Add(1)
		go func(list []*pitem) {
			defer wg.Done()
			for _, it := range list {
				it.Start = time.Now()
				env := netkit.Envelope{ID: it.ID, Body: it.Body}
				to := gen.PID{Node: "b@localhost", ID: it.ToID, Creation: 2002}
				name := gen.ProcessID{Name: gen.Atom(fmt.Sprintf("name%d", it.ToID)), Node: "b@localhost"}
				alias := gen.Alias{Node: "b@localhost", Creation: 2002, ID: [3]uint64{it.ToID, 77, 3}}
				ev := gen.Event{Name: gen.Atom(fmt.Sprintf("ev%d", it.ToID)), Node: "a@localhost"}
				o := gen.MessageOptions{Priority: it.Prio, Compression: it.Comp, KeepNetworkOrder: true, ImportantDelivery: it.Import,
					Ref: gen.Ref{Node: "a@localhost", Creation: 1001, ID: [3]uint64{uint64(it.ID), 0, 0}}}
				switch it.Kind {
				case kSendPID:
					it.Err = p.ConnA.SendPID(it.From, to, o, env)
				case kSendName:
					it.Err = p.ConnA.SendProcessID(it.From, name, o, env)
				case kSendAlias:
					it.Err = p.ConnA.SendAlias(it.From, alias, o, env)
				case kCallPID:
					it.Err = p.ConnA.CallPID(it.From, to, o, env)
				case kCallName:
					it.Err = p.ConnA.CallProcessID(it.From, name, o, env)
				case kCallAlias:
					it.Err = p.ConnA.CallAlias(it.From, alias, o, env)
				case kResponse:
					it.Err = p.ConnA.SendResponse(it.From, to, o, env)
				case kResponseErr:
					it.Err = p.ConnA.SendResponseError(it.From, to, o, fmt.Errorf("err-%d", it.ID))
				case kExit:
					it.Err = p.ConnA.SendExit(it.From, to, fmt.Errorf("exit-%d", it.ID))
				case kEvent:
					it.Err = p.ConnA.SendEvent(it.From, o, gen.MessageEvent{Event: ev, Timestamp: it.ID, Message: env})
				case kTermPID:
					it.Err = p.ConnA.SendTerminatePID(it.From, fmt.Errorf("term-%d", it.ID))
				case kTermName:
					it.Err = p.ConnA.SendTerminateProcessID(gen.ProcessID{Name: gen.Atom(fmt.Sprintf("tn%d", it.ID)), Node: "a@localhost"}, fmt.Errorf("term-%d", it.ID))
				case kTermAlias:
					it.Err = p.ConnA.SendTerminateAlias(gen.Alias{Node: "a@localhost", Creation: 1001, ID: [3]uint64{uint64(it.ID), 1, 2}}, fmt.Errorf("term-%d", it.ID))
				case kTermEvent:
					it.Err = p.ConnA.SendTerminateEvent(gen.Event{Name: gen.Atom(fmt.Sprintf("te%d", it.ID)), Node: "a@localhost"}, fmt.Errorf("term-%d", it.ID))
				case kLinkPID:
					it.Err = p.ConnA.LinkPID(it.From, gen.PID{Node: "b@localhost", ID: uint64(it.ID), Creation: 2002})
				case kMonitorName:
					it.Err = p.ConnA.MonitorProcessID(it.From, gen.ProcessID{Name: gen.Atom(fmt.Sprintf("mn%d", it.ID)), Node: "b@localhost"})
				case kSpawn:
					_, it.Err = p.ConnA.RemoteSpawn(gen.Atom(fmt.Sprintf("sp%d", it.ID)), gen.ProcessOptionsExtra{ParentPID: it.From, ParentLeader: it.From})
				}
			}
		}(items[s])
	}
	wg.Wait()
	accepted := 0
	for _, list := range items {
		for _, it := range list {
			if it.Err == nil {
				accepted++
			}
		}
	}
	// important sends make B answer with response-error frames to A: not part of B's log
	// wait until every accepted item has been routed (by id, not by count: timed-out synchronous
	// requests are routed too). A deadline expiry falls through: the comparison names what is missing.
	acceptedIDs := map[int64]bool{}
	for _, list := range items {
		for _, it := range list {
			if it.Err == nil {
				acceptedIDs[it.ID] = true
			}
		}
	}
	t0 := time.Now()
	kit.WaitUntil(20*time.Second, func() bool {
		if countRouted(p.CoreB) < accepted {
			return false
		}
		seen := map[int64]bool{}
		for _, r := range p.CoreB.Calls() {
			seen[routedID(r)] = true
		}
		for id := range acceptedIDs {
			if !seen[id] {
				return false
			}
		}
		return true
	})
	waited := time.Since(t0)
	time.Sleep(2 * time.Millisecond)

	type key struct {
		kind string
		id   int64
	}
	got := map[key][]netkit.Routed{}
	for _, r := range p.CoreB.Calls() {
		id := routedID(r)
		got[key{r.Kind, id}] = append(got[key{r.Kind, id}], r)
	}
	var problems []string
	compressed, concurrent := false, ns >= 2
	for _, list := range items {
		for _, it := range list {
			k := key{kindRoute[it.Kind], it.ID}
			rs := got[k]
			delete(got, k)
			big := it.raw + 64
			if it.Err != nil {
				timeoutOK := errors.Is(it.Err, gen.ErrTimeout) && len(rs) <= 1
				if len(rs) != 0 && !timeoutOK {
					problems = append(problems, fmt.Sprintf("item %d (%s) was refused with %v but routed %d times at the peer", it.ID, k.kind, it.Err, len(rs)))
				}
				if errors.Is(it.Err, gen.ErrTimeout) && (it.Kind == kLinkPID || it.Kind == kMonitorName || it.Kind == kSpawn) {
					// a synchronous request may time out (5 s) - but not when the peer carried it out
					// promptly: the reply path is unshaped, so the reply was lost
					if len(rs) == 1 && rs[0].At.Sub(it.Start) < 2*time.Second {
						problems = append(problems, fmt.Sprintf("item %d (%s): the peer carried the request out %v after it was issued, yet the requester got %v", it.ID, k.kind, rs[0].At.Sub(it.Start), it.Err))
					}
					continue
				}
				if !errors.Is(it.Err, gen.ErrTooLarge) {
					problems = append(problems, fmt.Sprintf("item %d (%s, body %d bytes) failed with %v", it.ID, k.kind, it.raw, it.Err))
				} else if limit == 0 {
					problems = append(problems, fmt.Sprintf("item %d refused as too large although the peer has no limit", it.ID))
				} else if !it.Comp.Enable && !caches && big < limit-64 {
					problems = append(problems, fmt.Sprintf("item %d (%s, frame about %d bytes, uncompressed) refused as too large for limit %d", it.ID, k.kind, big, limit))
				}
				continue
			}
			if limit > 0 && !it.Comp.Enable && !caches && it.raw > limit+64 && isPayloadKind(it.Kind) {
				problems = append(problems, fmt.Sprintf("item %d (%s, body %d bytes, uncompressed) was accepted although the peer's limit is %d", it.ID, k.kind, it.raw, limit))
			}
			if len(rs) != 1 {
				problems = append(problems, fmt.Sprintf("item %d (%s, body %d bytes, comp=%v prio=%v) was accepted but routed %d times at the peer", it.ID, k.kind, it.raw, it.Comp.Enable, it.Prio, len(rs)))
				continue
			}
			if msg := compare(it, rs[0]); msg != "" {
				problems = append(problems, fmt.Sprintf("item %d (%s): %s", it.ID, k.kind, msg))
			}
			if it.Comp.Enable && it.raw+40 > it.Comp.Threshold {
				compressed = true
			}
		}
	}
	for k, rs := range got {
		if k.kind == "node-down" {
			continue
		}
		problems = append(problems, fmt.Sprintf("peer routed %d unexpected %s (id %d)", len(rs), k.kind, k.id))
	}
	if n := p.LogB.Errors.Load(); n > 0 && len(problems) == 0 {
		problems = append(problems, fmt.Sprintf("the receiving connection logged %d errors although every frame was well-formed", n))
	}
	if len(problems) > 0 {
		sort.Strings(problems)
		if len(problems) > 5 {
			problems = problems[:5]
		}
		var stats []string
		for i := range p.LinksA {
			stats = append(stats, fmt.Sprintf("link%d: A wrote %d bytes in %d segments", i, p.LinksA[i].Bytes.Load(), p.LinksA[i].Segs.Load()))
		}
		t.Fatalf("%s\npool=%d limit=%d caches=%v shapes=%v waited=%v\nreceiver log: %v\nsender log: %v\n%v", strings.Join(problems, "\n"), pool, limit, caches, shAB, waited, p.LogB.Messages(), p.LogA.Messages(), stats)
	}
	split := false
	for _, l := range p.LinksA {
		if l.Segs.Load() >= 2 {
			split = true
		}
	}
	var ks []string
	for _, list := range items {
		for _, it := range list {
			ks = append(ks, fmt.Sprintf("%s/%d/c%v", kindRoute[it.Kind], it.raw, it.Comp.Enable))
		}
	}
	recProto.Case(split || compressed || concurrent, fmt.Sprintf("pool=%d limit=%d caches=%v shapes=%v items=%v", pool, limit, caches, shAB, ks),
		fmt.Sprintf("pool=%d", pool), fmt.Sprintf("compressed=%v", compressed), fmt.Sprintf("limit=%d", limit))
}

func isPayloadKind(k int) bool {
	switch k {
	case kSendPID, kSendName, kSendAlias, kCallPID, kCallName, kCallAlias, kResponse, kEvent:
		return true
	}
	return false
}

func countRouted(c *netkit.MockCore) int { return c.Count() }

func routedID(r netkit.Routed) int64 {
	switch m := r.Message.(type) {
	case netkit.Envelope:
		return m.ID
	case gen.MessageEvent:
		if e, ok := m.Message.(netkit.Envelope); ok {
			return e.ID
		}
	case error:
		if m != nil {
			var id int64
			s := m.Error()
			if i := strings.LastIndexByte(s, '-'); i >= 0 {
				fmt.Sscanf(s[i+1:], "%d", &id)
			}
			return id
		}
	case gen.ProcessOptionsExtra:
		var id int64
		fmt.Sscanf(string(r.To.(gen.Atom)), "sp%d", &id)
		return id
	}
	switch to := r.To.(type) {
	case gen.PID:
		if r.Kind == "link-pid" {
			return int64(to.ID)
		}
	case gen.ProcessID:
		var id int64
		fmt.Sscanf(string(to.Name), "mn%d", &id)
		return id
	}
	return -1
}

func compare(it *pitem, r netkit.Routed) string {
	if isPayloadKind(it.Kind) || it.Kind == kExit || it.Kind == kResponseErr {
		if r.From != it.From {
			return fmt.Sprintf("sender changed: sent by %v, routed as from %v", it.From, r.From)
		}
	}
	switch it.Kind {
	case kSendPID, kCallPID, kResponse, kResponseErr, kExit:
		if to, ok := r.To.(gen.PID); !ok || to.ID != it.ToID || to.Node != "b@localhost" {
			return fmt.Sprintf("addressee changed: sent to id %d, routed to %v", it.ToID, r.To)
		}
	case kSendName, kCallName:
		if to, ok := r.To.(gen.ProcessID); !ok || to.Name != gen.Atom(fmt.Sprintf("name%d", it.ToID)) {
			return fmt.Sprintf("addressee changed: sent to name%d, routed to %v", it.ToID, r.To)
		}
	case kSendAlias, kCallAlias:
		if to, ok := r.To.(gen.Alias); !ok || to.ID != [3]uint64{it.ToID, 77, 3} {
			return fmt.Sprintf("addressee changed: sent to alias %d, routed to %v", it.ToID, r.To)
		}
	}
	if isPayloadKind(it.Kind) && it.Kind != kResponse && r.Options.Priority != it.Prio {
		return fmt.Sprintf("priority changed: %v -> %v", it.Prio, r.Options.Priority)
	}
	switch it.Kind {
	case kCallPID, kCallName, kCallAlias, kResponse, kResponseErr:
		if r.Options.Ref.ID[0] != uint64(it.ID) {
			return fmt.Sprintf("reference changed: %d -> %v", it.ID, r.Options.Ref)
		}
	}
	var body any
	switch m := r.Message.(type) {
	case netkit.Envelope:
		body = m.Body
	case gen.MessageEvent:
		if e, ok := m.Message.(netkit.Envelope); ok {
			body = e.Body
		}
		if m.Timestamp != it.ID {
			return "event timestamp changed"
		}
	default:
		return ""
	}
	if err := edfgen.Equal(it.Body, body, edfgen.EqOptions{}); err != nil {
		return fmt.Sprintf("payload changed: %v", err)
	}
	return ""
}

func TestProto(t *testing.T) {
	rapid.Check(t, propProto)
}
