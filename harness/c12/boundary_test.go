package c12

import (
	"fmt"
	"strings"
	"sync/atomic"
	"testing"
	"time"

	"ergo.services/ergo/gen"

	"verif/harness/kit"
	"verif/harness/kit/netkit"
)

var recBoundary = kit.NewRecorder("C12", "frame-boundaries",
	"enumerated, not sampled: on an idle single-link connection (real proto connections, mock cores) one message at a time is sent and awaited, for every payload size from k*4096-110 to k*4096+12 (k = 1, 2, 4, 16), as a string and as a byte slice, by pid, by name and by alias - so every frame length around the buffer sizes of the write path occurs as the only frame in flight; "+
		"oracle: each message is routed to the receiving core, unchanged, without any further traffic on the link (1.5 s on an otherwise idle link = stuck); "+
		"non-trivial = every case (the sweep is the point); distinct by (k, kind, addressing, size)")

// TestFrameBoundaries is the boundary sweep of the write path (flusher / bufio / frame header).
func TestFrameBoundaries(t *testing.T) {
	sh, n := kit.Shard()
	type cfg struct {
		k    int
		str  bool
		mode int
	}
	var cfgs []cfg
	for _, k := range []int{1, 2, 4, 16} {
		for _, str := range []bool{true, false} {
			for mode := 0; mode < 3; mode++ {
				cfgs = append(cfgs, cfg{k, str, mode})
			}
		}
	}
	from := gen.PID{Node: "a@localhost", ID: 1001, Creation: 1001}
	to := gen.PID{Node: "b@localhost", ID: 2002, Creation: 2002}
	for ci, c := range cfgs {
		if ci%n != sh {
			continue
		}
		p, err := netkit.NewPair(netkit.PairOptions{Pool: 1})
		if err != nil {
			t.Fatalf("pair: %v", err)
		}
		var got atomic.Int64
		var lastLen atomic.Int64
		p.CoreB.OnRoute = func(r netkit.Routed) {
			switch m := r.Message.(type) {
			case string:
				lastLen.Store(int64(len(m)))
			case []byte:
				lastLen.Store(int64(len(m)))
			}
			got.Add(1)
		}
		for size := c.k*4096 - 110; size <= c.k*4096+12; size++ {
			if c.str && size > 65535 {
				break // documented limit of the string encoding
			}
			var msg any = strings.Repeat("s", size)
			if !c.str {
				msg = make([]byte, size)
			}
			before := got.Load()
			opts := gen.MessageOptions{KeepNetworkOrder: true}
			switch c.mode {
			case 0:
				err = p.ConnA.SendPID(from, to, opts, msg)
			case 1:
				err = p.ConnA.SendProcessID(from, gen.ProcessID{Name: "recv", Node: "b@localhost"}, opts, msg)
			case 2:
				err = p.ConnA.SendAlias(from, gen.Alias{Node: "b@localhost", Creation: 2002, ID: [3]uint64{7, 1, 1}}, opts, msg)
			}
			if err != nil {
				p.Close()
				t.Fatalf("send of %d bytes (k=%d string=%v addressing=%d): %v", size, c.k, c.str, c.mode, err)
			}
			if !kit.WaitUntil(1500*time.Millisecond, func() bool { return got.Load() > before }) {
				p.Close()
				t.Fatalf("a payload of %d bytes (string=%v, addressing %d) sent as the only message on an idle link was not delivered within 1.5 s: the frame is stuck on the sending side", size, c.str, c.mode)
			}
			if lastLen.Load() != int64(size) {
				p.Close()
				t.Fatalf("a payload of %d bytes arrived with %d bytes", size, lastLen.Load())
			}
			recBoundary.Case(true, fmt.Sprintf("k=%d str=%v mode=%d size=%d", c.k, c.str, c.mode, size))
		}
		p.Close()
	}
	recBoundary.Exhaustive(true)
}
