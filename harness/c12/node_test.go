package c12

import (
	"errors"
	"fmt"
	"strings"
	"sync"
	"testing"
	"time"

	"ergo.services/ergo/gen"
	"pgregory.net/rapid"

	"verif/harness/kit"
	"verif/harness/kit/edfgen"
	"verif/harness/kit/netkit"
)

var recNode = kit.NewRecorder("C12", "nodes",
	"two real nodes (started in different seconds, so their incarnations differ) connected over loopback TCP with the default pool of 3 links: 1-6 concurrent sender processes x 1-10 items from {Send, SendImportant, Call, CallImportant, SendEvent on the sender's own event with two subscribers on the other node} addressed by pid / registered name / alias to {an existing unbounded receiver, a receiver with mailbox size 1 that is parked in a handler (full), a pid / name / alias that does not exist}, payloads from the EDF generator and byte strings up to 100 KiB, per-sender compression on/off; decoy processes with similar names and aliases stand by; "+
		"oracle: every plain send that returned nil to an existing receiver with room is handled exactly once by the addressee with the true sender pid and an equal payload, never by a decoy; SendImportant / CallImportant return nil exactly when the message is in the remote receiver's log, otherwise the remote reason (unknown process / mailbox full) and the message is handled nowhere; a Call returns the addressee's reply for its own id; an event is handled exactly once by each of the two subscribers with an equal payload and by nobody else; "+
		"non-trivial = >= 2 concurrent senders with an important item, or a refused important item; distinct by script")

type nodePair struct {
	hub  *netkit.Hub
	a, b gen.Node
	err  error
}

var (
	npOnce sync.Once
	np     nodePair
)

func nodes() (*nodePair, error) {
	npOnce.Do(func() {
		np.hub = netkit.NewHub()
		np.b, np.err = netkit.StartNetNode(np.hub, netkit.NetNodeName("c12b"), "cookie-c12")
		if np.err != nil {
			return
		}
		time.Sleep(1100 * time.Millisecond) // different creation second
		np.a, np.err = netkit.StartNetNode(np.hub, netkit.NetNodeName("c12a"), "cookie-c12")
		if np.err != nil {
			return
		}
		if _, err := np.a.Network().GetNode(np.b.Name()); err != nil {
			np.err = fmt.Errorf("connect: %w", err)
		}
	})
	return &np, np.err
}

type nitem struct {
	ID      int64
	Op      int // 0 Send 1 SendImportant 2 Call 3 CallImportant 4 SendEvent (the sender's own event; two subscribers on the other node)
	Mode    int // 0 pid 1 name 2 alias
	Target  int // 0 existing 1 full 2 missing
	Body    any
	Err     error
	Reply   any
	replyOK bool
}

func propNodes(t *rapid.T) {
	n, err := nodes()
	if err != nil {
		t.Fatalf("nodes: %v", err)
	}
	ns := rapid.IntRange(1, 6).Draw(t, "senders")
	var id int64
	plans := make([][]*nitem, ns)
	compress := make([]bool, ns)
	for s := range plans {
		compress[s] = rapid.Bool().Draw(t, "compress")
		k := rapid.IntRange(1, 10).Draw(t, "items")
		for j := 0; j < k; j++ {
			id++
			it := &nitem{ID: id, Op: rapid.SampledFrom([]int{0, 1, 2, 3, 0, 1, 2, 3, 4}).Draw(t, "op"), Mode: rapid.IntRange(0, 2).Draw(t, "mode"),
				Target: rapid.SampledFrom([]int{0, 0, 0, 1, 2}).Draw(t, "target")}
			if it.Op == 2 || it.Op == 4 {
				it.Target = 0 // a plain call to a full or missing target only waits for its timeout
			}
			if rapid.IntRange(0, 3).Draw(t, "big") == 0 {
				sz := rapid.SampledFrom([]int{0, 1024, 4096, 65536, 100000}).Draw(t, "size")
				b := make([]byte, sz)
				for i := range b {
					b[i] = byte(i * 31)
				}
				it.Body = b
			} else {
				it.Body = edfgen.Generate(t, edfgen.Options{MaxDepth: 2}).Value
			}
			plans[s] = append(plans[s], it)
		}
	}
	probe := kit.NewProbe()
	tag := fmt.Sprintf("%d", time.Now().UnixNano())
	var spawned []struct {
		node gen.Node
		pid  gen.PID
	}
	defer func() {
		for _, s := range spawned {
			s.node.Kill(s.pid)
		}
	}()
	mk := func(node gen.Node, label string, name gen.Atom, opts gen.ProcessOptions, cfg *kit.ActorConfig) gen.PID {
		cfg.Label, cfg.Probe = label, probe
		var p gen.PID
		var err error
		if name != "" {
			p, err = node.SpawnRegister(name, kit.Factory(cfg), opts)
		} else {
			p, err = node.Spawn(kit.Factory(cfg), opts)
		}
		if err != nil {
			t.Fatalf("spawn %s: %v", label, err)
		}
		spawned = append(spawned, struct {
			node gen.Node
			pid  gen.PID
		}{node, p})
		return p
	}
	reply := func(a *kit.Actor, from gen.PID, ref gen.Ref, req any) (any, error) {
		if e, ok := req.(netkit.Envelope); ok {
			return netkit.Envelope{ID: -e.ID, Body: a.Cfg.Label}, nil
		}
		return "?", nil
	}
	recvName, fullName := gen.Atom("recv"+tag), gen.Atom("full"+tag)
	recv := mk(n.b, "recv", recvName, gen.ProcessOptions{}, &kit.ActorConfig{OnCall: reply})
	full := mk(n.b, "full", fullName, gen.ProcessOptions{MailboxSize: 1}, &kit.ActorConfig{OnCall: reply})
	decoy := mk(n.b, "decoy", gen.Atom("recv"+tag+"x"), gen.ProcessOptions{}, &kit.ActorConfig{OnCall: reply})
	var recvAlias, fullAlias gen.Alias
	kit.InProc(n.b, recv, func(a *kit.Actor) { recvAlias, _ = a.CreateAlias() })
	kit.InProc(n.b, full, func(a *kit.Actor) { fullAlias, _ = a.CreateAlias() })
	kit.InProc(n.b, decoy, func(a *kit.Actor) { a.CreateAlias() })
	// park the bounded receiver in a handler and fill its mailbox (size 1)
	gate := kit.Gate{Entered: make(chan struct{}), Open: make(chan struct{})}
	defer close(gate.Open)
	n.b.Send(full, gate)
	<-gate.Entered
	if err := n.b.Send(full, "filler"); err != nil {
		t.Fatalf("filler: %v", err)
	}
	missingPID := gen.PID{Node: n.b.Name(), ID: 999999999, Creation: recv.Creation}
	missingName := gen.ProcessID{Name: gen.Atom("nobody" + tag), Node: n.b.Name()}
	missingAlias := gen.Alias{Node: n.b.Name(), Creation: recv.Creation, ID: [3]uint64{1, 2, 3}}

	senders := make([]gen.PID, ns)
	for s := range senders {
		senders[s] = mk(n.a, fmt.Sprintf("sender%d", s), "", gen.ProcessOptions{}, &kit.ActorConfig{Quiet: true})
	}
	// every sender owns an event; the receiver and one more process on the other node subscribe
	// to all of them (two subscribers on one node: the event travels once per node)
	sub2 := mk(n.b, "sub2", "", gen.ProcessOptions{}, &kit.ActorConfig{})
	evName := make([]gen.Atom, ns)
	evToken := make([]gen.Ref, ns)
	for s := range senders {
		evName[s] = gen.Atom(fmt.Sprintf("ev%s-%d", tag, s))
		uses := false
		for _, it := range plans[s] {
			uses = uses || it.Op == 4
		}
		if !uses {
			continue
		}
		var rerr error
		if e := kit.InProc(n.a, senders[s], func(a *kit.Actor) { evToken[s], rerr = a.RegisterEvent(evName[s], gen.EventOptions{}) }); e != nil || rerr != nil {
			t.Fatalf("register event: %v %v", e, rerr)
		}
		for _, sub := range []gen.PID{recv, sub2} {
			var merr error
			if e := kit.InProc(n.b, sub, func(a *kit.Actor) { _, merr = a.MonitorEvent(gen.Event{Name: evName[s], Node: n.a.Name()}) }); e != nil || merr != nil {
				t.Fatalf("subscribe to the sender's event: %v %v", e, merr)
			}
		}
	}
	var wg sync.WaitGroup
	for s := range plans {
		wg.Add(1)
		go func(s int) {
			defer wg.Done()
			for _, it := range plans[s] {
				it := it
				var to any
				switch it.Target {
				case 0:
					to = [3]any{recv, gen.ProcessID{Name: recvName, Node: n.b.Name()}, recvAlias}[it.Mode]
				case 1:
					to = [3]any{full, gen.ProcessID{Name: fullName, Node: n.b.Name()}, fullAlias}[it.Mode]
				case 2:
					to = [3]any{missingPID, missingName, missingAlias}[it.Mode]
				}
				env := netkit.Envelope{ID: it.ID, Body: it.Body}
				e := kit.InProc(n.a, senders[s], func(a *kit.Actor) {
					a.SetCompression(compress[s])
					switch it.Op {
					case 0:
						it.Err = a.Send(to, env)
					case 1:
						it.Err = a.SendImportant(to, env)
					case 2:
						it.Reply, it.Err = a.CallWithTimeout(to, env, 2)
						it.replyOK = true
					case 3:
						it.Reply, it.Err = a.CallImportant(to, env)
						it.replyOK = true
					case 4:
						it.Err = a.SendEvent(evName[s], evToken[s], env)
					}
				})
				if e != nil && it.Err == nil {
					it.Err = e
				}
			}
		}(s)
	}
	wg.Wait()
	// plain sends are asynchronous: wait for the ones that must arrive
	must := map[int64]bool{}
	for _, list := range plans {
		for _, it := range list {
			if it.Err == nil && it.Target == 0 {
				must[it.ID] = true
			}
		}
	}
	handled := func() map[string]map[int64]int {
		out := map[string]map[int64]int{}
		for _, e := range probe.Events() {
			if env, ok := e.Msg.(netkit.Envelope); ok {
				if out[e.Proc] == nil {
					out[e.Proc] = map[int64]int{}
				}
				out[e.Proc][env.ID]++
			}
			if me, ok := e.Msg.(gen.MessageEvent); ok && e.Kind == "event" {
				if env, ok := me.Message.(netkit.Envelope); ok {
					k := "event:" + e.Proc
					if out[k] == nil {
						out[k] = map[int64]int{}
					}
					out[k][env.ID]++
				}
			}
		}
		return out
	}
	evOf := map[int64]*nitem{}
	for _, list := range plans {
		for _, it := range list {
			if it.Op == 4 {
				evOf[it.ID] = it
			}
		}
	}
	kit.WaitUntil(10*time.Second, func() bool {
		all := handled()
		h := all["recv"]
		for id := range must {
			if evOf[id] != nil {
				if all["event:recv"][id] == 0 || all["event:sub2"][id] == 0 {
					return false
				}
				continue
			}
			if h[id] == 0 {
				return false
			}
		}
		return true
	})
	time.Sleep(3 * time.Millisecond)
	h := handled()
	byID := map[int64]kit.Event{}
	for _, e := range probe.EventsOf("recv") {
		if env, ok := e.Msg.(netkit.Envelope); ok {
			byID[env.ID] = e
		}
	}
	importantRefused, importantCount := false, 0
	var problems []string
	for s, list := range plans {
		for _, it := range list {
			where := fmt.Sprintf("item %d (op %d mode %d target %d)", it.ID, it.Op, it.Mode, it.Target)
			total := h["recv"][it.ID] + h["full"][it.ID] + h["decoy"][it.ID]
			if h["decoy"][it.ID] > 0 {
				problems = append(problems, where+": handled by a decoy process")
			}
			important := it.Op == 1 || it.Op == 3
			if important {
				importantCount++
			}
			if it.Op == 4 {
				if it.Err != nil {
					problems = append(problems, fmt.Sprintf("%s: SendEvent by the owner with the right token failed: %v", where, it.Err))
					continue
				}
				for _, sub := range []string{"recv", "sub2"} {
					if n := h["event:"+sub][it.ID]; n != 1 {
						problems = append(problems, fmt.Sprintf("%s: the event was handled %d times by subscriber %s", where, n, sub))
					}
				}
				for _, other := range []string{"decoy", "full"} {
					if n := h["event:"+other][it.ID] + h[other][it.ID]; n != 0 {
						problems = append(problems, fmt.Sprintf("%s: the event was handled by %s, which never subscribed", where, other))
					}
				}
				if total != 0 {
					problems = append(problems, fmt.Sprintf("%s: the event arrived as a plain message", where))
				}
				for _, e := range probe.Events() {
					me, ok := e.Msg.(gen.MessageEvent)
					if !ok || e.Kind != "event" {
						continue
					}
					if env, ok := me.Message.(netkit.Envelope); ok && env.ID == it.ID {
						if me.Event.Name != evName[s] || me.Event.Node != n.a.Name() {
							problems = append(problems, fmt.Sprintf("%s: event identity changed: %v", where, me.Event))
						}
						if err := edfgen.Equal(it.Body, env.Body, edfgen.EqOptions{SentinelIdentity: true}); err != nil {
							problems = append(problems, fmt.Sprintf("%s: event payload changed: %v", where, err))
						}
					}
				}
				continue
			}
			switch it.Target {
			case 0:
				if it.Err != nil {
					problems = append(problems, fmt.Sprintf("%s to an existing receiver with room failed: %v", where, it.Err))
					continue
				}
				if h["recv"][it.ID] != 1 || total != 1 {
					problems = append(problems, fmt.Sprintf("%s returned nil but was handled %d times by the addressee (%d in total)", where, h["recv"][it.ID], total))
					continue
				}
				ev := byID[it.ID]
				if ev.From != senders[s] {
					problems = append(problems, fmt.Sprintf("%s: sender pid changed: %v -> %v", where, senders[s], ev.From))
				}
				if err := edfgen.Equal(it.Body, ev.Msg.(netkit.Envelope).Body, edfgen.EqOptions{SentinelIdentity: true}); err != nil {
					problems = append(problems, fmt.Sprintf("%s: payload changed: %v", where, err))
				}
				if it.replyOK {
					r, ok := it.Reply.(netkit.Envelope)
					if !ok || r.ID != -it.ID || r.Body != "recv" {
						problems = append(problems, fmt.Sprintf("%s: call returned %v instead of the addressee's reply to this very request", where, it.Reply))
					}
				}
			case 1, 2:
				if total != 0 && it.Target == 2 {
					problems = append(problems, fmt.Sprintf("%s to a non-existing target was handled %d times", where, total))
				}
				if it.Target == 1 && h["full"][it.ID] > 0 && it.Err != nil {
					problems = append(problems, fmt.Sprintf("%s was refused (%v) but later handled by the full receiver", where, it.Err))
				}
				if important {
					if it.Err == nil {
						if !(it.Target == 1 && h["full"][it.ID] > 0) {
							problems = append(problems, fmt.Sprintf("%s: important delivery reported success but the message is not in the remote mailbox/log", where))
						}
					} else {
						importantRefused = true
						want := gen.ErrProcessUnknown
						if it.Target == 1 {
							want = gen.ErrProcessMailboxFull
						}
						if !errors.Is(it.Err, want) && it.Err.Error() != want.Error() {
							problems = append(problems, fmt.Sprintf("%s: important delivery failed with %q, the remote reason is %q", where, it.Err, want))
						}
					}
				}
			}
		}
	}
	if len(problems) > 0 {
		if len(problems) > 6 {
			problems = problems[:6]
		}
		t.Fatalf("%s", strings.Join(problems, "\n"))
	}
	var ks []string
	for _, list := range plans {
		for _, it := range list {
			ks = append(ks, fmt.Sprintf("o%dm%dt%d", it.Op, it.Mode, it.Target))
		}
	}
	recNode.Case((ns >= 2 && importantCount > 0) || importantRefused, fmt.Sprintf("senders=%d compress=%v items=%v", ns, compress, ks), fmt.Sprintf("senders=%d", ns))
}

func TestNodes(t *testing.T) {
	rapid.Check(t, propNodes)
}
