package c05

import (
	"errors"
	"fmt"
	"strings"
	"testing"

	"pgregory.net/rapid"

	"verif/harness/kit"
	"verif/harness/lifecycle"
)

// causes dominate the op mix here
var ops = []int{lifecycle.OpSend, lifecycle.OpCall, lifecycle.OpExitParent, lifecycle.OpExitParent,
	lifecycle.OpExitOther, lifecycle.OpExitOther, lifecycle.OpKill, lifecycle.OpKill, lifecycle.OpInspect, lifecycle.OpEvent,
	lifecycle.OpStop, lifecycle.OpStop, lifecycle.OpBoom, lifecycle.OpOpenGate, lifecycle.OpSendAfter}

const rule = "receiver kind {actor, trapping actor, supervisor, pool} x state {idle, inside a handler, waiting for a response} x 2-4 agents issuing 1-3 ops each, among them termination causes {handler returns normal/shutdown/custom error, panicking handler, Kill, exit signal from the parent, exit signal from another process} racing each other and ordinary traffic; " +
	"oracle: the terminate callback ran at most once, exactly once iff the process is gone, it is the last callback and nothing runs after it; its reason satisfies errors.Is for one of the causes actually issued (panic -> 'panic', Kill -> 'kill', exit -> the signal's reason, handler -> the returned error); linked and monitoring observers get exactly one notification whose reason matches one of the issued causes; a trapping actor hit only by non-parent exit signals and plain traffic stays alive and sees them as messages; " +
	"non-trivial = >= 2 causes issued, or a cause issued in a non-idle state; distinct by scenario (+ point trace when scheduled)"

var recSched = kit.NewRecorder("C05", "scheduled", "controlled scheduler over run.*, send.*, kill.*, wait.*, unreg.enter of the receiver: "+rule)
var recStress = kit.NewRecorder("C05", "stress", "real goroutines, no scheduler: "+rule)

func admissible(reason error, causes []lifecycle.Cause) bool {
	for _, c := range causes {
		if reason == c.Reason || errors.Is(reason, c.Reason) {
			return true
		}
	}
	return false
}

func check(t *rapid.T, sc lifecycle.Scenario, rec *kit.Recorder) {
	res, err := lifecycle.Run(sc)
	if err != nil {
		t.Fatalf("%v (scenario %s)", err, sc)
	}
	if res.Inconclusive != "" {
		t.Skip(res.Inconclusive)
	}
	fail := func(format string, a ...any) {
		t.Fatalf("%s\nscenario: %s\ncauses: %v\ntrace: %v", fmt.Sprintf(format, a...), sc, res.Causes, res.Trace)
	}
	nterm, termIdx := 0, -1
	var termReason error
	for i, e := range res.RecvEvents {
		if e.Kind == "terminate" {
			nterm++
			termIdx = i
			termReason = e.Reason
		}
	}
	if nterm > 1 {
		fail("terminate callback ran %d times", nterm)
	}
	if nterm == 1 && termIdx != len(res.RecvEvents)-1 {
		fail("callback %q ran after the terminate callback", res.RecvEvents[len(res.RecvEvents)-1].Kind)
	}
	if res.Terminated && nterm != 1 {
		fail("process is gone but its terminate callback ran %d times", nterm)
	}
	if !res.Terminated && nterm != 0 {
		fail("terminate callback ran but the process is still registered")
	}
	if len(res.Causes) == 0 && res.Terminated {
		fail("process terminated (reason %v) although no termination cause was issued", termReason)
	}
	if nterm == 1 {
		if !admissible(termReason, res.Causes) {
			fail("terminate reason %q does not reflect any issued cause", termReason)
		}
		if len(res.LinkSeen) != 1 || len(res.MonSeen) != 1 {
			fail("observers: linked got %d notifications %v, monitoring got %d %v (want 1 each)", len(res.LinkSeen), res.LinkSeen, len(res.MonSeen), res.MonSeen)
		}
		if !admissible(res.LinkSeen[0], res.Causes) || !admissible(res.MonSeen[0], res.Causes) {
			fail("observer reasons %q / %q do not reflect any issued cause", res.LinkSeen[0], res.MonSeen[0])
		}
	} else if len(res.LinkSeen)+len(res.MonSeen) != 0 {
		fail("observers were notified (%v %v) although the process is alive", res.LinkSeen, res.MonSeen)
	}
	// a cause that cannot be trapped or lost must take effect
	mustDie := false
	for _, c := range res.Causes {
		switch c.Kind {
		case lifecycle.OpKill, lifecycle.OpExitParent, lifecycle.OpStop, lifecycle.OpBoom, lifecycle.OpExitOther:
			mustDie = true
		}
	}
	if mustDie && !res.Terminated {
		fail("termination causes were issued but the process is still alive")
	}
	if n, d := res.Probe.Overlaps(); n > 0 {
		fail("%d overlapping callback executions: %v", n, d)
	}
	nontrivial := len(res.Causes) >= 2 || (len(res.Causes) >= 1 && sc.State != lifecycle.StateIdle)
	labels := []string{fmt.Sprintf("kind=%d", sc.Kind), fmt.Sprintf("state=%d", sc.State), fmt.Sprintf("causes=%d", min(len(res.Causes), 4))}
	if res.TrapExits > 0 {
		labels = append(labels, "trapped-exit-as-message")
	}
	if nterm == 1 {
		labels = append(labels, "terminated")
	}
	rec.Case(nontrivial, sc.String()+" trace="+strings.Join(res.Trace, ","), labels...)
}

func min(a, b int) int {
	if a < b {
		return a
	}
	return b
}

func TestScheduled(t *testing.T) {
	rapid.Check(t, func(t *rapid.T) { check(t, lifecycle.Generate(t, true, ops), recSched) })
}

func TestStress(t *testing.T) {
	rapid.Check(t, func(t *rapid.T) { check(t, lifecycle.Generate(t, false, ops), recStress) })
}
