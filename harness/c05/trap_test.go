//go:build verif

package c05

import (
	"errors"
	"fmt"
	"sort"
	"strings"
	"sync"
	"testing"
	"time"

	"ergo.services/ergo/gen"
	"pgregory.net/rapid"

	"verif/harness/kit"
)

// TestTrap: the trap clause of C05 for every kind of exit signal. A receiver (spawned by the
// node itself or by a parent process, trapping or not) links to the pid, the registered name,
// an alias and an event of 1-3 target processes; then identities disappear one by one
// (unregister name / delete alias / unregister event / terminate the target with a reason) and
// exit signals are sent to it directly (by an unrelated process, by the node, by its parent).
//
// Oracle (reference model): a trapping receiver is handed every signal that does not come
// from its parent as an ordinary message of the right kind, naming the identity and carrying
// the reason, exactly once, keeps running and its terminate callback does not run; the first
// signal from the parent - or, without trapping, the first signal at all - terminates it
// exactly once with a reason that wraps the signal's reason, and nothing runs afterwards.
var recTrap = kit.NewRecorder("C05", "trap",
	"one receiver actor (top-level or child of a process; trapping in 3 of 4 cases) linked to a generated subset of {pid, name, alias, event} of 1-3 targets; 2-8 steps of {unregister name, delete alias, unregister event, terminate target (normal/custom/kill/panic), SendExit from a stranger, from the node, from the parent}, and for a receiver that is still running optionally a graceful Node.Stop at the end (it returns, the receiver terminates once with reason shutdown); "+
		"oracle: model of the trap rule - every non-parent signal arrives once as a message of the right kind with identity and reason and the receiver stays alive; a parent signal (or any signal when not trapping) terminates it once with the signal's reason; "+
		"non-trivial = at least one signal of a kind other than MessageExitPID reached a trapping receiver, or the receiver was terminated by a signal; distinct by history")

type trapTarget struct {
	pid   gen.PID
	label string
	name  gen.Atom
	alias gen.Alias
	event gen.Atom
	alive bool
	// identities still there
	hasName, hasAlias, hasEvent bool
}

func TestTrap(t *testing.T) {
	rapid.Check(t, func(t *rapid.T) {
		node, err := kit.StartLocalNode()
		if err != nil {
			t.Fatalf("start node: %v", err)
		}
		defer node.StopForce()
		probe := kit.NewProbe()
		var hist []string
		fatalf := func(f string, a ...any) {
			t.Fatalf("%s || history: %s", fmt.Sprintf(f, a...), strings.Join(hist, "; "))
		}

		trap := rapid.IntRange(0, 3).Draw(t, "trap") != 0
		topLevel := rapid.Bool().Draw(t, "top_level")

		var mu sync.Mutex
		var got []string
		recvCfg := &kit.ActorConfig{Label: "recv", Probe: probe, Trap: trap, Quiet: true,
			OnMessage: func(a *kit.Actor, from gen.PID, msg any) (bool, error) {
				var s string
				switch m := msg.(type) {
				case gen.MessageExitPID:
					s = fmt.Sprintf("pid:%s:%s", m.PID, m.Reason)
				case gen.MessageExitProcessID:
					s = fmt.Sprintf("name:%s:%s", string(m.ProcessID.Name), m.Reason)
				case gen.MessageExitAlias:
					s = fmt.Sprintf("alias:%s:%s", m.Alias, m.Reason)
				case gen.MessageExitEvent:
					s = fmt.Sprintf("event:%s:%s", string(m.Event.Name), m.Reason)
				default:
					return true, nil
				}
				mu.Lock()
				got = append(got, s)
				mu.Unlock()
				return true, nil
			}}
		quiet := func(label string) *kit.ActorConfig {
			return &kit.ActorConfig{Label: label, Probe: probe, Trap: true, Quiet: true}
		}
		par, err := node.Spawn(kit.Factory(quiet("parent")), gen.ProcessOptions{})
		if err != nil {
			t.Fatalf("spawn: %v", err)
		}
		stranger, err := node.Spawn(kit.Factory(quiet("stranger")), gen.ProcessOptions{})
		if err != nil {
			t.Fatalf("spawn: %v", err)
		}
		var recv gen.PID
		if topLevel {
			recv, err = node.Spawn(kit.Factory(recvCfg), gen.ProcessOptions{})
		} else {
			var serr error
			if e := kit.InProc(node, par, func(a *kit.Actor) { recv, serr = a.Spawn(kit.Factory(recvCfg), gen.ProcessOptions{}) }); e != nil {
				serr = e
			}
			err = serr
		}
		if err != nil {
			t.Fatalf("spawn receiver: %v", err)
		}

		nt := rapid.IntRange(1, 3).Draw(t, "targets")
		var targets []*trapTarget
		for i := 0; i < nt; i++ {
			tt := &trapTarget{label: fmt.Sprintf("t%d", i), name: gen.Atom(fmt.Sprintf("tn%d", i)), event: gen.Atom(fmt.Sprintf("te%d", i)), alive: true}
			tt.pid, err = node.SpawnRegister(tt.name, kit.Factory(quiet(tt.label)), gen.ProcessOptions{})
			if err != nil {
				t.Fatalf("spawn target: %v", err)
			}
			var e1, e2 error
			if e := kit.InProc(node, tt.pid, func(a *kit.Actor) {
				tt.alias, e1 = a.CreateAlias()
				_, e2 = a.RegisterEvent(tt.event, gen.EventOptions{})
			}); e != nil || e1 != nil || e2 != nil {
				t.Fatalf("target setup: %v %v %v", e, e1, e2)
			}
			tt.hasName, tt.hasAlias, tt.hasEvent = true, true, true
			targets = append(targets, tt)
		}
		// the receiver's links: identity key -> present
		links := map[string]bool{}
		for i, tt := range targets {
			mask := rapid.IntRange(1, 15).Draw(t, "links")
			var lerr [4]error
			if e := kit.InProc(node, recv, func(a *kit.Actor) {
				if mask&1 != 0 {
					lerr[0] = a.LinkPID(tt.pid)
				}
				if mask&2 != 0 {
					lerr[1] = a.LinkProcessID(gen.ProcessID{Name: tt.name, Node: node.Name()})
				}
				if mask&4 != 0 {
					lerr[2] = a.LinkAlias(tt.alias)
				}
				if mask&8 != 0 {
					_, lerr[3] = a.LinkEvent(gen.Event{Name: tt.event, Node: node.Name()})
				}
			}); e != nil {
				t.Fatalf("link: %v", e)
			}
			for k, kind := range []string{"pid", "name", "alias", "event"} {
				if mask&(1<<k) != 0 {
					if lerr[k] != nil {
						t.Fatalf("link to %s of t%d: %v", kind, i, lerr[k])
					}
					links[fmt.Sprintf("%s:%d", kind, i)] = true
				}
			}
			hist = append(hist, fmt.Sprintf("link(t%d,mask=%d)", i, mask))
		}

		var want []string    // messages a live trapping receiver must have been handed
		var causes []error   // once non-empty the receiver must terminate with one of them
		otherKinds := false  // a non-pid signal reached a trapping receiver
		fire := func(kind string, i int, ident string, reason error) {
			key := fmt.Sprintf("%s:%d", kind, i)
			if !links[key] {
				return
			}
			delete(links, key)
			if len(causes) > 0 {
				return // it is going away already; whether it still sees this one is not decided
			}
			if trap {
				want = append(want, fmt.Sprintf("%s:%s:%s", kind, ident, reason))
				if kind != "pid" {
					otherKinds = true
				}
			} else {
				causes = append(causes, reason)
			}
		}
		settle := func() {
			// everything that was sent has been handled, or the receiver is gone
			if !kit.WaitUntil(5*time.Second, func() bool { return kit.Quiesced(node, recv) }) {
				if stuck, wit := kit.Stuck(node, recv); stuck {
					fatalf("receiver is stuck: %s", wit)
				}
			}
		}
		check := func() {
			if len(causes) > 0 {
				// all signals of one step are admissible reasons (the first one handled wins)
				if !kit.WaitUntil(5*time.Second, func() bool { return probe.Terminated("recv", recv) }) {
					fatalf("receiver (trap=%v, top-level=%v) was sent an exit signal it cannot trap (%v) and did not terminate", trap, topLevel, causes)
				}
				return
			}
			settle()
			mu.Lock()
			g := append([]string{}, got...)
			mu.Unlock()
			ws := append([]string{}, want...)
			sort.Strings(g)
			sort.Strings(ws)
			if fmt.Sprint(g) != fmt.Sprint(ws) {
				// give late deliveries a moment before judging a missing one
				kit.WaitUntil(3*time.Second, func() bool {
					mu.Lock()
					defer mu.Unlock()
					return len(got) >= len(want)
				})
				mu.Lock()
				g = append([]string{}, got...)
				mu.Unlock()
				sort.Strings(g)
			}
			if probe.Terminated("recv", recv) {
				fatalf("trapping receiver (top-level=%v) terminated although no signal came from its parent; signals so far %v", topLevel, ws)
			}
			if _, err := node.ProcessInfo(recv); err != nil {
				fatalf("trapping receiver (top-level=%v) is gone (%v) although no signal came from its parent; signals so far %v", topLevel, err, ws)
			}
			if fmt.Sprint(g) != fmt.Sprint(ws) {
				fatalf("trapping receiver (top-level=%v) was handed %v, the model says %v", topLevel, g, ws)
			}
		}

		steps := rapid.IntRange(2, 8).Draw(t, "steps")
		for s := 0; s < steps && len(causes) == 0; s++ {
			i := rapid.IntRange(0, nt-1).Draw(t, "target")
			tt := targets[i]
			op := rapid.SampledFrom([]string{"unregname", "delalias", "unregevent", "terminate", "exit-stranger", "exit-node", "exit-parent"}).Draw(t, "op")
			switch op {
			case "unregname":
				if !tt.alive || !tt.hasName {
					continue
				}
				var e1 error
				kit.InProc(node, tt.pid, func(a *kit.Actor) { e1 = a.UnregisterName() })
				if e1 != nil {
					fatalf("UnregisterName: %v", e1)
				}
				tt.hasName = false
				fire("name", i, string(tt.name), gen.ErrUnregistered)
			case "delalias":
				if !tt.alive || !tt.hasAlias {
					continue
				}
				var e1 error
				kit.InProc(node, tt.pid, func(a *kit.Actor) { e1 = a.DeleteAlias(tt.alias) })
				if e1 != nil {
					fatalf("DeleteAlias: %v", e1)
				}
				tt.hasAlias = false
				fire("alias", i, tt.alias.String(), gen.ErrUnregistered)
			case "unregevent":
				if !tt.alive || !tt.hasEvent {
					continue
				}
				var e1 error
				kit.InProc(node, tt.pid, func(a *kit.Actor) { e1 = a.UnregisterEvent(tt.event) })
				if e1 != nil {
					fatalf("UnregisterEvent: %v", e1)
				}
				tt.hasEvent = false
				fire("event", i, string(tt.event), gen.ErrUnregistered)
			case "terminate":
				if !tt.alive {
					continue
				}
				var reason error
				switch rapid.IntRange(0, 3).Draw(t, "how") {
				case 0:
					reason = gen.TerminateReasonNormal
					node.Send(tt.pid, kit.Stop{Reason: reason})
				case 1:
					reason = errors.New("target-failed")
					node.Send(tt.pid, kit.Stop{Reason: reason})
				case 2:
					reason = gen.TerminateReasonKill
					node.Kill(tt.pid)
				case 3:
					reason = gen.TerminateReasonPanic
					node.Send(tt.pid, kit.Boom{})
				}
				if !kit.WaitUntil(5*time.Second, func() bool { return probe.Terminated(tt.label, tt.pid) }) {
					fatalf("target t%d did not terminate", i)
				}
				tt.alive = false
				fire("pid", i, tt.pid.String(), reason)
				if tt.hasName {
					fire("name", i, string(tt.name), reason)
				}
				if tt.hasAlias {
					fire("alias", i, tt.alias.String(), reason)
				}
				if tt.hasEvent {
					fire("event", i, string(tt.event), reason)
				}
				tt.hasName, tt.hasAlias, tt.hasEvent = false, false, false
				op = fmt.Sprintf("terminate(%s)", reason)
			case "exit-stranger":
				reason := fmt.Errorf("stranger-%d", s)
				var e1 error
				kit.InProc(node, stranger, func(a *kit.Actor) { e1 = a.SendExit(recv, reason) })
				if e1 != nil {
					fatalf("SendExit by a stranger: %v", e1)
				}
				if trap {
					want = append(want, fmt.Sprintf("pid:%s:%s", stranger, reason))
				} else {
					causes = append(causes, reason)
				}
			case "exit-node":
				reason := fmt.Errorf("node-%d", s)
				if e1 := node.SendExit(recv, reason); e1 != nil {
					fatalf("Node.SendExit: %v", e1)
				}
				// the node is the parent of a top-level process
				if trap && !topLevel {
					want = append(want, fmt.Sprintf("pid:%s:%s", node.PID(), reason))
				} else {
					causes = append(causes, reason)
				}
			case "exit-parent":
				if topLevel {
					continue
				}
				reason := fmt.Errorf("parent-%d", s)
				var e1 error
				kit.InProc(node, par, func(a *kit.Actor) { e1 = a.SendExit(recv, reason) })
				if e1 != nil {
					fatalf("SendExit by the parent: %v", e1)
				}
				causes = append(causes, reason)
			}
			hist = append(hist, fmt.Sprintf("%s(t%d)", op, i))
			check()
		}
		terminated := len(causes) > 0
		if terminated {
			// exactly one terminate callback, with one of the admissible reasons, nothing afterwards
			time.Sleep(5 * time.Millisecond)
			var terms []kit.Event
			for _, e := range probe.EventsOf("recv") {
				if e.Kind == "terminate" {
					terms = append(terms, e)
				}
			}
			if len(terms) != 1 {
				fatalf("receiver's terminate callback ran %d times", len(terms))
			}
			ok := false
			for _, c := range causes {
				if terms[0].Reason != nil && (errors.Is(terms[0].Reason, c) || strings.Contains(terms[0].Reason.Error(), c.Error())) {
					ok = true
				}
			}
			if !ok {
				fatalf("receiver terminated with reason %q, the signals it was sent carry %v", terms[0].Reason, causes)
			}
			if _, err := node.ProcessInfo(recv); err == nil {
				kit.WaitUntil(3*time.Second, func() bool { _, err := node.ProcessInfo(recv); return err != nil })
				if _, err := node.ProcessInfo(recv); err == nil {
					fatalf("receiver ran its terminate callback and is still in the process table")
				}
			}
		}
		// a graceful node stop is a shutdown every process obeys, trapping or not, whoever spawned
		// it: Node.Stop returns, and the receiver has terminated - once - with the shutdown reason
		stoppedGracefully := false
		if !terminated && rapid.Bool().Draw(t, "final_node_stop") {
			done := make(chan struct{})
			go func() { node.Stop(); close(done) }()
			select {
			case <-done:
			case <-time.After(15 * time.Second):
				fatalf("Node.Stop did not return within 15 s (receiver trap=%v, top-level=%v)", trap, topLevel)
			}
			// (Node.Stop waits until the processes are unregistered; a process's terminate callback
			// runs right after that)
			kit.WaitUntil(5*time.Second, func() bool { return probe.Terminated("recv", recv) })
			time.Sleep(time.Millisecond)
			var terms []kit.Event
			for _, e := range probe.EventsOf("recv") {
				if e.Kind == "terminate" {
					terms = append(terms, e)
				}
			}
			if len(terms) != 1 {
				fatalf("after Node.Stop the receiver's terminate callback has run %d times (trap=%v, top-level=%v)", len(terms), trap, topLevel)
			}
			if r := terms[0].Reason; r == nil || !(errors.Is(r, gen.TerminateReasonShutdown) || strings.Contains(r.Error(), gen.TerminateReasonShutdown.Error())) {
				fatalf("the receiver was stopped by Node.Stop and its terminate callback got reason %v, not shutdown", r)
			}
			stoppedGracefully = true
		}
		var labels []string
		if stoppedGracefully {
			labels = append(labels, "node-stop")
		}
		if otherKinds {
			labels = append(labels, "non-pid-signal-trapped")
		}
		if terminated {
			labels = append(labels, "terminated-by-signal")
		}
		if topLevel {
			labels = append(labels, "top-level-receiver")
		}
		recTrap.Case(otherKinds || terminated, fmt.Sprintf("trap=%v top=%v %s", trap, topLevel, strings.Join(hist, ";")), labels...)
	})
}
