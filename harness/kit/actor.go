package kit

import (
	"fmt"
	"os"
	"sync"
	"sync/atomic"
	"time"

	"ergo.services/ergo"
	"ergo.services/ergo/act"
	"ergo.services/ergo/gen"
)

var nodeSeq atomic.Uint64

// NodeName returns a process-unique node name.
func NodeName(prefix string) gen.Atom {
	return gen.Atom(fmt.Sprintf("%s-%d-%d@localhost", prefix, os.Getpid(), nodeSeq.Add(1)))
}

// StartLocalNode starts a node with networking disabled and logging off.
func StartLocalNode(mod ...func(*gen.NodeOptions)) (gen.Node, error) {
	var o gen.NodeOptions
	o.Network.Mode = gen.NetworkModeDisabled
	o.Log.DefaultLogger.Disable = true
	o.Log.Level = gen.LogLevelDisabled
	for _, m := range mod {
		m(&o)
	}
	n, err := ergo.StartNode(NodeName("v"), o)
	if err == nil {
		n.SetCTRLC(false)
	}
	return n, err
}

// Event is one callback execution of an instrumented process.
type Event struct {
	Seq    int64
	Proc   string // label of the process
	PID    gen.PID
	Kind   string // init, msg, call, event, inspect, terminate, log, + meta-*
	From   gen.PID
	Msg    any
	Reason error
	Start  int64 // logical clock at entry
	End    int64 // logical clock at exit
}

// Probe is the shared, per-case observation log.
type Probe struct {
	mu       sync.Mutex
	events   []Event
	clock    atomic.Int64
	overlaps atomic.Int64
	overlapD []string
}

func NewProbe() *Probe { return &Probe{} }

func (p *Probe) add(e Event) {
	p.mu.Lock()
	e.Seq = int64(len(p.events))
	p.events = append(p.events, e)
	p.mu.Unlock()
}

// Note records an observation made by a behaviour that is not one of the kit's instrumented ones.
func (p *Probe) Note(proc, kind string, from gen.PID, msg any) {
	p.add(Event{Proc: proc, Kind: kind, From: from, Msg: msg})
}

// Events returns a snapshot.
func (p *Probe) Events() []Event {
	p.mu.Lock()
	defer p.mu.Unlock()
	return append([]Event(nil), p.events...)
}

// EventsOf returns the events of one process label.
func (p *Probe) EventsOf(proc string) []Event {
	var out []Event
	for _, e := range p.Events() {
		if e.Proc == proc {
			out = append(out, e)
		}
	}
	return out
}

func (p *Probe) Overlaps() (int64, []string) {
	p.mu.Lock()
	defer p.mu.Unlock()
	return p.overlaps.Load(), append([]string(nil), p.overlapD...)
}

// guard implements the "one callback at a time" instrumentation.
type guard struct {
	inflight atomic.Int32
	current  atomic.Value // string
}

func (g *guard) enter(p *Probe, proc, kind string) int64 {
	if n := g.inflight.Add(1); n != 1 {
		p.overlaps.Add(1)
		cur, _ := g.current.Load().(string)
		p.mu.Lock()
		if len(p.overlapD) < 8 {
			p.overlapD = append(p.overlapD, fmt.Sprintf("%s: %s entered while %s was executing", proc, kind, cur))
		}
		p.mu.Unlock()
	}
	g.current.Store(kind)
	return p.clock.Add(1)
}

func (g *guard) exit(p *Probe) int64 {
	t := p.clock.Add(1)
	g.inflight.Add(-1)
	return t
}

// Messages understood by the scripted actor.
type (
	// Do executes F inside the process (most of gen.Process is only legal in state running).
	Do struct {
		F    func(a *Actor)
		Done chan struct{}
	}
	// Gate parks the handler until Open is closed; Entered is closed when parked.
	Gate struct {
		Entered chan struct{}
		Open    chan struct{}
	}
	// Stop makes the handler return Reason.
	Stop struct{ Reason error }
	// Boom makes the handler panic.
	Boom struct{}
	// Spin burns the given time inside the handler.
	Spin struct{ D time.Duration }
	// Numbered is a uniquely numbered payload; if Entered is set the handler parks
	// (closes Entered, waits for Release) - in messages and in requests, in every
	// instrumented behaviour.
	Numbered struct {
		ID      int
		Entered chan struct{}
		Release chan struct{}
	}
)

func parkIf(m any) {
	if n, ok := m.(Numbered); ok && n.Entered != nil {
		close(n.Entered)
		<-n.Release
	}
}

// ActorConfig configures a scripted actor.
type ActorConfig struct {
	Label     string
	Probe     *Probe
	Trap      bool
	Split     bool
	SpinNs    int64 // busy time inside every handler (makes overlaps observable)
	OnInit    func(a *Actor, args ...any) error
	OnMessage func(a *Actor, from gen.PID, msg any) (handled bool, err error)
	OnCall    func(a *Actor, from gen.PID, ref gen.Ref, req any) (any, error)
	OnEvent   func(a *Actor, ev gen.MessageEvent) error
	OnTerm    func(a *Actor, reason error)
	OnLog     func(a *Actor, message gen.MessageLog)
	Quiet     bool // do not record regular events (only instrument)
}

// Actor is the instrumented act.Actor used by most checks.
type Actor struct {
	act.Actor
	Cfg *ActorConfig
	g   guard
}

// Factory returns a process factory for a scripted actor.
func Factory(cfg *ActorConfig) gen.ProcessFactory {
	return func() gen.ProcessBehavior { return &Actor{Cfg: cfg} }
}

func spin(ns int64) {
	if ns <= 0 {
		return
	}
	t := time.Now()
	for time.Since(t) < time.Duration(ns) {
	}
}

func (a *Actor) rec(kind string, from gen.PID, msg any, reason error, start int64) {
	end := a.g.exit(a.Cfg.Probe)
	if a.Cfg.Quiet && kind != "terminate" && kind != "init" {
		return
	}
	a.Cfg.Probe.add(Event{Proc: a.Cfg.Label, PID: a.PID(), Kind: kind, From: from, Msg: msg, Reason: reason, Start: start, End: end})
}

func (a *Actor) Init(args ...any) (err error) {
	st := a.g.enter(a.Cfg.Probe, a.Cfg.Label, "init")
	defer func() { a.rec("init", a.Parent(), nil, err, st) }() // From = parent pid
	a.SetTrapExit(a.Cfg.Trap)
	a.SetSplitHandle(a.Cfg.Split)
	spin(a.Cfg.SpinNs)
	if a.Cfg.OnInit != nil {
		return a.Cfg.OnInit(a, args...)
	}
	return nil
}

func (a *Actor) handle(kind string, from gen.PID, message any) (err error) {
	st := a.g.enter(a.Cfg.Probe, a.Cfg.Label, kind)
	defer func() {
		if r := recover(); r != nil {
			a.rec(kind, from, message, fmt.Errorf("panic: %v", r), st)
			panic(r)
		}
		a.rec(kind, from, message, err, st)
	}()
	spin(a.Cfg.SpinNs)
	parkIf(message)
	switch m := message.(type) {
	case Do:
		m.F(a)
		if m.Done != nil {
			close(m.Done)
		}
		return nil
	case Gate:
		if m.Entered != nil {
			close(m.Entered)
		}
		<-m.Open
		return nil
	case Stop:
		return m.Reason
	case Boom:
		panic("verif: boom")
	case Spin:
		spin(int64(m.D))
		return nil
	}
	if a.Cfg.OnMessage != nil {
		if handled, err := a.Cfg.OnMessage(a, from, message); handled || err != nil {
			return err
		}
	}
	return nil
}

func (a *Actor) HandleMessage(from gen.PID, message any) error {
	return a.handle("msg", from, message)
}

func (a *Actor) HandleMessageName(name gen.Atom, from gen.PID, message any) error {
	return a.handle("msg-name", from, message)
}

func (a *Actor) HandleMessageAlias(alias gen.Alias, from gen.PID, message any) error {
	return a.handle("msg-alias", from, message)
}

func (a *Actor) HandleCall(from gen.PID, ref gen.Ref, request any) (res any, err error) {
	st := a.g.enter(a.Cfg.Probe, a.Cfg.Label, "call")
	defer func() {
		if r := recover(); r != nil {
			a.rec("call", from, request, fmt.Errorf("panic: %v", r), st)
			panic(r)
		}
		a.rec("call", from, request, err, st)
	}()
	spin(a.Cfg.SpinNs)
	parkIf(request)
	switch m := request.(type) {
	case Stop:
		return nil, m.Reason
	case Boom:
		panic("verif: boom")
	case Gate:
		if m.Entered != nil {
			close(m.Entered)
		}
		<-m.Open
		return "gate", nil
	}
	if a.Cfg.OnCall != nil {
		return a.Cfg.OnCall(a, from, ref, request)
	}
	return request, nil
}

func (a *Actor) HandleCallName(name gen.Atom, from gen.PID, ref gen.Ref, request any) (any, error) {
	return a.HandleCall(from, ref, request)
}

func (a *Actor) HandleCallAlias(alias gen.Alias, from gen.PID, ref gen.Ref, request any) (any, error) {
	return a.HandleCall(from, ref, request)
}

func (a *Actor) HandleEvent(message gen.MessageEvent) (err error) {
	st := a.g.enter(a.Cfg.Probe, a.Cfg.Label, "event")
	defer func() { a.rec("event", gen.PID{}, message, err, st) }()
	spin(a.Cfg.SpinNs)
	if a.Cfg.OnEvent != nil {
		return a.Cfg.OnEvent(a, message)
	}
	return nil
}

func (a *Actor) HandleInspect(from gen.PID, item ...string) map[string]string {
	st := a.g.enter(a.Cfg.Probe, a.Cfg.Label, "inspect")
	defer func() { a.rec("inspect", from, item, nil, st) }()
	spin(a.Cfg.SpinNs)
	return map[string]string{"label": a.Cfg.Label}
}

func (a *Actor) HandleLog(message gen.MessageLog) (err error) {
	st := a.g.enter(a.Cfg.Probe, a.Cfg.Label, "log")
	defer func() { a.rec("log", gen.PID{}, message, err, st) }()
	spin(a.Cfg.SpinNs)
	if a.Cfg.OnLog != nil {
		a.Cfg.OnLog(a, message)
	}
	return nil
}

func (a *Actor) Terminate(reason error) {
	st := a.g.enter(a.Cfg.Probe, a.Cfg.Label, "terminate")
	defer func() {
		end := a.g.exit(a.Cfg.Probe)
		a.Cfg.Probe.add(Event{Proc: a.Cfg.Label, PID: a.PID(), Kind: "terminate", Reason: reason, Start: st, End: end})
	}()
	spin(a.Cfg.SpinNs)
	if a.Cfg.OnTerm != nil {
		a.Cfg.OnTerm(a, reason)
	}
}

// InProc runs f inside the process pid (via a Do message) and waits for it.
func InProc(n gen.Node, pid gen.PID, f func(a *Actor)) error {
	done := make(chan struct{})
	if err := n.Send(pid, Do{F: f, Done: done}); err != nil {
		return err
	}
	select {
	case <-done:
		return nil
	case <-time.After(10 * time.Second):
		return fmt.Errorf("InProc: timed out waiting for %s", pid)
	}
}

// WaitUntil polls cond until it holds or the deadline passes.
func WaitUntil(d time.Duration, cond func() bool) bool {
	deadline := time.Now().Add(d)
	for {
		if cond() {
			return true
		}
		if time.Now().After(deadline) {
			return false
		}
		time.Sleep(200 * time.Microsecond)
	}
}

// Quiesced reports whether the process is asleep with an empty mailbox (or gone).
func Quiesced(n gen.Node, pid gen.PID) bool {
	info, err := n.ProcessInfo(pid)
	if err != nil {
		return true
	}
	q := info.MailboxQueues
	return info.State == gen.ProcessStateSleep && q.Main == 0 && q.System == 0 && q.Urgent == 0 && q.Log == 0
}

// Stuck reports the stable lost-wake-up witness: asleep with a non-empty mailbox,
// observed twice 20 ms apart with no change in the number of handled messages.
func Stuck(n gen.Node, pid gen.PID) (bool, string) {
	read := func() (bool, string) {
		info, err := n.ProcessInfo(pid)
		if err != nil {
			return false, ""
		}
		q := info.MailboxQueues
		if info.State == gen.ProcessStateSleep && (q.Main+q.System+q.Urgent+q.Log) > 0 {
			return true, fmt.Sprintf("state=%s mailbox={Main:%d System:%d Urgent:%d Log:%d}", info.State, q.Main, q.System, q.Urgent, q.Log)
		}
		return false, ""
	}
	a, _ := read()
	if !a {
		return false, ""
	}
	time.Sleep(20 * time.Millisecond)
	b, s := read()
	return b, s
}

// Terminated reports whether the terminate callback of process pid (an instrumented
// behaviour with the given label) has completed. unregisterProcess - the release of
// names, aliases, events and relations - has finished by then; the disappearance from
// the process table alone only marks its beginning.
func (p *Probe) Terminated(label string, pid gen.PID) bool {
	p.mu.Lock()
	defer p.mu.Unlock()
	for i := len(p.events) - 1; i >= 0; i-- {
		e := p.events[i]
		if e.Kind == "terminate" && e.Proc == label && e.PID == pid {
			return true
		}
	}
	return false
}
