package kit

import (
	"fmt"

	"ergo.services/ergo/act"
	"ergo.services/ergo/gen"
)

// SupConfig configures an instrumented supervisor.
type SupConfig struct {
	Label     string
	Probe     *Probe
	Spec      func(args ...any) (act.SupervisorSpec, error)
	SpinNs    int64
	OnMessage func(s *Sup, from gen.PID, msg any) error
	OnTerm    func(s *Sup, reason error)
}

// Sup is an instrumented act.Supervisor.
type Sup struct {
	act.Supervisor
	Cfg *SupConfig
	g   guard
}

func SupFactory(cfg *SupConfig) gen.ProcessFactory {
	return func() gen.ProcessBehavior { return &Sup{Cfg: cfg} }
}

func (s *Sup) rec(kind string, from gen.PID, msg any, reason error, st int64) {
	end := s.g.exit(s.Cfg.Probe)
	s.Cfg.Probe.add(Event{Proc: s.Cfg.Label, PID: s.PID(), Kind: kind, From: from, Msg: msg, Reason: reason, Start: st, End: end})
}

func (s *Sup) Init(args ...any) (spec act.SupervisorSpec, err error) {
	st := s.g.enter(s.Cfg.Probe, s.Cfg.Label, "init")
	defer func() { s.rec("init", s.Parent(), nil, err, st) }() // From = parent pid
	spin(s.Cfg.SpinNs)
	return s.Cfg.Spec(args...)
}

func (s *Sup) HandleMessage(from gen.PID, message any) (err error) {
	st := s.g.enter(s.Cfg.Probe, s.Cfg.Label, "msg")
	defer func() {
		if r := recover(); r != nil {
			s.rec("msg", from, message, fmt.Errorf("panic: %v", r), st)
			panic(r)
		}
		s.rec("msg", from, message, err, st)
	}()
	spin(s.Cfg.SpinNs)
	parkIf(message)
	switch m := message.(type) {
	case DoSup:
		m.F(s)
		if m.Done != nil {
			close(m.Done)
		}
		return nil
	case Gate:
		if m.Entered != nil {
			close(m.Entered)
		}
		<-m.Open
		return nil
	case Stop:
		return m.Reason
	case Boom:
		panic("verif: boom")
	}
	if s.Cfg.OnMessage != nil {
		return s.Cfg.OnMessage(s, from, message)
	}
	return nil
}

func (s *Sup) HandleCall(from gen.PID, ref gen.Ref, request any) (res any, err error) {
	st := s.g.enter(s.Cfg.Probe, s.Cfg.Label, "call")
	defer func() { s.rec("call", from, request, err, st) }()
	spin(s.Cfg.SpinNs)
	parkIf(request)
	switch m := request.(type) {
	case Stop:
		return nil, m.Reason
	case Boom:
		panic("verif: boom")
	}
	return request, nil
}

func (s *Sup) HandleEvent(message gen.MessageEvent) (err error) {
	st := s.g.enter(s.Cfg.Probe, s.Cfg.Label, "event")
	defer func() { s.rec("event", gen.PID{}, message, err, st) }()
	spin(s.Cfg.SpinNs)
	return nil
}

func (s *Sup) HandleInspect(from gen.PID, item ...string) map[string]string {
	st := s.g.enter(s.Cfg.Probe, s.Cfg.Label, "inspect")
	defer func() { s.rec("inspect", from, item, nil, st) }()
	spin(s.Cfg.SpinNs)
	return map[string]string{"label": s.Cfg.Label}
}

func (s *Sup) HandleChildStart(name gen.Atom, pid gen.PID) (err error) {
	st := s.g.enter(s.Cfg.Probe, s.Cfg.Label, "child-start")
	defer func() { s.rec("child-start", pid, name, err, st) }()
	return nil
}

func (s *Sup) HandleChildTerminate(name gen.Atom, pid gen.PID, reason error) (err error) {
	st := s.g.enter(s.Cfg.Probe, s.Cfg.Label, "child-terminate")
	defer func() { s.rec("child-terminate", pid, name, reason, st) }()
	return nil
}

func (s *Sup) Terminate(reason error) {
	st := s.g.enter(s.Cfg.Probe, s.Cfg.Label, "terminate")
	defer func() { s.rec("terminate", gen.PID{}, nil, reason, st) }()
	spin(s.Cfg.SpinNs)
	if s.Cfg.OnTerm != nil {
		s.Cfg.OnTerm(s, reason)
	}
}

// DoSup executes F inside the supervisor process.
type DoSup struct {
	F    func(s *Sup)
	Done chan struct{}
}

// PoolConfig configures an instrumented pool.
type PoolConfig struct {
	Label   string
	Probe   *Probe
	Options func(args ...any) (act.PoolOptions, error)
	SpinNs  int64
}

// Pool is an instrumented act.Pool.
type Pool struct {
	act.Pool
	Cfg *PoolConfig
	g   guard
}

func PoolFactory(cfg *PoolConfig) gen.ProcessFactory {
	return func() gen.ProcessBehavior { return &Pool{Cfg: cfg} }
}

// DoPool executes F inside the pool process (send it with High or Max priority).
type DoPool struct {
	F    func(p *Pool)
	Done chan struct{}
}

func (p *Pool) rec(kind string, from gen.PID, msg any, reason error, st int64) {
	end := p.g.exit(p.Cfg.Probe)
	p.Cfg.Probe.add(Event{Proc: p.Cfg.Label, PID: p.PID(), Kind: kind, From: from, Msg: msg, Reason: reason, Start: st, End: end})
}

func (p *Pool) Init(args ...any) (o act.PoolOptions, err error) {
	st := p.g.enter(p.Cfg.Probe, p.Cfg.Label, "init")
	defer func() { p.rec("init", p.Parent(), nil, err, st) }() // From = parent pid
	spin(p.Cfg.SpinNs)
	return p.Cfg.Options(args...)
}

func (p *Pool) HandleMessage(from gen.PID, message any) (err error) {
	st := p.g.enter(p.Cfg.Probe, p.Cfg.Label, "msg")
	defer func() {
		if r := recover(); r != nil {
			p.rec("msg", from, message, fmt.Errorf("panic: %v", r), st)
			panic(r)
		}
		p.rec("msg", from, message, err, st)
	}()
	spin(p.Cfg.SpinNs)
	parkIf(message)
	switch m := message.(type) {
	case DoPool:
		m.F(p)
		if m.Done != nil {
			close(m.Done)
		}
	case Gate:
		if m.Entered != nil {
			close(m.Entered)
		}
		<-m.Open
	case Stop:
		return m.Reason
	case Boom:
		panic("verif: boom")
	}
	return nil
}

func (p *Pool) HandleCall(from gen.PID, ref gen.Ref, request any) (res any, err error) {
	st := p.g.enter(p.Cfg.Probe, p.Cfg.Label, "call")
	defer func() { p.rec("call", from, request, err, st) }()
	spin(p.Cfg.SpinNs)
	parkIf(request)
	if m, ok := request.(Stop); ok {
		return nil, m.Reason
	}
	return request, nil
}

func (p *Pool) HandleEvent(message gen.MessageEvent) (err error) {
	st := p.g.enter(p.Cfg.Probe, p.Cfg.Label, "event")
	defer func() { p.rec("event", gen.PID{}, message, err, st) }()
	return nil
}

func (p *Pool) HandleInspect(from gen.PID, item ...string) map[string]string {
	st := p.g.enter(p.Cfg.Probe, p.Cfg.Label, "inspect")
	defer func() { p.rec("inspect", from, item, nil, st) }()
	spin(p.Cfg.SpinNs)
	return p.Pool.HandleInspect(from, item...)
}

func (p *Pool) Terminate(reason error) {
	st := p.g.enter(p.Cfg.Probe, p.Cfg.Label, "terminate")
	defer func() { p.rec("terminate", gen.PID{}, nil, reason, st) }()
	spin(p.Cfg.SpinNs)
}
