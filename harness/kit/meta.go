package kit

import (
	"fmt"
	"sync"
	"sync/atomic"

	"ergo.services/ergo/gen"
)

// MetaConfig configures an instrumented meta-process.
type MetaConfig struct {
	Label   string
	Probe   *Probe
	SpinNs  int64
	StartFn func(m *Meta) error // body of Start(); default: block until Stop is closed
	// PanicInTerminate makes the Terminate callback panic (after it has been recorded)
	PanicInTerminate bool
	Stop             chan struct{}
	once             sync.Once
}

func (c *MetaConfig) StopStart() {
	c.once.Do(func() { close(c.Stop) })
}

// Meta is an instrumented gen.MetaBehavior. Start() is the meta-process's own
// main loop and runs beside the mailbox callbacks by design, so it is not part of
// the one-callback-at-a-time guard; Init, HandleMessage, HandleCall, HandleInspect
// and Terminate are.
type Meta struct {
	gen.MetaProcess
	Cfg   *MetaConfig
	g     guard
	terms atomic.Int32
}

func NewMeta(cfg *MetaConfig) *Meta {
	if cfg.Stop == nil {
		cfg.Stop = make(chan struct{})
	}
	return &Meta{Cfg: cfg}
}

func (m *Meta) rec(kind string, from gen.PID, msg any, reason error, st int64) {
	end := m.g.exit(m.Cfg.Probe)
	m.Cfg.Probe.add(Event{Proc: m.Cfg.Label, Kind: kind, From: from, Msg: msg, Reason: reason, Start: st, End: end})
}

func (m *Meta) Init(process gen.MetaProcess) error {
	m.MetaProcess = process
	st := m.g.enter(m.Cfg.Probe, m.Cfg.Label, "init")
	spin(m.Cfg.SpinNs)
	m.rec("init", gen.PID{}, nil, nil, st)
	return nil
}

func (m *Meta) Start() error {
	if m.Cfg.StartFn != nil {
		return m.Cfg.StartFn(m)
	}
	<-m.Cfg.Stop
	return nil
}

func (m *Meta) HandleMessage(from gen.PID, message any) (err error) {
	st := m.g.enter(m.Cfg.Probe, m.Cfg.Label, "msg")
	defer func() {
		if r := recover(); r != nil {
			m.rec("msg", from, message, fmt.Errorf("panic: %v", r), st)
			panic(r)
		}
		m.rec("msg", from, message, err, st)
	}()
	spin(m.Cfg.SpinNs)
	parkIf(message)
	switch x := message.(type) {
	case Gate:
		if x.Entered != nil {
			close(x.Entered)
		}
		<-x.Open
	case Stop:
		return x.Reason
	case Boom:
		panic("verif: boom")
	}
	return nil
}

func (m *Meta) HandleCall(from gen.PID, ref gen.Ref, request any) (res any, err error) {
	st := m.g.enter(m.Cfg.Probe, m.Cfg.Label, "call")
	defer func() {
		if r := recover(); r != nil {
			m.rec("call", from, request, fmt.Errorf("panic: %v", r), st)
			panic(r)
		}
		m.rec("call", from, request, err, st)
	}()
	spin(m.Cfg.SpinNs)
	parkIf(request)
	switch x := request.(type) {
	case Stop:
		return nil, x.Reason
	case Boom:
		panic("verif: boom")
	}
	return request, nil
}

func (m *Meta) HandleInspect(from gen.PID, item ...string) map[string]string {
	st := m.g.enter(m.Cfg.Probe, m.Cfg.Label, "inspect")
	spin(m.Cfg.SpinNs)
	m.rec("inspect", from, item, nil, st)
	return map[string]string{"label": m.Cfg.Label}
}

func (m *Meta) Terminate(reason error) {
	st := m.g.enter(m.Cfg.Probe, m.Cfg.Label, "terminate")
	spin(m.Cfg.SpinNs)
	m.rec("terminate", gen.PID{}, nil, reason, st)
	if m.Cfg.PanicInTerminate && m.terms.Add(1) == 1 {
		// (only the first invocation panics: should the callback be invoked again, the record of it
		// must survive for the oracle instead of taking the process down from inside a panic handler)
		panic("verif: terminate callback panics")
	}
}
