package kit

import (
	"fmt"

	"ergo.services/ergo/gen"
)

// Raw is a bare gen.ProcessBehavior (no act.Actor underneath): panics in its
// ProcessRun reach the recover of the process runner itself.
type Raw struct {
	gen.Process
	Label  string
	Probe  *Probe
	SpinNs int64
	g      guard
}

func RawFactory(label string, probe *Probe, spinNs int64) gen.ProcessFactory {
	return func() gen.ProcessBehavior { return &Raw{Label: label, Probe: probe, SpinNs: spinNs} }
}

func (r *Raw) rec(kind string, from gen.PID, msg any, reason error, st int64) {
	end := r.g.exit(r.Probe)
	r.Probe.add(Event{Proc: r.Label, PID: r.PID(), Kind: kind, From: from, Msg: msg, Reason: reason, Start: st, End: end})
}

func (r *Raw) ProcessInit(p gen.Process, args ...any) error {
	r.Process = p
	st := r.g.enter(r.Probe, r.Label, "init")
	r.rec("init", gen.PID{}, nil, nil, st)
	return nil
}

func (r *Raw) handle(m *gen.MailboxMessage) (err error) {
	kind := "msg"
	switch m.Type {
	case gen.MailboxMessageTypeRequest:
		kind = "call"
	case gen.MailboxMessageTypeEvent:
		kind = "event"
	case gen.MailboxMessageTypeInspect:
		kind = "inspect"
	case gen.MailboxMessageTypeExit:
		kind = "exit"
	}
	st := r.g.enter(r.Probe, r.Label, kind)
	defer func() {
		if rc := recover(); rc != nil {
			r.rec(kind, m.From, m.Message, fmt.Errorf("panic: %v", rc), st)
			panic(rc)
		}
		r.rec(kind, m.From, m.Message, err, st)
	}()
	spin(r.SpinNs)
	parkIf(m.Message)
	switch m.Type {
	case gen.MailboxMessageTypeExit:
		if x, ok := m.Message.(gen.MessageExitPID); ok {
			return fmt.Errorf("%s: %w", x.PID, x.Reason)
		}
		return fmt.Errorf("exit: %v", m.Message)
	case gen.MailboxMessageTypeRequest:
		r.SendResponse(m.From, m.Ref, "raw")
	case gen.MailboxMessageTypeInspect:
		r.SendResponse(m.From, m.Ref, map[string]string{"label": r.Label})
	}
	switch x := m.Message.(type) {
	case Gate:
		if x.Entered != nil {
			close(x.Entered)
		}
		<-x.Open
	case Stop:
		return x.Reason
	case Boom:
		panic("verif: boom")
	case DoRaw:
		x.F(r)
		if x.Done != nil {
			close(x.Done)
		}
	}
	return nil
}

// DoRaw executes F inside the raw process.
type DoRaw struct {
	F    func(r *Raw)
	Done chan struct{}
}

func (r *Raw) ProcessRun() error {
	mb := r.Mailbox()
	for {
		if r.State() != gen.ProcessStateRunning {
			return gen.TerminateReasonKill
		}
		msg, ok := mb.Urgent.Pop()
		if !ok {
			msg, ok = mb.System.Pop()
		}
		if !ok {
			msg, ok = mb.Main.Pop()
		}
		if !ok {
			return nil
		}
		m := msg.(*gen.MailboxMessage)
		if err := r.handle(m); err != nil {
			return err
		}
	}
}

func (r *Raw) ProcessTerminate(reason error) {
	st := r.g.enter(r.Probe, r.Label, "terminate")
	spin(r.SpinNs)
	r.rec("terminate", gen.PID{}, nil, reason, st)
}
