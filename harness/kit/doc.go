// Package kit is the shared library of the ergo verification harness.
package kit

import _ "pgregory.net/rapid"
