package netkit

import (
	"fmt"
	"os"
	"sync"
	"sync/atomic"
	"time"

	"ergo.services/ergo"
	"ergo.services/ergo/gen"
)

// MemRegistrar is an in-process gen.Registrar/gen.Resolver so that the nodes of
// one test binary never touch the shared registrar port.
type MemRegistrar struct {
	hub  *Hub
	name gen.Atom
}

// Hub is the shared route table of a group of in-process nodes.
type Hub struct {
	mu     sync.Mutex
	routes map[gen.Atom][]gen.Route
}

func NewHub() *Hub { return &Hub{routes: map[gen.Atom][]gen.Route{}} }

func (h *Hub) Registrar() *MemRegistrar { return &MemRegistrar{hub: h} }

func (r *MemRegistrar) Register(node gen.NodeRegistrar, routes gen.RegisterRoutes) (gen.StaticRoutes, error) {
	r.name = node.Name()
	r.hub.mu.Lock()
	var rs []gen.Route
	for _, x := range routes.Routes {
		if x.Host == "" {
			x.Host = "localhost"
		}
		rs = append(rs, x)
	}
	r.hub.routes[r.name] = rs
	r.hub.mu.Unlock()
	return gen.StaticRoutes{}, nil
}
func (r *MemRegistrar) Resolver() gen.Resolver                              { return r }
func (r *MemRegistrar) RegisterProxy(to gen.Atom) error                     { return gen.ErrUnsupported }
func (r *MemRegistrar) UnregisterProxy(to gen.Atom) error                   { return gen.ErrUnsupported }
func (r *MemRegistrar) RegisterApplicationRoute(gen.ApplicationRoute) error { return nil }
func (r *MemRegistrar) UnregisterApplicationRoute(gen.Atom) error           { return nil }
func (r *MemRegistrar) Nodes() ([]gen.Atom, error) {
	r.hub.mu.Lock()
	defer r.hub.mu.Unlock()
	var out []gen.Atom
	for n := range r.hub.routes {
		out = append(out, n)
	}
	return out, nil
}
func (r *MemRegistrar) Config(items ...string) (map[string]any, error) {
	return nil, gen.ErrUnsupported
}
func (r *MemRegistrar) ConfigItem(item string) (any, error) { return nil, gen.ErrUnsupported }
func (r *MemRegistrar) Event() (gen.Event, error)           { return gen.Event{}, gen.ErrUnsupported }
func (r *MemRegistrar) Info() gen.RegistrarInfo {
	return gen.RegistrarInfo{Server: "mem", Version: r.Version()}
}
func (r *MemRegistrar) Terminate() {
	r.hub.mu.Lock()
	delete(r.hub.routes, r.name)
	r.hub.mu.Unlock()
}
func (r *MemRegistrar) Version() gen.Version {
	return gen.Version{Name: "verif-mem-registrar", Release: "1", License: gen.LicenseMIT}
}
func (r *MemRegistrar) Resolve(node gen.Atom) ([]gen.Route, error) {
	r.hub.mu.Lock()
	defer r.hub.mu.Unlock()
	rs, ok := r.hub.routes[node]
	if !ok || len(rs) == 0 {
		return nil, gen.ErrNoRoute
	}
	return append([]gen.Route(nil), rs...), nil
}
func (r *MemRegistrar) ResolveProxy(node gen.Atom) ([]gen.ProxyRoute, error) {
	return nil, gen.ErrNoRoute
}
func (r *MemRegistrar) ResolveApplication(name gen.Atom) ([]gen.ApplicationRoute, error) {
	return nil, gen.ErrNoRoute
}

// SetRoute overrides the route to a node (used to put a proxy in between).
func (h *Hub) SetRoute(node gen.Atom, route gen.Route) {
	h.mu.Lock()
	h.routes[node] = []gen.Route{route}
	h.mu.Unlock()
}

func (h *Hub) Route(node gen.Atom) (gen.Route, bool) {
	h.mu.Lock()
	defer h.mu.Unlock()
	rs := h.routes[node]
	if len(rs) == 0 {
		return gen.Route{}, false
	}
	return rs[0], true
}

var netNodeSeq atomic.Uint64
var portSeq atomic.Uint32

// basePort spreads the processes of a sharded run over the port space.
func nextPort() uint16 {
	base := uint32(20000 + (os.Getpid()*97)%20000)
	return uint16(base + portSeq.Add(1)%2000)
}

// NetNodeName returns a process-unique node name.
func NetNodeName(prefix string) gen.Atom {
	return gen.Atom(fmt.Sprintf("%s%d-%d@localhost", prefix, os.Getpid(), netNodeSeq.Add(1)))
}

// NodeBudget is the number of networked nodes one test process may start. Every node
// start registers the node's name in the process-wide EDF atom registry (node/node.go),
// and the whole registry travels in every handshake; after about 2300 nodes with names of
// this length the handshake message exceeds 64 KiB and every connection attempt fails
// with "too long handshake message" (seen as ErrNoRoute). That is a limit of the test
// process, not of a node, so a check that runs into it stops as an infrastructure failure.
const NodeBudget = 1900

var nodesStarted atomic.Int64

// StartNetNode starts a networked node registered at the hub. mod may adjust the options.
func StartNetNode(h *Hub, name gen.Atom, cookie string, mod ...func(*gen.NodeOptions)) (gen.Node, error) {
	if nodesStarted.Add(1) > NodeBudget {
		fmt.Println("verif: harness limit - this test process started more than", NodeBudget, "networked nodes (lower checks per shard); inconclusive")
		os.Exit(3)
	}
	var o gen.NodeOptions
	o.Log.DefaultLogger.Disable = true
	o.Log.Level = gen.LogLevelDisabled
	o.Network.Cookie = cookie
	o.Network.Registrar = h.Registrar()
	o.Network.Acceptors = []gen.AcceptorOptions{{Host: "localhost", Port: nextPort(), PortRange: 60000}}
	if os.Getenv("VERIF_NODELOG") != "" {
		o.Log.DefaultLogger.Disable = false
		o.Log.Level = gen.LogLevelWarning
	}
	for _, m := range mod {
		m(&o)
	}
	var n gen.Node
	var err error
	for attempt := 0; attempt < 5; attempt++ {
		n, err = ergo.StartNode(name, o)
		if err == nil {
			n.SetCTRLC(false)
			return n, nil
		}
		time.Sleep(5 * time.Millisecond)
	}
	return nil, err
}
