package netkit

import (
	"net"
	"sync"
	"sync/atomic"
)

// Proxy is a loopback TCP forwarder with byte counters that can cut all of its
// connections once a generated number of bytes has passed (in either direction).
type Proxy struct {
	l      net.Listener
	target string
	Port   uint16
	Bytes  atomic.Int64 // total bytes forwarded, both directions
	cutAt  atomic.Int64 // 0 = never
	CutAtB atomic.Int64 // byte count at which the cut happened (0 = no cut)
	mu     sync.Mutex
	conns  []net.Conn
	closed bool
}

// NewProxy listens on a free loopback port and forwards to target ("host:port").
func NewProxy(target string) (*Proxy, error) {
	l, err := net.Listen("tcp4", "127.0.0.1:0")
	if err != nil {
		return nil, err
	}
	p := &Proxy{l: l, target: target, Port: uint16(l.Addr().(*net.TCPAddr).Port)}
	go p.accept()
	return p, nil
}

// CutAfter arms the cut: when the forwarded total reaches n bytes every connection is closed.
func (p *Proxy) CutAfter(n int64) { p.cutAt.Store(n) }

func (p *Proxy) accept() {
	for {
		c, err := p.l.Accept()
		if err != nil {
			return
		}
		u, err := net.Dial("tcp4", p.target)
		if err != nil {
			c.Close()
			continue
		}
		p.mu.Lock()
		if p.closed {
			p.mu.Unlock()
			c.Close()
			u.Close()
			return
		}
		p.conns = append(p.conns, c, u)
		p.mu.Unlock()
		go p.pump(c, u)
		go p.pump(u, c)
	}
}

func (p *Proxy) pump(from, to net.Conn) {
	buf := make([]byte, 32*1024)
	for {
		n, err := from.Read(buf)
		if n > 0 {
			b := buf[:n]
			if cut := p.cutAt.Load(); cut > 0 {
				sofar := p.Bytes.Load()
				if sofar+int64(n) >= cut {
					keep := cut - sofar
					if keep < 0 {
						keep = 0
					}
					if keep > 0 {
						to.Write(b[:keep])
						p.Bytes.Add(keep)
					}
					p.CutAtB.CompareAndSwap(0, cut)
					p.CutAll()
					return
				}
			}
			if _, werr := to.Write(b); werr != nil {
				break
			}
			p.Bytes.Add(int64(n))
		}
		if err != nil {
			break
		}
	}
	from.Close()
	to.Close()
}

// CutAll closes every forwarded connection (the listener stays).
func (p *Proxy) CutAll() {
	p.mu.Lock()
	cs := p.conns
	p.conns = nil
	p.mu.Unlock()
	for _, c := range cs {
		c.Close()
	}
}

func (p *Proxy) Close() {
	p.mu.Lock()
	p.closed = true
	p.mu.Unlock()
	p.l.Close()
	p.CutAll()
}
