// Package netkit holds the network-side harness pieces: a recording mock of
// gen.Core, a silent gen.Log, byte-stream shapers and a pair of real proto
// connections joined over in-memory pipes.
package netkit

import (
	"fmt"
	"net"
	"sync"
	"sync/atomic"
	"time"

	"ergo.services/ergo/gen"
	"ergo.services/ergo/net/edf"
	"ergo.services/ergo/net/handshake"
	"ergo.services/ergo/net/proto"
)

// ---------------------------------------------------------------- log

type NopLog struct {
	Errors atomic.Int64
	mu     sync.Mutex
	Last   []string
}

func (l *NopLog) keep(f string, a ...any) {
	l.Errors.Add(1)
	l.mu.Lock()
	if len(l.Last) < 10 {
		l.Last = append(l.Last, fmt.Sprintf(f, a...))
	}
	l.mu.Unlock()
}

// Messages returns the first few error/panic log lines.
func (l *NopLog) Messages() []string {
	l.mu.Lock()
	defer l.mu.Unlock()
	return append([]string(nil), l.Last...)
}

func (l *NopLog) Level() gen.LogLevel         { return gen.LogLevelDisabled }
func (l *NopLog) SetLevel(gen.LogLevel) error { return nil }
func (l *NopLog) Logger() string              { return "" }
func (l *NopLog) SetLogger(string)            {}
func (l *NopLog) Fields() []gen.LogField      { return nil }
func (l *NopLog) AddFields(...gen.LogField)   {}
func (l *NopLog) DeleteFields(...string)      {}
func (l *NopLog) PushFields() int             { return 0 }
func (l *NopLog) PopFields() int              { return 0 }
func (l *NopLog) Trace(string, ...any)        {}
func (l *NopLog) Debug(string, ...any)        {}
func (l *NopLog) Info(string, ...any)         {}
func (l *NopLog) Warning(string, ...any)      {}
func (l *NopLog) Error(f string, a ...any)    { l.Errors.Add(1) }
func (l *NopLog) Panic(f string, a ...any)    { l.Errors.Add(1) }

// ---------------------------------------------------------------- mock core

// Routed is one Route* call a connection made on the mock core.
type Routed struct {
	Kind    string
	From    gen.PID
	To      any
	Options gen.MessageOptions
	Message any
	Err     error
	At      time.Time
}

// MockCore implements gen.Core and records what the connection routes into it.
type MockCore struct {
	NodeName gen.Atom
	Born     int64
	mu       sync.Mutex
	calls    []Routed
	refSeq   atomic.Uint64
	// Decide lets a test choose the result of a routed send (default nil)
	Decide func(r Routed) error
	// OnRoute is called (outside the lock) for every routed call
	OnRoute func(r Routed)
}

func NewMockCore(name gen.Atom, creation int64) *MockCore {
	return &MockCore{NodeName: name, Born: creation}
}

func (m *MockCore) rec(kind string, from gen.PID, to any, o gen.MessageOptions, msg any) error {
	r := Routed{Kind: kind, From: from, To: to, Options: o, Message: msg, At: time.Now()}
	if m.Decide != nil {
		r.Err = m.Decide(r)
	}
	m.mu.Lock()
	m.calls = append(m.calls, r)
	m.mu.Unlock()
	if m.OnRoute != nil {
		m.OnRoute(r)
	}
	return r.Err
}

func (m *MockCore) Calls() []Routed {
	m.mu.Lock()
	defer m.mu.Unlock()
	return append([]Routed(nil), m.calls...)
}

func (m *MockCore) Count() int {
	m.mu.Lock()
	defer m.mu.Unlock()
	return len(m.calls)
}

func (m *MockCore) RouteSendPID(from gen.PID, to gen.PID, o gen.MessageOptions, msg any) error {
	return m.rec("send-pid", from, to, o, msg)
}
func (m *MockCore) RouteSendProcessID(from gen.PID, to gen.ProcessID, o gen.MessageOptions, msg any) error {
	return m.rec("send-name", from, to, o, msg)
}
func (m *MockCore) RouteSendAlias(from gen.PID, to gen.Alias, o gen.MessageOptions, msg any) error {
	return m.rec("send-alias", from, to, o, msg)
}
func (m *MockCore) RouteSendEvent(from gen.PID, token gen.Ref, o gen.MessageOptions, msg gen.MessageEvent) error {
	return m.rec("event", from, msg.Event, o, msg)
}
func (m *MockCore) RouteSendExit(from gen.PID, to gen.PID, reason error) error {
	return m.rec("exit", from, to, gen.MessageOptions{}, reason)
}
func (m *MockCore) RouteSendResponse(from gen.PID, to gen.PID, o gen.MessageOptions, msg any) error {
	return m.rec("response", from, to, o, msg)
}
func (m *MockCore) RouteSendResponseError(from gen.PID, to gen.PID, o gen.MessageOptions, err error) error {
	return m.rec("response-error", from, to, o, err)
}
func (m *MockCore) RouteCallPID(from gen.PID, to gen.PID, o gen.MessageOptions, msg any) error {
	return m.rec("call-pid", from, to, o, msg)
}
func (m *MockCore) RouteCallProcessID(from gen.PID, to gen.ProcessID, o gen.MessageOptions, msg any) error {
	return m.rec("call-name", from, to, o, msg)
}
func (m *MockCore) RouteCallAlias(from gen.PID, to gen.Alias, o gen.MessageOptions, msg any) error {
	return m.rec("call-alias", from, to, o, msg)
}
func (m *MockCore) RouteLinkPID(pid gen.PID, target gen.PID) error {
	return m.rec("link-pid", pid, target, gen.MessageOptions{}, nil)
}
func (m *MockCore) RouteUnlinkPID(pid gen.PID, target gen.PID) error {
	return m.rec("unlink-pid", pid, target, gen.MessageOptions{}, nil)
}
func (m *MockCore) RouteLinkProcessID(pid gen.PID, target gen.ProcessID) error {
	return m.rec("link-name", pid, target, gen.MessageOptions{}, nil)
}
func (m *MockCore) RouteUnlinkProcessID(pid gen.PID, target gen.ProcessID) error {
	return m.rec("unlink-name", pid, target, gen.MessageOptions{}, nil)
}
func (m *MockCore) RouteLinkAlias(pid gen.PID, target gen.Alias) error {
	return m.rec("link-alias", pid, target, gen.MessageOptions{}, nil)
}
func (m *MockCore) RouteUnlinkAlias(pid gen.PID, target gen.Alias) error {
	return m.rec("unlink-alias", pid, target, gen.MessageOptions{}, nil)
}
func (m *MockCore) RouteLinkEvent(pid gen.PID, target gen.Event) ([]gen.MessageEvent, error) {
	return nil, m.rec("link-event", pid, target, gen.MessageOptions{}, nil)
}
func (m *MockCore) RouteUnlinkEvent(pid gen.PID, target gen.Event) error {
	return m.rec("unlink-event", pid, target, gen.MessageOptions{}, nil)
}
func (m *MockCore) RouteMonitorPID(pid gen.PID, target gen.PID) error {
	return m.rec("monitor-pid", pid, target, gen.MessageOptions{}, nil)
}
func (m *MockCore) RouteDemonitorPID(pid gen.PID, target gen.PID) error {
	return m.rec("demonitor-pid", pid, target, gen.MessageOptions{}, nil)
}
func (m *MockCore) RouteMonitorProcessID(pid gen.PID, target gen.ProcessID) error {
	return m.rec("monitor-name", pid, target, gen.MessageOptions{}, nil)
}
func (m *MockCore) RouteDemonitorProcessID(pid gen.PID, target gen.ProcessID) error {
	return m.rec("demonitor-name", pid, target, gen.MessageOptions{}, nil)
}
func (m *MockCore) RouteMonitorAlias(pid gen.PID, target gen.Alias) error {
	return m.rec("monitor-alias", pid, target, gen.MessageOptions{}, nil)
}
func (m *MockCore) RouteDemonitorAlias(pid gen.PID, target gen.Alias) error {
	return m.rec("demonitor-alias", pid, target, gen.MessageOptions{}, nil)
}
func (m *MockCore) RouteMonitorEvent(pid gen.PID, target gen.Event) ([]gen.MessageEvent, error) {
	return nil, m.rec("monitor-event", pid, target, gen.MessageOptions{}, nil)
}
func (m *MockCore) RouteDemonitorEvent(pid gen.PID, target gen.Event) error {
	return m.rec("demonitor-event", pid, target, gen.MessageOptions{}, nil)
}
func (m *MockCore) RouteTerminatePID(target gen.PID, reason error) error {
	return m.rec("terminate-pid", gen.PID{}, target, gen.MessageOptions{}, reason)
}
func (m *MockCore) RouteTerminateProcessID(target gen.ProcessID, reason error) error {
	return m.rec("terminate-name", gen.PID{}, target, gen.MessageOptions{}, reason)
}
func (m *MockCore) RouteTerminateEvent(target gen.Event, reason error) error {
	return m.rec("terminate-event", gen.PID{}, target, gen.MessageOptions{}, reason)
}
func (m *MockCore) RouteTerminateAlias(target gen.Alias, reason error) error {
	return m.rec("terminate-alias", gen.PID{}, target, gen.MessageOptions{}, reason)
}
func (m *MockCore) RouteSpawn(node gen.Atom, name gen.Atom, o gen.ProcessOptionsExtra, source gen.Atom) (gen.PID, error) {
	err := m.rec("spawn", o.ParentPID, name, gen.MessageOptions{}, o)
	return gen.PID{Node: m.NodeName, ID: 4242, Creation: m.Born}, err
}
func (m *MockCore) RouteApplicationStart(name gen.Atom, mode gen.ApplicationMode, o gen.ApplicationOptionsExtra, source gen.Atom) error {
	return m.rec("app-start", gen.PID{}, name, gen.MessageOptions{}, mode)
}
func (m *MockCore) RouteNodeDown(node gen.Atom, reason error) {
	m.rec("node-down", gen.PID{}, node, gen.MessageOptions{}, reason)
}
func (m *MockCore) MakeRef() gen.Ref {
	return gen.Ref{Node: m.NodeName, Creation: m.Born, ID: [3]uint64{m.refSeq.Add(1), 7, 0}}
}
func (m *MockCore) Name() gen.Atom                { return m.NodeName }
func (m *MockCore) Creation() int64               { return m.Born }
func (m *MockCore) PID() gen.PID                  { return gen.PID{Node: m.NodeName, ID: 1, Creation: m.Born} }
func (m *MockCore) LogLevel() gen.LogLevel        { return gen.LogLevelDisabled }
func (m *MockCore) Security() gen.SecurityOptions { return gen.SecurityOptions{} }
func (m *MockCore) EnvList() map[gen.Env]any      { return nil }

// ---------------------------------------------------------------- shaped pipes

// Shape controls how a writer cuts its byte stream: Seg returns the next segment
// size (>= 1), Delay the pause before a segment is handed over.
type Shape struct {
	Segs   []int // cycled; empty = no re-cutting
	DelayU []int // microseconds per segment, cycled; empty = none
}

type shapedConn struct {
	net.Conn
	mu    sync.Mutex
	shape Shape
	i     int
	w     int
	Segs  atomic.Int64 // segments written
	Bytes atomic.Int64
}

func (s *shapedConn) Write(b []byte) (int, error) {
	s.mu.Lock()
	defer s.mu.Unlock()
	total := 0
	first := true // the delay applies once per Write call (one flush of the link), not per segment
	s.w++
	for len(b) > 0 {
		n := len(b)
		if len(s.shape.Segs) > 0 {
			if k := s.shape.Segs[s.i%len(s.shape.Segs)]; k > 0 && k < n {
				n = k
			}
		}
		if first && len(s.shape.DelayU) > 0 {
			if d := s.shape.DelayU[s.w%len(s.shape.DelayU)]; d > 0 {
				time.Sleep(time.Duration(d) * time.Microsecond)
			}
		}
		first = false
		s.i++
		w, err := s.Conn.Write(b[:n])
		total += w
		s.Segs.Add(1)
		s.Bytes.Add(int64(w))
		if err != nil {
			return total, err
		}
		b = b[n:]
	}
	return total, nil
}

// bufferedPipe is an in-memory duplex connection with an unbounded buffer per
// direction (net.Pipe is synchronous, which would let a slow reader stall a sender
// and so hide reordering between links).
type pipeEnd struct {
	rd     *queue
	wr     *queue
	local  string
	remote string
}

type queue struct {
	mu     sync.Mutex
	cond   *sync.Cond
	chunks [][]byte
	closed bool
}

func newQueue() *queue { q := &queue{}; q.cond = sync.NewCond(&q.mu); return q }

func (p *pipeEnd) Read(b []byte) (int, error) {
	q := p.rd
	q.mu.Lock()
	defer q.mu.Unlock()
	for len(q.chunks) == 0 {
		if q.closed {
			return 0, fmt.Errorf("pipe closed")
		}
		q.cond.Wait()
	}
	n := copy(b, q.chunks[0])
	if n == len(q.chunks[0]) {
		q.chunks = q.chunks[1:]
	} else {
		q.chunks[0] = q.chunks[0][n:]
	}
	return n, nil
}

func (p *pipeEnd) Write(b []byte) (int, error) {
	q := p.wr
	q.mu.Lock()
	defer q.mu.Unlock()
	if q.closed {
		return 0, fmt.Errorf("pipe closed")
	}
	q.chunks = append(q.chunks, append([]byte(nil), b...))
	q.cond.Broadcast()
	return len(b), nil
}

func (p *pipeEnd) Close() error {
	for _, q := range []*queue{p.rd, p.wr} {
		q.mu.Lock()
		q.closed = true
		q.cond.Broadcast()
		q.mu.Unlock()
	}
	return nil
}

type pipeAddr string

func (a pipeAddr) Network() string { return "mem" }
func (a pipeAddr) String() string  { return string(a) }

func (p *pipeEnd) LocalAddr() net.Addr                { return pipeAddr(p.local) }
func (p *pipeEnd) RemoteAddr() net.Addr               { return pipeAddr(p.remote) }
func (p *pipeEnd) SetDeadline(t time.Time) error      { return nil }
func (p *pipeEnd) SetReadDeadline(t time.Time) error  { return nil }
func (p *pipeEnd) SetWriteDeadline(t time.Time) error { return nil }

var pipeSeq atomic.Int64

// Pipe returns two connected in-memory connections whose writers are shaped.
func Pipe(ab, ba Shape) (a, b *shapedConn) {
	q1, q2 := newQueue(), newQueue()
	n := pipeSeq.Add(1)
	ea := &pipeEnd{rd: q1, wr: q2, local: fmt.Sprintf("mem-a-%d", n), remote: fmt.Sprintf("mem-b-%d", n)}
	eb := &pipeEnd{rd: q2, wr: q1, local: fmt.Sprintf("mem-b-%d", n), remote: fmt.Sprintf("mem-a-%d", n)}
	return &shapedConn{Conn: ea, shape: ab}, &shapedConn{Conn: eb, shape: ba}
}

// ---------------------------------------------------------------- proto pair

// Pair is two real proto connections (A <-> B) over in-memory links with mock cores.
type Pair struct {
	CoreA, CoreB *MockCore
	ConnA, ConnB gen.Connection
	LogA, LogB   *NopLog
	LinksA       []*shapedConn // A-side ends
	LinksB       []*shapedConn
	ID           string
}

type PairOptions struct {
	Pool            int
	MaxMessageSizeA int // what A accepts (B's peer limit)
	MaxMessageSizeB int
	Caches          bool // negotiate-like caches (atom/reg/err)
	ShapeAB         []Shape
	ShapeBA         []Shape
	// Tweak may rewrite the two handshake results before the connections are built (flags as
	// announced / as believed by either side)
	Tweak func(ra, rb *gen.HandshakeResult)
}

func caches() (ea, er, ee, da, dr, de *sync.Map) {
	ea, da = new(sync.Map), new(sync.Map)
	for id, a := range edf.GetAtomCache() {
		ea.Store(a, id)
		da.Store(id, a)
	}
	names := []string{}
	dr = new(sync.Map)
	for id, name := range edf.GetRegCache() {
		names = append(names, name)
		dr.Store(id, name)
	}
	er = edf.MakeEncodeRegTypeCache(names)
	ee, de = new(sync.Map), new(sync.Map)
	for id, e := range edf.GetErrCache() {
		ee.Store(e, id)
		de.Store(id, e)
	}
	return
}

// Results builds the two handshake results NewPair feeds to the connections.
func Results(o PairOptions) (ra, rb gen.HandshakeResult) {
	if o.Pool < 1 {
		o.Pool = 1
	}
	flags := gen.NetworkFlags{Enable: true, EnableImportantDelivery: true, EnableRemoteSpawn: true, EnableRemoteApplicationStart: true}
	co := handshake.ConnectionOptions{PoolSize: o.Pool}
	if o.Caches {
		ea, er, ee, da, dr, de := caches()
		co.EncodeAtomCache, co.EncodeRegCache, co.EncodeErrCache = ea, er, ee
		co.DecodeAtomCache, co.DecodeRegCache, co.DecodeErrCache = da, dr, de
	}
	id := fmt.Sprintf("pair-%d", pipeSeq.Add(1))
	ra = gen.HandshakeResult{ConnectionID: id, Peer: "b@localhost", PeerCreation: 2002, PeerFlags: flags, NodeFlags: flags,
		PeerMaxMessageSize: o.MaxMessageSizeB, NodeMaxMessageSize: o.MaxMessageSizeA, Custom: co}
	rb = gen.HandshakeResult{ConnectionID: id, Peer: "a@localhost", PeerCreation: 1001, PeerFlags: flags, NodeFlags: flags,
		PeerMaxMessageSize: o.MaxMessageSizeA, NodeMaxMessageSize: o.MaxMessageSizeB, Custom: co}
	if o.Tweak != nil {
		o.Tweak(&ra, &rb)
	}
	return
}

// Conn is one end of an in-memory link.
type Conn = shapedConn

// NewPair builds the pair and joins o.Pool links.
func NewPair(o PairOptions) (*Pair, error) {
	if o.Pool < 1 {
		o.Pool = 1
	}
	p := &Pair{CoreA: NewMockCore("a@localhost", 1001), CoreB: NewMockCore("b@localhost", 2002), LogA: &NopLog{}, LogB: &NopLog{}}
	ra, rb := Results(o)
	id := ra.ConnectionID
	p.ID = id
	var err error
	if p.ConnA, err = proto.Create().NewConnection(p.CoreA, ra, p.LogA); err != nil {
		return nil, err
	}
	if p.ConnB, err = proto.Create().NewConnection(p.CoreB, rb, p.LogB); err != nil {
		return nil, err
	}
	for i := 0; i < o.Pool; i++ {
		if err := p.AddLink(id, shapeAt(o.ShapeAB, i), shapeAt(o.ShapeBA, i)); err != nil {
			return nil, err
		}
	}
	return p, nil
}

func shapeAt(s []Shape, i int) Shape {
	if len(s) == 0 {
		return Shape{}
	}
	return s[i%len(s)]
}

// AddLink joins one more link to both connections.
func (p *Pair) AddLink(id string, ab, ba Shape) error {
	a, b := Pipe(ab, ba)
	if id == "" {
		id = p.id()
	}
	if err := p.ConnA.Join(a, id, nil, nil); err != nil {
		return err
	}
	if err := p.ConnB.Join(b, id, nil, nil); err != nil {
		return err
	}
	p.LinksA = append(p.LinksA, a)
	p.LinksB = append(p.LinksB, b)
	return nil
}

func (p *Pair) id() string { return p.ID }

func (p *Pair) Close() {
	p.ConnA.Terminate(nil)
	p.ConnB.Terminate(nil)
	for _, l := range p.LinksA {
		l.Close()
	}
	for _, l := range p.LinksB {
		l.Close()
	}
}

// Envelope carries a unique id next to a generated body so that receiver-side records
// can be matched with what was sent.
type Envelope struct {
	ID   int64
	Body any
}

func init() {
	if err := edf.RegisterTypeOf(Envelope{}); err != nil && err != gen.ErrTaken {
		panic(err)
	}
}
