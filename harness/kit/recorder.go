package kit

import (
	"encoding/json"
	"fmt"
	"hash/fnv"
	"os"
	"path/filepath"
	"sort"
	"sync"
	"testing"
)

// Recorder collects what a check actually explored. One recorder per test
// function; Case is called once per generated case. Everything is measured:
// evaluations counts calls, the non-trivial set is a set of hashes of the
// canonical case rendering, samples are the renderings with the lowest hashes
// (a deterministic, RNG-free reservoir).
type Recorder struct {
	mu        sync.Mutex
	Property  string
	Name      string
	Rule      string
	evals     int64
	nontriv   map[uint64]struct{}
	labels    map[string]int64
	samples   map[uint64]string
	excluded  map[string]int64 // known-finding signature -> cases excluded
	confirmed map[string]string
	extra     map[string]any
	exhaust   *bool
	// compact mode (huge enumerations, shards with disjoint key spaces): hashes are kept
	// in a slice that is sorted and de-duplicated from time to time, and only their
	// number is written out
	compact  bool
	chashes  []uint64
	csorted  int
	dupCount int64
}

// Compact switches to the memory-lean mode; keys of different shards must be disjoint.
func (r *Recorder) Compact() {
	r.mu.Lock()
	r.compact = true
	r.mu.Unlock()
}

func (r *Recorder) compactDedupe() {
	sort.Slice(r.chashes, func(i, j int) bool { return r.chashes[i] < r.chashes[j] })
	out := r.chashes[:0]
	var prev uint64
	for i, h := range r.chashes {
		if i > 0 && h == prev {
			r.dupCount++
			continue
		}
		out = append(out, h)
		prev = h
	}
	r.chashes = out
	r.csorted = len(out)
}

var (
	recMu sync.Mutex
	recs  []*Recorder
)

const maxSamples = 6
const maxSampleLen = 600

func NewRecorder(property, name, rule string) *Recorder {
	r := &Recorder{
		Property: property, Name: name, Rule: rule,
		nontriv:   map[uint64]struct{}{},
		labels:    map[string]int64{},
		samples:   map[uint64]string{},
		excluded:  map[string]int64{},
		confirmed: map[string]string{},
		extra:     map[string]any{},
	}
	recMu.Lock()
	recs = append(recs, r)
	recMu.Unlock()
	return r
}

func hash64(s string) uint64 {
	h := fnv.New64a()
	h.Write([]byte(s))
	return h.Sum64()
}

// Case records one generated case. key is its canonical rendering.
func (r *Recorder) Case(nontrivial bool, key string, labels ...string) {
	r.mu.Lock()
	defer r.mu.Unlock()
	r.evals++
	for _, l := range labels {
		r.labels[l]++
	}
	if !nontrivial {
		r.labels["trivial"]++
		return
	}
	h := hash64(key)
	if r.compact {
		r.chashes = append(r.chashes, h)
		if len(r.chashes) > 2*r.csorted+1000000 {
			r.compactDedupe()
		}
		if len(r.samples) < maxSamples {
			if len(key) > maxSampleLen {
				key = key[:maxSampleLen] + "…"
			}
			r.samples[h] = key
		}
		return
	}
	if _, ok := r.nontriv[h]; ok {
		r.labels["duplicate-nontrivial"]++
		return
	}
	r.nontriv[h] = struct{}{}
	if len(key) > maxSampleLen {
		key = key[:maxSampleLen] + "…"
	}
	if len(r.samples) < maxSamples {
		r.samples[h] = key
		return
	}
	var max uint64
	for k := range r.samples {
		if k > max {
			max = k
		}
	}
	if h < max {
		delete(r.samples, max)
		r.samples[h] = key
	}
}

// Label bumps a counter without counting a case.
func (r *Recorder) Label(l string, n int64) {
	r.mu.Lock()
	r.labels[l] += n
	r.mu.Unlock()
}

// Excluded counts a case that hit an open known finding (by signature).
func (r *Recorder) Excluded(sig string) {
	r.mu.Lock()
	r.excluded[sig]++
	r.mu.Unlock()
}

// Confirmed states that an open known finding was re-confirmed by its directed replay.
func (r *Recorder) Confirmed(sig, what string) {
	r.mu.Lock()
	r.confirmed[sig] = what
	r.mu.Unlock()
}

func (r *Recorder) Extra(k string, v any) {
	r.mu.Lock()
	r.extra[k] = v
	r.mu.Unlock()
}

func (r *Recorder) Exhaustive(b bool) {
	r.mu.Lock()
	r.exhaust = &b
	r.mu.Unlock()
}

type fragment struct {
	Property   string            `json:"property"`
	Name       string            `json:"name"`
	Rule       string            `json:"rule"`
	Evals      int64             `json:"evaluations"`
	Nontrivial []uint64          `json:"nontrivial_hashes"`
	Labels     map[string]int64  `json:"labels"`
	Samples    []string          `json:"samples"`
	Excluded   map[string]int64  `json:"excluded_known"`
	Confirmed  map[string]string `json:"confirmed_known"`
	Extra      map[string]any    `json:"extra,omitempty"`
	Exhaustive *bool             `json:"exhaustive,omitempty"`
	CountOnly  *int64            `json:"nontrivial_count_only,omitempty"`
}

func (r *Recorder) flush(dir string) error {
	r.mu.Lock()
	defer r.mu.Unlock()
	f := fragment{Property: r.Property, Name: r.Name, Rule: r.Rule, Evals: r.evals,
		Labels: r.labels, Excluded: r.excluded, Confirmed: r.confirmed, Extra: r.extra, Exhaustive: r.exhaust}
	if r.compact {
		r.compactDedupe()
		n := int64(len(r.chashes))
		f.CountOnly = &n
		f.Labels["duplicate-nontrivial"] += r.dupCount
	}
	for h := range r.nontriv {
		f.Nontrivial = append(f.Nontrivial, h)
	}
	sort.Slice(f.Nontrivial, func(i, j int) bool { return f.Nontrivial[i] < f.Nontrivial[j] })
	keys := make([]uint64, 0, len(r.samples))
	for k := range r.samples {
		keys = append(keys, k)
	}
	sort.Slice(keys, func(i, j int) bool { return keys[i] < keys[j] })
	for _, k := range keys {
		f.Samples = append(f.Samples, r.samples[k])
	}
	b, err := json.Marshal(f)
	if err != nil {
		return err
	}
	return os.WriteFile(filepath.Join(dir, fmt.Sprintf("frag-%d-%s.json", os.Getpid(), r.Name)), b, 0o644)
}

// Main is the TestMain body of every check package.
func Main(m *testing.M) {
	code := m.Run()
	if dir := os.Getenv("VERIF_OUT"); dir != "" {
		recMu.Lock()
		for _, r := range recs {
			if r.evals == 0 && len(r.confirmed) == 0 {
				continue
			}
			if err := r.flush(dir); err != nil {
				fmt.Fprintf(os.Stderr, "verif: cannot write evidence fragment: %v\n", err)
				if code == 0 {
					code = 2
				}
			}
		}
		recMu.Unlock()
	}
	os.Exit(code)
}

// Tier returns "quick" or "thorough".
func Tier() string {
	if os.Getenv("VERIF_TIER") == "thorough" {
		return "thorough"
	}
	return "quick"
}

// Scale picks a size by tier.
func Scale(quick, thorough int) int {
	if Tier() == "thorough" {
		return thorough
	}
	return quick
}

// Shard returns this process's shard index and the number of shards (from the driver).
func Shard() (int, int) {
	var sh, n int
	fmt.Sscanf(os.Getenv("VERIF_SHARD"), "%d", &sh)
	fmt.Sscanf(os.Getenv("VERIF_SHARDS"), "%d", &n)
	if n < 1 {
		n = 1
	}
	if sh < 0 || sh >= n {
		sh = 0
	}
	return sh, n
}
