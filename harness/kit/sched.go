//go:build verif

package kit

import (
	"fmt"
	"sort"
	"sync"
	"time"

	"ergo.services/ergo/lib"
)

// Sched is the controlled scheduler over the lib.VerifPoint yield points.
// Every goroutine that reaches a selected point parks; when nothing moves any
// more, one parked goroutine - chosen by the generated schedule - is released.
// The interleaving of the instrumented critical sections is thereby generated
// and shrinkable. A mis-detected "nothing moves" only lets two sections overlap,
// which is still a legal schedule, so the scheduler cannot cause a false alarm
// as long as the oracles are schedule-independent invariants.
type Sched struct {
	mu     sync.Mutex
	active bool
	filter func(name string, id uint64) bool
	parked []*parkedG
	gen    uint64
	Trace  []string
	// MaxPark counts the maximum number of goroutines parked simultaneously
	MaxPark int
	// Seen counts how many times each point name parked someone
	Seen map[string]int
	// CoPark records pairs of point names ("a|b", a<=b) that were parked at the same moment of decision
	CoPark map[string]bool
}

type parkedG struct {
	name string
	id   uint64
	seq  uint64
	ch   chan struct{}
}

var schedGlobal sync.Mutex // one scheduler at a time per test binary

// NewSched installs a scheduler. filter selects the points (and process ids) to control.
func NewSched(filter func(name string, id uint64) bool) *Sched {
	schedGlobal.Lock()
	s := &Sched{active: true, filter: filter, Seen: map[string]int{}, CoPark: map[string]bool{}}
	lib.SetVerifHook(s.hook)
	return s
}

func (s *Sched) hook(name string, id uint64) {
	s.mu.Lock()
	if !s.active || (s.filter != nil && !s.filter(name, id)) {
		s.mu.Unlock()
		return
	}
	s.gen++
	g := &parkedG{name: name, id: id, seq: s.gen, ch: make(chan struct{})}
	s.parked = append(s.parked, g)
	if len(s.parked) > s.MaxPark {
		s.MaxPark = len(s.parked)
	}
	s.Seen[name]++
	s.mu.Unlock()
	<-g.ch
}

// Point is a yield point reached from harness code (for example from a wrapping
// gen.TargetManager): the same parking discipline as a lib.VerifPoint in the code base.
func (s *Sched) Point(name string, id uint64) { s.hook(name, id) }

// Close deactivates the scheduler and releases everything. It must run (as a
// defer) BEFORE the node is stopped: teardown calls instrumented code.
func (s *Sched) Close() {
	s.mu.Lock()
	if !s.active {
		s.mu.Unlock()
		return
	}
	s.active = false
	p := s.parked
	s.parked = nil
	s.mu.Unlock()
	for _, g := range p {
		close(g.ch)
	}
	lib.SetVerifHook(nil)
	schedGlobal.Unlock()
}

// settle waits until the set of parked goroutines has not changed for the settle interval.
func (s *Sched) settle(interval time.Duration) {
	s.mu.Lock()
	last := s.gen
	s.mu.Unlock()
	t := time.Now()
	for {
		time.Sleep(20 * time.Microsecond)
		s.mu.Lock()
		g := s.gen
		s.mu.Unlock()
		if g != last {
			last = g
			t = time.Now()
			continue
		}
		if time.Since(t) >= interval {
			return
		}
	}
}

// ParkedNames returns the names currently parked (sorted).
func (s *Sched) ParkedNames() []string {
	s.mu.Lock()
	defer s.mu.Unlock()
	var out []string
	for _, g := range s.parked {
		out = append(out, fmt.Sprintf("%s@%d", g.name, g.id))
	}
	sort.Strings(out)
	return out
}

// Run drives the schedule: choices[i] selects (modulo the number of parked
// goroutines, taken in a canonical order) who moves at step i. done reports that
// all scenario goroutines have returned. Returns the number of steps taken.
func (s *Sched) Run(choices []int, done func() bool, budget time.Duration) int {
	settleIv := 150 * time.Microsecond
	start := time.Now()
	steps := 0
	idle := 0
	for time.Since(start) < budget {
		s.settle(settleIv)
		s.mu.Lock()
		n := len(s.parked)
		if n == 0 {
			s.mu.Unlock()
			if done() {
				idle++
				if idle > 6 {
					return steps
				}
			}
			time.Sleep(100 * time.Microsecond)
			continue
		}
		idle = 0
		sort.Slice(s.parked, func(i, j int) bool {
			a, b := s.parked[i], s.parked[j]
			if a.id != b.id {
				return a.id < b.id
			}
			if a.name != b.name {
				return a.name < b.name
			}
			return a.seq < b.seq
		})
		for i := 0; i < n; i++ {
			for j := i + 1; j < n; j++ {
				a, b := s.parked[i].name, s.parked[j].name
				if a > b {
					a, b = b, a
				}
				s.CoPark[a+"|"+b] = true
			}
		}
		c := 0
		if len(choices) > 0 {
			c = choices[steps%len(choices)]
		}
		if c < 0 {
			c = -c
		}
		idx := c % n
		g := s.parked[idx]
		s.parked = append(s.parked[:idx], s.parked[idx+1:]...)
		if len(s.Trace) < 400 {
			s.Trace = append(s.Trace, fmt.Sprintf("%s@%d", g.name, g.id))
		}
		s.gen++
		s.mu.Unlock()
		close(g.ch)
		steps++
	}
	return steps
}
