// Package edfgen generates (type, value) pairs for the EDF codec by construction
// from a type grammar, and provides the equality relation the round-trip law is
// stated in.
package edfgen

import (
	"encoding/binary"
	"errors"
	"fmt"
	"io"
	"reflect"
	"time"

	"ergo.services/ergo/gen"
	"ergo.services/ergo/net/edf"
)

// Registered harness types. Field order and kinds are chosen so that swapping two
// fields, dropping a nil branch or mixing up cache ids changes the decoded value.

type VInt int32
type VUint64 uint64
type VStr string
type VFloat float64
type VBool bool
type VSliceS []string
type VSliceAny []any
type VMap map[string]int64
type VMapAny map[string]any
type VArr [3]int16
type VArrS [2]VStr

type VInner struct {
	X uint16
	Y []VStr
	Z any
	W VInt
}

type VStruct struct {
	A  int
	B  string
	C  any
	D  []int32
	E  map[string]any
	F  [2]bool
	G  VInner
	H  error
	I  time.Time
	J  gen.PID
	K  []byte
	L  VSliceS
	M  gen.Atom
	N  float64
	O  int8
	P  uint8
	Q  gen.Ref
	R  map[gen.Atom]VInner
	S  []VInner
	T  VMap
	U  gen.Alias
	V  gen.Event
	W2 gen.ProcessID
	X2 float32
	Y2 []error
	Z2 VArr
}

type VPair struct {
	First  int64
	Second int64
}

// VMarsh implements edf.Marshaler / edf.Unmarshaler.
type VMarsh struct {
	ID   uint32
	Note string
}

func (m VMarsh) MarshalEDF(w io.Writer) error {
	if m.Note == "refuse" {
		return errors.New("VMarsh refuses")
	}
	var buf [4]byte
	binary.BigEndian.PutUint32(buf[:], m.ID)
	w.Write(buf[:])
	_, err := w.Write([]byte(m.Note))
	return err
}

var _ edf.Marshaler = VMarsh{}
var _ edf.Marshaler = VZeroM{}
var _ edf.Unmarshaler = (*VMarsh)(nil)
var _ edf.Unmarshaler = (*VZeroM)(nil)

func (m *VMarsh) UnmarshalEDF(data []byte) error {
	if len(data) < 4 {
		return errors.New("VMarsh: short")
	}
	m.ID = binary.BigEndian.Uint32(data)
	m.Note = string(data[4:])
	return nil
}

// VBin implements encoding.BinaryMarshaler / BinaryUnmarshaler.
type VBin struct {
	Q uint16
	R []byte
}

func (m VBin) MarshalBinary() ([]byte, error) {
	out := make([]byte, 2, 2+len(m.R))
	binary.BigEndian.PutUint16(out, m.Q)
	return append(out, m.R...), nil
}

func (m *VBin) UnmarshalBinary(data []byte) error {
	if len(data) < 2 {
		return errors.New("VBin: short")
	}
	m.Q = binary.BigEndian.Uint16(data)
	m.R = append([]byte{}, data[2:]...)
	return nil
}

// VEmpty is a registered zero-size type: it takes no bytes on the wire.
type VEmpty struct{}

// VZeroM is a zero-size type with a custom marshaler: it does take bytes on the wire.
type VZeroM struct{}

func (VZeroM) MarshalEDF(w io.Writer) error {
	_, err := w.Write([]byte{0xab, 0xcd})
	return err
}

func (*VZeroM) UnmarshalEDF(data []byte) error {
	if len(data) != 2 || data[0] != 0xab || data[1] != 0xcd {
		return errors.New("VZeroM: bad data")
	}
	return nil
}

// VUnreg is deliberately NOT registered: the encoder must refuse it.
type VUnreg struct{ A int }

// Sentinel errors registered with the codec (cache ids negotiated at handshake).
var (
	ErrSentinelA = errors.New("verif sentinel A")
	ErrSentinelB = errors.New("verif sentinel B: 50% off")
	ErrSentinelC = fmt.Errorf("verif sentinel C wrapped: %w", gen.ErrTimeout)
)

var RegisteredErrors = []error{ErrSentinelA, ErrSentinelB, ErrSentinelC,
	gen.ErrTimeout, gen.ErrProcessUnknown, gen.TerminateReasonNormal, gen.TerminateReasonKill, gen.ErrTaken}

// Atoms registered in the atom cache, and atoms that are not.
var CachedAtoms = []gen.Atom{"verif_cached_1", "verif_cached_2", "node1@localhost", "x"}
var PlainAtoms = []gen.Atom{"", "a", "plain", "node2@localhost", "ünï", "verif_not_cached"}

func init() {
	for _, v := range []any{
		VInt(0), VUint64(0), VStr(""), VFloat(0), VBool(false),
		VSliceS{}, VSliceAny{}, VMap{}, VMapAny{}, VArr{}, VArrS{},
		VInner{}, VStruct{}, VPair{}, VMarsh{}, VBin{}, VEmpty{}, VZeroM{},
	} {
		if err := edf.RegisterTypeOf(v); err != nil && err != gen.ErrTaken {
			panic(fmt.Sprintf("edfgen: register %T: %v", v, err))
		}
	}
	for _, e := range []error{ErrSentinelA, ErrSentinelB, ErrSentinelC} {
		if err := edf.RegisterError(e); err != nil && err != gen.ErrTaken {
			panic(err)
		}
	}
	for _, a := range CachedAtoms {
		if err := edf.RegisterAtom(a); err != nil && err != gen.ErrTaken {
			panic(err)
		}
	}
}

var (
	tAny   = reflect.TypeOf((*any)(nil)).Elem()
	tError = reflect.TypeOf((*error)(nil)).Elem()
	tTime  = reflect.TypeOf(time.Time{})
	tBytes = reflect.TypeOf([]byte(nil))
)

// Leaf types of the grammar.
var leafTypes = []reflect.Type{
	reflect.TypeOf(false), reflect.TypeOf(""), reflect.TypeOf(int(0)), reflect.TypeOf(int8(0)),
	reflect.TypeOf(int16(0)), reflect.TypeOf(int32(0)), reflect.TypeOf(int64(0)),
	reflect.TypeOf(uint(0)), reflect.TypeOf(uint8(0)), reflect.TypeOf(uint16(0)),
	reflect.TypeOf(uint32(0)), reflect.TypeOf(uint64(0)),
	reflect.TypeOf(float32(0)), reflect.TypeOf(float64(0)),
	tBytes, tTime, tAny, tError,
	reflect.TypeOf(gen.Atom("")), reflect.TypeOf(gen.PID{}), reflect.TypeOf(gen.ProcessID{}),
	reflect.TypeOf(gen.Ref{}), reflect.TypeOf(gen.Alias{}), reflect.TypeOf(gen.Event{}),
	reflect.TypeOf(VInt(0)), reflect.TypeOf(VUint64(0)), reflect.TypeOf(VStr("")), reflect.TypeOf(VFloat(0)),
	reflect.TypeOf(VBool(false)), reflect.TypeOf(VSliceS{}), reflect.TypeOf(VSliceAny{}),
	reflect.TypeOf(VMap{}), reflect.TypeOf(VMapAny{}), reflect.TypeOf(VArr{}), reflect.TypeOf(VArrS{}),
	reflect.TypeOf(VInner{}), reflect.TypeOf(VStruct{}), reflect.TypeOf(VPair{}),
	reflect.TypeOf(VMarsh{}), reflect.TypeOf(VBin{}), reflect.TypeOf(VEmpty{}), reflect.TypeOf(VZeroM{}),
	// framework-registered types
	reflect.TypeOf(gen.Version{}), reflect.TypeOf(gen.MessageEvent{}), reflect.TypeOf(gen.LogLevel(0)),
	reflect.TypeOf(gen.Env("")), reflect.TypeOf(gen.Compression{}), reflect.TypeOf(gen.ProcessFallback{}),
}

// Types usable as map keys (comparable, and equality-friendly).
var keyTypes = []reflect.Type{
	reflect.TypeOf(""), reflect.TypeOf(int(0)), reflect.TypeOf(int16(0)), reflect.TypeOf(uint8(0)),
	reflect.TypeOf(uint64(0)), reflect.TypeOf(false), reflect.TypeOf(gen.Atom("")),
	reflect.TypeOf(gen.PID{}), reflect.TypeOf(VInt(0)), reflect.TypeOf(VStr("")), reflect.TypeOf(VPair{}),
	reflect.TypeOf(VArr{}), tAny, reflect.TypeOf(gen.Alias{}), reflect.TypeOf(float64(0)),
}

// Dynamic types allowed inside an interface-typed map key.
var anyKeyTypes = []reflect.Type{
	reflect.TypeOf(""), reflect.TypeOf(int(0)), reflect.TypeOf(int8(0)), reflect.TypeOf(uint16(0)),
	reflect.TypeOf(gen.Atom("")), reflect.TypeOf(VInt(0)), reflect.TypeOf(VPair{}), reflect.TypeOf(false),
}
