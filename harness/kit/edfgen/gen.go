package edfgen

import (
	"errors"
	"fmt"
	"math"
	"reflect"
	"strings"
	"time"

	"ergo.services/ergo/gen"
	"pgregory.net/rapid"
)

// Case is one generated value together with what the generator knows about it.
type Case struct {
	Value      any
	Depth      int      // nesting depth of composite types/values
	Boundaries []string // boundary injectors used (in-range ones)
	OutOfRange []string // injected values beyond a documented encoder limit: Encode must refuse
	Desc       string
}

type gstate struct {
	t        *rapid.T
	c        *Case
	allowOOR bool
	big      bool // allow large (≥64 KiB) payloads
	maxDepth int
}

// Options for Generate.
type Options struct {
	AllowOutOfRange bool
	AllowBig        bool
	MaxDepth        int
}

// Generate draws a (type, value) pair.
func Generate(t *rapid.T, o Options) *Case {
	if o.MaxDepth == 0 {
		o.MaxDepth = 4
	}
	g := &gstate{t: t, c: &Case{}, allowOOR: o.AllowOutOfRange, big: o.AllowBig, maxDepth: o.MaxDepth}
	typ := g.genType(0, false)
	v := g.genValue(typ, 0)
	// Encode takes `any`: a nil interface value cannot be encoded ("nothing to encode"),
	// so top-level interface-typed values are unwrapped.
	for v.Kind() == reflect.Interface && !v.IsNil() {
		v = v.Elem()
	}
	if v.Kind() == reflect.Interface && v.IsNil() {
		v = reflect.ValueOf(int(0))
	}
	g.c.Value = v.Interface()
	g.c.Desc = fmt.Sprintf("%v", v.Type())
	g.c.Boundaries, g.c.OutOfRange = Scan(g.c.Value)
	return g.c
}

func (g *gstate) depth(d int) {
	if d > g.c.Depth {
		g.c.Depth = d
	}
}

func (g *gstate) genType(d int, key bool) reflect.Type {
	if key {
		return rapid.SampledFrom(keyTypes).Draw(g.t, "keytype")
	}
	kind := 0
	if d < g.maxDepth {
		kind = rapid.IntRange(0, 9).Draw(g.t, "shape")
	}
	switch kind {
	case 4, 5, 6: // slice
		g.depth(d + 1)
		return reflect.SliceOf(g.genType(d+1, false))
	case 7: // array
		g.depth(d + 1)
		n := rapid.IntRange(0, 4).Draw(g.t, "arraylen")
		return reflect.ArrayOf(n, g.genType(d+1, false))
	case 8, 9: // map
		g.depth(d + 1)
		k := g.genType(d+1, true)
		return reflect.MapOf(k, g.genType(d+1, false))
	}
	return rapid.SampledFrom(leafTypes).Draw(g.t, "leaftype")
}

func (g *gstate) atom() gen.Atom {
	switch rapid.IntRange(0, 9).Draw(g.t, "atomkind") {
	case 0, 1, 2:
		return rapid.SampledFrom(CachedAtoms).Draw(g.t, "cachedatom")
	case 3, 4, 5:
		return rapid.SampledFrom(PlainAtoms).Draw(g.t, "plainatom")
	case 6:
		return gen.Atom(strings.Repeat("z", 255))
	case 7:
		if g.allowOOR {
			return gen.Atom(strings.Repeat("z", 256))
		}
		return "q"
	}
	return gen.Atom(rapid.StringN(0, 20, 40).Draw(g.t, "atom"))
}

func (g *gstate) str() string {
	k := rapid.IntRange(0, 29).Draw(g.t, "strkind")
	switch {
	case k == 0 && g.big:
		n := rapid.SampledFrom([]int{65533, 65534, 65535}).Draw(g.t, "strboundary")
		return strings.Repeat("s", n)
	case k == 1 && g.big && g.allowOOR:
		return strings.Repeat("s", 65536)
	case k == 2:
		return "100% sure %d %s %!"
	case k == 3:
		return ""
	}
	return rapid.StringN(0, 24, 64).Draw(g.t, "str")
}

func (g *gstate) err() error {
	k := rapid.IntRange(0, 11).Draw(g.t, "errkind")
	switch k {
	case 0, 1, 2:
		return rapid.SampledFrom(RegisteredErrors).Draw(g.t, "regerr")
	case 3:
		return errors.New("plain error")
	case 4:
		return fmt.Errorf("wrapped: %w", errors.New("inner"))
	case 5:
		return errors.New("100% sure %s %d %v %!")
	case 6:
		return errors.New("")
	case 7:
		if g.big {
			return errors.New(strings.Repeat("e", 32767))
		}
	case 8:
		if g.big && g.allowOOR {
			return errors.New(strings.Repeat("e", 32768))
		}
	case 9:
		return fmt.Errorf("wrapped sentinel: %w", ErrSentinelA)
	}
	return errors.New(rapid.StringN(0, 16, 40).Draw(g.t, "errtext"))
}

var zones = []*time.Location{time.UTC, time.FixedZone("", 3600), time.FixedZone("X", -5*3600-30*60), time.FixedZone("Y", 14*3600)}

func (g *gstate) time() time.Time {
	switch rapid.IntRange(0, 5).Draw(g.t, "timekind") {
	case 0:
		return time.Time{}
	case 1:
		return time.Unix(0, 0).UTC()
	}
	sec := rapid.Int64Range(-62135596800, 253402300799).Draw(g.t, "sec")
	nsec := rapid.Int64Range(0, 999999999).Draw(g.t, "nsec")
	z := rapid.SampledFrom(zones).Draw(g.t, "zone")
	return time.Unix(sec, nsec).In(z)
}

func (g *gstate) f64() float64 {
	switch rapid.IntRange(0, 7).Draw(g.t, "fkind") {
	case 0:
		return math.NaN()
	case 1:
		return math.Float64frombits(0x7ff8000000000001 | uint64(rapid.Uint32().Draw(g.t, "nanpayload")))
	case 2:
		return math.Inf(-1)
	case 3:
		return math.Copysign(0, -1)
	case 4:
		return math.SmallestNonzeroFloat64
	}
	return rapid.Float64().Draw(g.t, "f64")
}

func (g *gstate) f32() float32 {
	switch rapid.IntRange(0, 5).Draw(g.t, "f32kind") {
	case 0:
		return float32(math.NaN())
	case 1:
		return math.Float32frombits(0x7fc00001 | rapid.Uint32Range(0, 0xffff).Draw(g.t, "nanpayload32"))
	case 2:
		return float32(math.Inf(1))
	}
	return rapid.Float32().Draw(g.t, "f32")
}

func (g *gstate) length(d int) int {
	max := 5
	if d >= 2 {
		max = 3
	}
	return rapid.IntRange(0, max).Draw(g.t, "len")
}

func (g *gstate) genValue(typ reflect.Type, d int) reflect.Value {
	g.depth(d)
	v := reflect.New(typ).Elem()
	// exact types first
	switch typ {
	case tTime:
		v.Set(reflect.ValueOf(g.time()))
		return v
	case tBytes:
		switch rapid.IntRange(0, 9).Draw(g.t, "byteskind") {
		case 0:
			return v // nil
		case 1:
			v.SetBytes([]byte{})
		case 2:
			if g.big {
				n := rapid.SampledFrom([]int{4095, 4096, 65535, 65536, 70000}).Draw(g.t, "bytesbig")
				b := make([]byte, n)
				for i := range b {
					b[i] = byte(i * 7)
				}
				v.SetBytes(b)
				return v
			}
			fallthrough
		default:
			v.SetBytes(rapid.SliceOfN(rapid.Byte(), 0, 40).Draw(g.t, "bytes"))
		}
		return v
	case tAny:
		if d >= g.maxDepth+1 || rapid.IntRange(0, 7).Draw(g.t, "anynil") == 0 {
			return v // nil interface
		}
		et := g.genType(d+1, false)
		if et == tAny {
			et = reflect.TypeOf(int(0))
		}
		ev := g.genValue(et, d+1)
		if ev.Kind() == reflect.Interface { // error-typed value: store the dynamic value
			if ev.IsNil() {
				return v
			}
			ev = ev.Elem()
		}
		v.Set(ev)
		return v
	case tError:
		if rapid.IntRange(0, 5).Draw(g.t, "errnil") == 0 {
			return v
		}
		v.Set(reflect.ValueOf(g.err()))
		return v
	case reflect.TypeOf(gen.Atom("")):
		v.SetString(string(g.atom()))
		return v
	case reflect.TypeOf(gen.PID{}):
		v.Set(reflect.ValueOf(gen.PID{Node: g.atom(), ID: rapid.Uint64().Draw(g.t, "pidid"), Creation: rapid.Int64().Draw(g.t, "creation")}))
		return v
	case reflect.TypeOf(gen.ProcessID{}):
		v.Set(reflect.ValueOf(gen.ProcessID{Name: g.atom(), Node: g.atom()}))
		return v
	case reflect.TypeOf(gen.Event{}):
		v.Set(reflect.ValueOf(gen.Event{Name: g.atom(), Node: g.atom()}))
		return v
	case reflect.TypeOf(gen.Ref{}):
		v.Set(reflect.ValueOf(gen.Ref{Node: g.atom(), Creation: rapid.Int64().Draw(g.t, "creation"),
			ID: [3]uint64{rapid.Uint64().Draw(g.t, "id0"), rapid.Uint64().Draw(g.t, "id1"), rapid.Uint64().Draw(g.t, "id2")}}))
		return v
	case reflect.TypeOf(gen.Alias{}):
		v.Set(reflect.ValueOf(gen.Alias{Node: g.atom(), Creation: rapid.Int64().Draw(g.t, "creation"),
			ID: [3]uint64{rapid.Uint64().Draw(g.t, "id0"), rapid.Uint64().Draw(g.t, "id1"), rapid.Uint64().Draw(g.t, "id2")}}))
		return v
	case reflect.TypeOf(VMarsh{}):
		note := rapid.StringN(0, 10, 30).Draw(g.t, "note")
		// a marshaler that writes more than the encoder's buffer holds at that moment (the
		// buffer grows in 4096-byte steps): the length prefix must land in the grown buffer
		if n := rapid.SampledFrom([]int{0, 0, 0, 0, 0, 0, 3000, 4090, 5000, 9000, 70000}).Draw(g.t, "big-note"); n > 0 {
			note = strings.Repeat("m", n) + note
		}
		v.Set(reflect.ValueOf(VMarsh{ID: rapid.Uint32().Draw(g.t, "mid"), Note: note}))
		return v
	case reflect.TypeOf(VBin{}):
		// VBin.R is always non-nil after UnmarshalBinary; generate the canonical form
		v.Set(reflect.ValueOf(VBin{Q: rapid.Uint16().Draw(g.t, "q"), R: append([]byte{}, rapid.SliceOfN(rapid.Byte(), 0, 12).Draw(g.t, "r")...)}))
		return v
	}

	switch typ.Kind() {
	case reflect.Bool:
		v.SetBool(rapid.Bool().Draw(g.t, "bool"))
	case reflect.Int, reflect.Int64:
		v.SetInt(rapid.OneOf(rapid.Int64(), rapid.SampledFrom([]int64{0, -1, math.MaxInt64, math.MinInt64})).Draw(g.t, "i64"))
	case reflect.Int8:
		v.SetInt(int64(rapid.Int8().Draw(g.t, "i8")))
	case reflect.Int16:
		v.SetInt(int64(rapid.Int16().Draw(g.t, "i16")))
	case reflect.Int32:
		v.SetInt(int64(rapid.Int32().Draw(g.t, "i32")))
	case reflect.Uint, reflect.Uint64:
		v.SetUint(rapid.OneOf(rapid.Uint64(), rapid.SampledFrom([]uint64{0, math.MaxUint64, 1 << 63})).Draw(g.t, "u64"))
	case reflect.Uint8:
		v.SetUint(uint64(rapid.Uint8().Draw(g.t, "u8")))
	case reflect.Uint16:
		v.SetUint(uint64(rapid.Uint16().Draw(g.t, "u16")))
	case reflect.Uint32:
		v.SetUint(uint64(rapid.Uint32().Draw(g.t, "u32")))
	case reflect.Float32:
		v.SetFloat(float64(g.f32()))
	case reflect.Float64:
		v.SetFloat(g.f64())
	case reflect.String:
		v.SetString(g.str())
	case reflect.Struct:
		for i := 0; i < typ.NumField(); i++ {
			v.Field(i).Set(g.genValue(typ.Field(i).Type, d+1))
		}
	case reflect.Array:
		for i := 0; i < typ.Len(); i++ {
			v.Index(i).Set(g.genValue(typ.Elem(), d+1))
		}
	case reflect.Slice:
		switch rapid.IntRange(0, 6).Draw(g.t, "slicekind") {
		case 0:
			return v // nil slice
		case 1:
			v.Set(reflect.MakeSlice(typ, 0, 0))
			return v
		case 2:
			if g.big && d <= 1 {
				// long and sparse: hundreds to thousands of zero elements (nil slices, nil maps, zero
				// structs take a byte or so on the wire and tens of bytes in memory) and a few real ones
				n := rapid.SampledFrom([]int{513, 700, 2000, 6000}).Draw(g.t, "sparse-len")
				s := reflect.MakeSlice(typ, n, n)
				for k := rapid.IntRange(0, 3).Draw(g.t, "sparse-filled"); k > 0; k-- {
					s.Index(rapid.IntRange(0, n-1).Draw(g.t, "sparse-at")).Set(g.genValue(typ.Elem(), d+1))
				}
				v.Set(s)
				return v
			}
		}
		n := g.length(d)
		s := reflect.MakeSlice(typ, n, n)
		for i := 0; i < n; i++ {
			s.Index(i).Set(g.genValue(typ.Elem(), d+1))
		}
		v.Set(s)
	case reflect.Map:
		switch rapid.IntRange(0, 6).Draw(g.t, "mapkind") {
		case 0:
			return v // nil map
		case 1:
			v.Set(reflect.MakeMap(typ))
			return v
		}
		n := g.length(d)
		m := reflect.MakeMap(typ)
		for i := 0; i < n; i++ {
			k := g.genKey(typ.Key(), d+1)
			m.SetMapIndex(k, g.genValue(typ.Elem(), d+1))
		}
		v.Set(m)
	default:
		panic(fmt.Sprintf("edfgen: unsupported kind %v", typ))
	}
	return v
}

// genKey generates a map key: comparable, never NaN (a NaN key can never be looked
// up again in Go, so equality of such maps is not a meaningful question).
func (g *gstate) genKey(typ reflect.Type, d int) reflect.Value {
	if typ == tAny {
		kt := rapid.SampledFrom(anyKeyTypes).Draw(g.t, "anykeytype")
		v := reflect.New(typ).Elem()
		v.Set(g.genValue(kt, d))
		return v
	}
	if typ.Kind() == reflect.Float64 {
		v := reflect.New(typ).Elem()
		v.SetFloat(rapid.Float64Range(-1e9, 1e9).Draw(g.t, "fkey"))
		return v
	}
	return g.genValue(typ, d)
}
