package edfgen

import (
	"bytes"
	"fmt"
	"math"
	"reflect"
	"sort"
	"time"

	"ergo.services/ergo/gen"
)

// EqOptions tunes the equality relation of the round-trip law.
type EqOptions struct {
	// SentinelIdentity: registered sentinel errors must come back as the very same
	// error value (true when both sides share an error cache).
	SentinelIdentity bool
}

func isSentinel(e error) bool {
	for _, s := range RegisteredErrors {
		if s == e {
			return true
		}
	}
	return false
}

// Equal reports nil if got is an acceptable decoding of want:
// same type, deep equality, with NaN compared by bit pattern, time.Time by instant
// and zone offset, errors by text (registered sentinels by identity when cached),
// nil and empty collections kept apart except for []byte.
func Equal(want, got any, o EqOptions) error {
	if want == nil || got == nil {
		if want == nil && got == nil {
			return nil
		}
		return fmt.Errorf("nil mismatch: want %T got %T", want, got)
	}
	wv, gv := reflect.ValueOf(want), reflect.ValueOf(got)
	if we, ok := want.(error); ok {
		ge, ok := got.(error)
		if !ok {
			return fmt.Errorf("want error, got %T", got)
		}
		return eqErr(we, ge, o, "$")
	}
	return eqVal(wv, gv, o, "$")
}

func eqErr(we, ge error, o EqOptions, path string) error {
	if o.SentinelIdentity && isSentinel(we) {
		if we != ge {
			return fmt.Errorf("%s: registered sentinel %q came back as a different error value %q (%T)", path, we, ge, ge)
		}
		return nil
	}
	if we.Error() != ge.Error() {
		return fmt.Errorf("%s: error text %q != %q", path, trunc(we.Error()), trunc(ge.Error()))
	}
	return nil
}

func trunc(s string) string {
	if len(s) > 80 {
		return fmt.Sprintf("%s…(len %d)", s[:80], len(s))
	}
	return s
}

func eqVal(w, g reflect.Value, o EqOptions, path string) error {
	if w.Type() == tError || g.Type() == tError {
		// error-typed slot
		if w.Type() != g.Type() {
			return fmt.Errorf("%s: type %v != %v", path, w.Type(), g.Type())
		}
		if w.IsNil() || g.IsNil() {
			if w.IsNil() != g.IsNil() {
				return fmt.Errorf("%s: nil error mismatch (want nil=%v got nil=%v)", path, w.IsNil(), g.IsNil())
			}
			return nil
		}
		return eqErr(w.Interface().(error), g.Interface().(error), o, path)
	}
	if w.Type() != g.Type() {
		// dynamic error values inside an interface lose their concrete type
		if we, ok := w.Interface().(error); ok {
			if ge, ok := g.Interface().(error); ok {
				return eqErr(we, ge, o, path)
			}
		}
		return fmt.Errorf("%s: type %v != %v", path, w.Type(), g.Type())
	}
	if w.Kind() != reflect.Interface && w.Type().Implements(tError) {
		if w.Kind() == reflect.Pointer && (w.IsNil() || g.IsNil()) {
			if w.IsNil() != g.IsNil() {
				return fmt.Errorf("%s: nil error mismatch", path)
			}
			return nil
		}
		return eqErr(w.Interface().(error), g.Interface().(error), o, path)
	}
	switch w.Type() {
	case tTime:
		wt, gt := w.Interface().(time.Time), g.Interface().(time.Time)
		_, wo := wt.Zone()
		_, go_ := gt.Zone()
		if !wt.Equal(gt) || wo != go_ {
			return fmt.Errorf("%s: time %v != %v", path, wt, gt)
		}
		return nil
	case tBytes:
		if !bytes.Equal(w.Bytes(), g.Bytes()) {
			return fmt.Errorf("%s: bytes differ (len %d vs %d)", path, w.Len(), g.Len())
		}
		return nil
	}
	switch w.Kind() {
	case reflect.Float32:
		if math.Float32bits(float32(w.Float())) != math.Float32bits(float32(g.Float())) {
			return fmt.Errorf("%s: float32 bits %x != %x", path, math.Float32bits(float32(w.Float())), math.Float32bits(float32(g.Float())))
		}
	case reflect.Float64:
		if math.Float64bits(w.Float()) != math.Float64bits(g.Float()) {
			return fmt.Errorf("%s: float64 bits %x != %x", path, math.Float64bits(w.Float()), math.Float64bits(g.Float()))
		}
	case reflect.Bool:
		if w.Bool() != g.Bool() {
			return fmt.Errorf("%s: bool", path)
		}
	case reflect.Int, reflect.Int8, reflect.Int16, reflect.Int32, reflect.Int64:
		if w.Int() != g.Int() {
			return fmt.Errorf("%s: int %d != %d", path, w.Int(), g.Int())
		}
	case reflect.Uint, reflect.Uint8, reflect.Uint16, reflect.Uint32, reflect.Uint64:
		if w.Uint() != g.Uint() {
			return fmt.Errorf("%s: uint %d != %d", path, w.Uint(), g.Uint())
		}
	case reflect.String:
		if w.String() != g.String() {
			return fmt.Errorf("%s: string %q != %q", path, trunc(w.String()), trunc(g.String()))
		}
	case reflect.Interface:
		if w.IsNil() || g.IsNil() {
			if w.IsNil() != g.IsNil() {
				return fmt.Errorf("%s: nil interface mismatch (want nil=%v, got nil=%v)", path, w.IsNil(), g.IsNil())
			}
			return nil
		}
		return eqVal(w.Elem(), g.Elem(), o, path+".(any)")
	case reflect.Struct:
		for i := 0; i < w.NumField(); i++ {
			if err := eqVal(w.Field(i), g.Field(i), o, path+"."+w.Type().Field(i).Name); err != nil {
				return err
			}
		}
	case reflect.Array:
		if w.Type().Elem().Size() == 0 {
			return nil // zero-size elements have a single value
		}
		for i := 0; i < w.Len(); i++ {
			if err := eqVal(w.Index(i), g.Index(i), o, fmt.Sprintf("%s[%d]", path, i)); err != nil {
				return err
			}
		}
	case reflect.Slice:
		if w.IsNil() != g.IsNil() {
			return fmt.Errorf("%s: nil vs empty slice (want nil=%v, got nil=%v, type %v)", path, w.IsNil(), g.IsNil(), w.Type())
		}
		if w.Len() != g.Len() {
			return fmt.Errorf("%s: slice len %d != %d", path, w.Len(), g.Len())
		}
		if w.Type().Elem().Size() == 0 {
			return nil // zero-size elements have a single value
		}
		for i := 0; i < w.Len(); i++ {
			if err := eqVal(w.Index(i), g.Index(i), o, fmt.Sprintf("%s[%d]", path, i)); err != nil {
				return err
			}
		}
	case reflect.Map:
		if w.IsNil() != g.IsNil() {
			return fmt.Errorf("%s: nil vs empty map (want nil=%v, got nil=%v, type %v)", path, w.IsNil(), g.IsNil(), w.Type())
		}
		if w.Len() != g.Len() {
			return fmt.Errorf("%s: map len %d != %d", path, w.Len(), g.Len())
		}
		it := w.MapRange()
		for it.Next() {
			gvv := g.MapIndex(it.Key())
			if !gvv.IsValid() && (w.Type().Key().Kind() == reflect.Interface) {
				// keys of interface type that hold pointers (an error value is a fresh pointer after
				// every decode) cannot be looked up by identity: find the equal key instead
				git := g.MapRange()
				for git.Next() {
					if eqVal(it.Key(), git.Key(), o, path+"[key]") == nil {
						gvv = git.Value()
						break
					}
				}
			}
			if !gvv.IsValid() {
				return fmt.Errorf("%s: key %v missing", path, trunc(fmt.Sprint(it.Key())))
			}
			if err := eqVal(it.Value(), gvv, o, fmt.Sprintf("%s[%s]", path, trunc(fmt.Sprint(it.Key())))); err != nil {
				return err
			}
		}
	default:
		return fmt.Errorf("%s: unsupported kind %v", path, w.Kind())
	}
	return nil
}

// Scan walks a value and reports which documented encoder limits it sits on
// (boundaries, still encodable) or beyond (out of range: Encode must refuse).
func Scan(x any) (boundaries, oor []string) {
	seenB, seenO := map[string]bool{}, map[string]bool{}
	var walk func(v reflect.Value)
	atom := func(n int) {
		if n == 255 {
			seenB["atom255"] = true
		}
		if n > 255 {
			seenO["atom>255"] = true
		}
	}
	walk = func(v reflect.Value) {
		if !v.IsValid() {
			return
		}
		if v.Type() == tError || (v.Kind() != reflect.Interface && v.Type().Implements(tError)) {
			if (v.Kind() == reflect.Interface || v.Kind() == reflect.Pointer) && v.IsNil() {
				return
			}
			n := len(v.Interface().(error).Error())
			if n == 32767 {
				seenB["error32767"] = true
			}
			if n > 32767 {
				seenO["error>32767"] = true
			}
			return
		}
		switch v.Type() {
		case tTime, reflect.TypeOf(VMarsh{}), reflect.TypeOf(VBin{}):
			return
		case tBytes:
			if v.Len() >= 4095 {
				seenB[fmt.Sprintf("bytes%d", v.Len())] = true
			}
			return
		case reflect.TypeOf(gen.Atom("")):
			atom(v.Len())
			return
		}
		switch v.Kind() {
		case reflect.String:
			if v.Len() >= 65533 && v.Len() <= 65535 {
				seenB[fmt.Sprintf("string%d", v.Len())] = true
			}
			if v.Len() > 65535 {
				seenO["string>65535"] = true
			}
		case reflect.Interface:
			if !v.IsNil() {
				walk(v.Elem())
			}
		case reflect.Struct:
			for i := 0; i < v.NumField(); i++ {
				walk(v.Field(i))
			}
		case reflect.Array, reflect.Slice:
			for i := 0; i < v.Len(); i++ {
				walk(v.Index(i))
			}
		case reflect.Map:
			it := v.MapRange()
			for it.Next() {
				walk(it.Key())
				walk(it.Value())
			}
		}
	}
	walk(reflect.ValueOf(x))
	for k := range seenB {
		boundaries = append(boundaries, k)
	}
	for k := range seenO {
		oor = append(oor, k)
	}
	sort.Strings(boundaries)
	sort.Strings(oor)
	return
}
