package edfgen

import (
	"sync"

	"ergo.services/ergo/gen"
	"ergo.services/ergo/net/edf"
)

// Config is a pair of codec options: what the sender encodes with and what the
// receiver decodes with, as two connected nodes would hold them.
type Config struct {
	Name string
	Enc  edf.Options
	Dec  edf.Options
	Eq   EqOptions
}

func atomCaches() (enc, dec *sync.Map) {
	enc, dec = new(sync.Map), new(sync.Map)
	for id, a := range edf.GetAtomCache() {
		enc.Store(a, id)
		dec.Store(id, a)
	}
	return
}

func regCaches() (enc, dec *sync.Map) {
	names := []string{}
	dec = new(sync.Map)
	for id, name := range edf.GetRegCache() {
		names = append(names, name)
		dec.Store(id, name)
	}
	return edf.MakeEncodeRegTypeCache(names), dec
}

func errCaches() (enc, dec *sync.Map) {
	enc, dec = new(sync.Map), new(sync.Map)
	for id, e := range edf.GetErrCache() {
		enc.Store(e, id)
		dec.Store(id, e)
	}
	return
}

// MappedAtom is what the atom mapping turns "verif_cached_1"/"plain" into on the wire.
var mapping = map[gen.Atom]gen.Atom{"plain": "verif_wire_plain", "verif_cached_2": "verif_wire_c2"}

func mappingCaches() (enc, dec *sync.Map) {
	enc, dec = new(sync.Map), new(sync.Map)
	for k, v := range mapping {
		enc.Store(k, v)
		dec.Store(v, k)
	}
	return
}

// Configs returns fresh option pairs (fresh common caches) for every cache configuration.
func Configs() []Config {
	ae, ad := atomCaches()
	re, rd := regCaches()
	ee, ed := errCaches()
	me, md := mappingCaches()
	return []Config{
		{Name: "none"},
		{Name: "atom", Enc: edf.Options{AtomCache: ae}, Dec: edf.Options{AtomCache: ad}},
		{Name: "reg", Enc: edf.Options{RegCache: re}, Dec: edf.Options{RegCache: rd}},
		{Name: "err", Enc: edf.Options{ErrCache: ee}, Dec: edf.Options{ErrCache: ed}, Eq: EqOptions{SentinelIdentity: true}},
		{Name: "common", Enc: edf.Options{Cache: new(sync.Map)}, Dec: edf.Options{Cache: new(sync.Map)}},
		{Name: "all", Enc: edf.Options{AtomCache: ae, RegCache: re, ErrCache: ee, Cache: new(sync.Map)},
			Dec: edf.Options{AtomCache: ad, RegCache: rd, ErrCache: ed, Cache: new(sync.Map)}, Eq: EqOptions{SentinelIdentity: true}},
		{Name: "mapping", Enc: edf.Options{AtomMapping: me, AtomCache: ae, Cache: new(sync.Map)},
			Dec: edf.Options{AtomMapping: md, AtomCache: ad, Cache: new(sync.Map)}},
	}
}
