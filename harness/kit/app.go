package kit

import (
	"sync"

	"ergo.services/ergo/gen"
)

// App is an instrumented gen.ApplicationBehavior.
type App struct {
	Label string
	Probe *Probe
	Spec  gen.ApplicationSpec
	mu    sync.Mutex
	// callback bookkeeping
	Starts     []gen.ApplicationMode
	Terminates []error
	OnStart    func(mode gen.ApplicationMode)
	OnTerm     func(reason error)
}

func (a *App) Load(node gen.Node, args ...any) (gen.ApplicationSpec, error) {
	return a.Spec, nil
}

func (a *App) Start(mode gen.ApplicationMode) {
	a.mu.Lock()
	a.Starts = append(a.Starts, mode)
	a.mu.Unlock()
	if a.Probe != nil {
		a.Probe.add(Event{Proc: a.Label, Kind: "app-start", Msg: mode})
	}
	if a.OnStart != nil {
		a.OnStart(mode)
	}
}

func (a *App) Terminate(reason error) {
	a.mu.Lock()
	a.Terminates = append(a.Terminates, reason)
	a.mu.Unlock()
	if a.Probe != nil {
		a.Probe.add(Event{Proc: a.Label, Kind: "app-terminate", Reason: reason})
	}
	if a.OnTerm != nil {
		a.OnTerm(reason)
	}
}

// Counts returns how often Start and Terminate ran.
func (a *App) Counts() (int, int) {
	a.mu.Lock()
	defer a.mu.Unlock()
	return len(a.Starts), len(a.Terminates)
}

func (a *App) LastReason() error {
	a.mu.Lock()
	defer a.mu.Unlock()
	if len(a.Terminates) == 0 {
		return nil
	}
	return a.Terminates[len(a.Terminates)-1]
}
