package kit

import (
	"bufio"
	"fmt"
	"os"
	"path/filepath"
	"strings"
	"sync"
)

// Known findings file: one entry per line,
//
//	open: property=C16 signature=<sig> <what fails>
//	fixed: property=C11 <commit> <what failed>
//
// Only "open" lines suppress anything, and only the exact signature they name.
// The file is committed under /verif and never written by a check.

type knownEntry struct {
	Property, Signature, What string
}

var (
	knownOnce sync.Once
	knownOpen []knownEntry
)

func knownFile() string {
	if p := os.Getenv("VERIF_KNOWN"); p != "" {
		return p
	}
	return "/verif/known_findings.txt"
}

func loadKnown() {
	f, err := os.Open(knownFile())
	if err != nil {
		return
	}
	defer f.Close()
	sc := bufio.NewScanner(f)
	for sc.Scan() {
		line := strings.TrimSpace(sc.Text())
		if !strings.HasPrefix(line, "open:") {
			continue
		}
		fields := strings.Fields(strings.TrimPrefix(line, "open:"))
		var e knownEntry
		rest := []string{}
		for _, fl := range fields {
			switch {
			case strings.HasPrefix(fl, "property=") && e.Property == "":
				e.Property = strings.TrimPrefix(fl, "property=")
			case strings.HasPrefix(fl, "signature=") && e.Signature == "":
				e.Signature = strings.TrimPrefix(fl, "signature=")
			default:
				rest = append(rest, fl)
			}
		}
		e.What = strings.Join(rest, " ")
		if e.Property != "" && e.Signature != "" {
			knownOpen = append(knownOpen, e)
		}
	}
}

// IsKnown reports whether (property, signature) is listed as an open finding.
func IsKnown(property, signature string) bool {
	knownOnce.Do(loadKnown)
	for _, e := range knownOpen {
		if e.Property == property && e.Signature == signature {
			return true
		}
	}
	return false
}

// KnownWhat returns the text of an open finding.
func KnownWhat(property, signature string) string {
	knownOnce.Do(loadKnown)
	for _, e := range knownOpen {
		if e.Property == property && e.Signature == signature {
			return e.What
		}
	}
	return ""
}

// SaveReplay writes a replay artefact for a violation found outside rapid's own
// fail-file mechanism (stress runs, fuzz crashers, child-process crashes) and
// prints the marker line the driver turns into "VIOLATION property=… replay=…".
func SaveReplay(property, name string, content []byte, msg string) string {
	dir := os.Getenv("VERIF_REPLAYS")
	if dir == "" {
		dir = filepath.Join(os.TempDir(), "verif-replays")
	}
	dir = filepath.Join(dir, property)
	os.MkdirAll(dir, 0o755)
	path := filepath.Join(dir, fmt.Sprintf("%s-%d.replay", name, os.Getpid()))
	os.WriteFile(path, content, 0o644)
	fmt.Printf("VERIF-VIOLATION property=%s replay=%s %s\n", property, path, strings.ReplaceAll(msg, "\n", " | "))
	return path
}
