package kit

import (
	"fmt"

	"ergo.services/ergo/act"
	"ergo.services/ergo/gen"
)

// WebConfig configures an instrumented act.WebWorker (used as a plain process: messages,
// requests, events, inspect requests; its mailbox loop is a copy of the actor's).
type WebConfig struct {
	Label  string
	Probe  *Probe
	SpinNs int64
}

// Web is an instrumented act.WebWorker.
type Web struct {
	act.WebWorker
	Cfg *WebConfig
	g   guard
}

func WebFactory(cfg *WebConfig) gen.ProcessFactory {
	return func() gen.ProcessBehavior { return &Web{Cfg: cfg} }
}

// DoWeb executes F inside the web worker process.
type DoWeb struct {
	F    func(w *Web)
	Done chan struct{}
}

func (w *Web) rec(kind string, from gen.PID, msg any, reason error, st int64) {
	end := w.g.exit(w.Cfg.Probe)
	w.Cfg.Probe.add(Event{Proc: w.Cfg.Label, PID: w.PID(), Kind: kind, From: from, Msg: msg, Reason: reason, Start: st, End: end})
}

func (w *Web) Init(args ...any) (err error) {
	st := w.g.enter(w.Cfg.Probe, w.Cfg.Label, "init")
	defer func() { w.rec("init", w.Parent(), nil, err, st) }()
	spin(w.Cfg.SpinNs)
	return nil
}

func (w *Web) HandleMessage(from gen.PID, message any) (err error) {
	st := w.g.enter(w.Cfg.Probe, w.Cfg.Label, "msg")
	defer func() {
		if r := recover(); r != nil {
			w.rec("msg", from, message, fmt.Errorf("panic: %v", r), st)
			panic(r)
		}
		w.rec("msg", from, message, err, st)
	}()
	spin(w.Cfg.SpinNs)
	parkIf(message)
	switch m := message.(type) {
	case DoWeb:
		m.F(w)
		if m.Done != nil {
			close(m.Done)
		}
		return nil
	case Gate:
		if m.Entered != nil {
			close(m.Entered)
		}
		<-m.Open
		return nil
	case Stop:
		return m.Reason
	case Boom:
		panic("verif: boom")
	}
	return nil
}

func (w *Web) HandleCall(from gen.PID, ref gen.Ref, request any) (res any, err error) {
	st := w.g.enter(w.Cfg.Probe, w.Cfg.Label, "call")
	defer func() { w.rec("call", from, request, err, st) }()
	spin(w.Cfg.SpinNs)
	parkIf(request)
	switch m := request.(type) {
	case Stop:
		return nil, m.Reason
	case Boom:
		panic("verif: boom")
	}
	return request, nil
}

func (w *Web) HandleEvent(message gen.MessageEvent) (err error) {
	st := w.g.enter(w.Cfg.Probe, w.Cfg.Label, "event")
	defer func() { w.rec("event", gen.PID{}, message, err, st) }()
	spin(w.Cfg.SpinNs)
	return nil
}

func (w *Web) HandleInspect(from gen.PID, item ...string) map[string]string {
	st := w.g.enter(w.Cfg.Probe, w.Cfg.Label, "inspect")
	defer func() { w.rec("inspect", from, item, nil, st) }()
	spin(w.Cfg.SpinNs)
	return map[string]string{"label": w.Cfg.Label}
}

func (w *Web) Terminate(reason error) {
	st := w.g.enter(w.Cfg.Probe, w.Cfg.Label, "terminate")
	defer func() { w.rec("terminate", gen.PID{}, nil, reason, st) }()
	spin(w.Cfg.SpinNs)
}
