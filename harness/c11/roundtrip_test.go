package c11

import (
	"bytes"
	"crypto/sha256"
	"encoding/binary"
	"fmt"
	"io"
	"net"
	"reflect"
	"sort"
	"strings"
	"sync"
	"testing"

	"ergo.services/ergo/gen"
	"ergo.services/ergo/lib"
	"ergo.services/ergo/net/edf"
	"ergo.services/ergo/net/handshake"
	"pgregory.net/rapid"

	"verif/harness/kit"
	"verif/harness/kit/edfgen"
)

var recRT = kit.NewRecorder("C11", "roundtrip",
	"rapid-generated (type,value) pairs from a type grammar (primitives, framework ids, time, errors, 16 registered harness types incl. MarshalEDF/BinaryMarshaler, slices/arrays/maps/any nested to depth 4, nil vs empty, boundary injectors atom 255/256, string 65533..65536, error 32767/32768) x 10 cache configurations (no cache, each cache alone, all, atom mapping, the caches two real handshake parties negotiate in both directions, and the caches negotiated with a scripted peer that numbers its atom and error caches differently); "+
		"oracle: Encode ok => Decode ok, tail == appended garbage, same type, deep-equal (NaN by bits, time by instant+offset, sentinel errors by identity under an error cache); Encode error <=> value beyond a documented limit; "+
		"non-trivial = nesting depth >= 2 or a boundary value; distinct by (config, encoded bytes)")

type fakeNode struct {
	name     gen.Atom
	creation int64
}

func (f fakeNode) Name() gen.Atom       { return f.name }
func (f fakeNode) Creation() int64      { return f.creation }
func (f fakeNode) Version() gen.Version { return gen.Version{Name: "verif", Release: "1"} }

var (
	negOnce sync.Once
	negCfg  [2]edfgen.Config // a->b, b->a
	negErr  error
)

// negotiated returns the option pairs two peers obtain from a real handshake over an in-memory pipe.
func negotiated() ([2]edfgen.Config, error) {
	negOnce.Do(func() {
		ca, cb := net.Pipe()
		hs := handshake.Create(handshake.Options{})
		type res struct {
			r   gen.HandshakeResult
			err error
		}
		ch := make(chan res, 1)
		go func() {
			r, err := hs.Accept(fakeNode{"verif_b@localhost", 2}, cb, gen.HandshakeOptions{Cookie: "c", MaxMessageSize: 0})
			ch <- res{r, err}
		}()
		ra, err := hs.Start(fakeNode{"verif_a@localhost", 1}, ca, gen.HandshakeOptions{Cookie: "c"})
		rb := <-ch
		ca.Close()
		cb.Close()
		if err != nil || rb.err != nil {
			negErr = fmt.Errorf("handshake failed: %v / %v", err, rb.err)
			return
		}
		oa := ra.Custom.(handshake.ConnectionOptions)
		ob := rb.r.Custom.(handshake.ConnectionOptions)
		negCfg[0] = edfgen.Config{Name: "negotiated-a2b",
			Enc: edf.Options{AtomCache: oa.EncodeAtomCache, RegCache: oa.EncodeRegCache, ErrCache: oa.EncodeErrCache, Cache: new(sync.Map)},
			Dec: edf.Options{AtomCache: ob.DecodeAtomCache, RegCache: ob.DecodeRegCache, ErrCache: ob.DecodeErrCache, Cache: new(sync.Map)},
			Eq:  edfgen.EqOptions{SentinelIdentity: true}}
		negCfg[1] = edfgen.Config{Name: "negotiated-b2a",
			Enc: edf.Options{AtomCache: ob.EncodeAtomCache, RegCache: ob.EncodeRegCache, ErrCache: ob.EncodeErrCache, Cache: new(sync.Map)},
			Dec: edf.Options{AtomCache: oa.DecodeAtomCache, RegCache: oa.DecodeRegCache, ErrCache: oa.DecodeErrCache, Cache: new(sync.Map)},
			Eq:  edfgen.EqOptions{SentinelIdentity: true}}
	})
	return negCfg, negErr
}

var (
	forOnce sync.Once
	forCfg  edfgen.Config
	forErr  error
)

// negotiatedForeign: the peer is scripted (public message types only) and numbers its atom and
// error caches differently from this process's registry - as a peer built from another binary
// would. What it encodes with its own numbering must decode to the same values here: ids are
// private to a node, the cached items are matched by content.
func negotiatedForeign() (edfgen.Config, error) {
	forOnce.Do(func() {
		ca, cb := net.Pipe()
		defer ca.Close()
		defer cb.Close()
		hs := handshake.Create(handshake.Options{})
		type res struct {
			r   gen.HandshakeResult
			err error
		}
		ch := make(chan res, 1)
		go func() {
			r, err := hs.Start(fakeNode{"verif_a@localhost", 1}, ca, gen.HandshakeOptions{Cookie: "c"})
			ch <- res{r, err}
		}()
		read := func() (any, error) {
			hdr := make([]byte, 6)
			if _, err := io.ReadFull(cb, hdr); err != nil {
				return nil, err
			}
			body := make([]byte, binary.BigEndian.Uint32(hdr[2:6]))
			if _, err := io.ReadFull(cb, body); err != nil {
				return nil, err
			}
			v, _, err := edf.Decode(body, edf.Options{})
			return v, err
		}
		write := func(msg any) error {
			buf := lib.TakeBuffer()
			defer lib.ReleaseBuffer(buf)
			buf.Allocate(6)
			if err := edf.Encode(msg, buf, edf.Options{}); err != nil {
				return err
			}
			buf.B[0], buf.B[1] = 87, 1
			binary.BigEndian.PutUint32(buf.B[2:6], uint32(buf.Len()-6))
			_, err := cb.Write(buf.B)
			return err
		}
		sha := func(f string, a ...any) string {
			h := sha256.Sum256([]byte(fmt.Sprintf(f, a...)))
			return fmt.Sprintf("%x", h[:])
		}
		fail := func(err error) { forErr = err; <-ch }
		v, err := read()
		hello, ok := v.(handshake.MessageHello)
		if err != nil || !ok {
			fail(fmt.Errorf("scripted peer: no hello: %v %T", err, v))
			return
		}
		if err := write(handshake.MessageHello{Salt: "foreign-salt", Digest: sha("%s:%s:%s", "foreign-salt", hello.Digest, "c")}); err != nil {
			fail(err)
			return
		}
		v, err = read()
		intro, ok := v.(handshake.MessageIntroduce)
		if err != nil || !ok {
			fail(fmt.Errorf("scripted peer: no introduce: %v %T", err, v))
			return
		}
		// the same items, other ids: rotate the ids by one position
		var aids, eids []int
		for id := range intro.AtomCache {
			aids = append(aids, int(id))
		}
		for id := range intro.ErrCache {
			eids = append(eids, int(id))
		}
		sort.Ints(aids)
		sort.Ints(eids)
		peerAtoms, peerErrs := map[uint16]gen.Atom{}, map[uint16]error{}
		encAtoms, encErrs := new(sync.Map), new(sync.Map)
		decAtoms, decErrs := new(sync.Map), new(sync.Map)
		for i, id := range aids {
			nid := uint16(aids[(i+1)%len(aids)])
			peerAtoms[nid] = intro.AtomCache[uint16(id)]
			encAtoms.Store(intro.AtomCache[uint16(id)], nid)
			decAtoms.Store(nid, intro.AtomCache[uint16(id)])
		}
		local := edf.GetErrCache()
		for i, id := range eids {
			nid := uint16(eids[(i+1)%len(eids)])
			peerErrs[nid] = local[uint16(id)]
			encErrs.Store(local[uint16(id)], nid)
			decErrs.Store(nid, local[uint16(id)])
		}
		if err := write(handshake.MessageAccept{ID: "foreign-connection", PoolSize: 1}); err != nil {
			fail(err)
			return
		}
		if err := write(handshake.MessageIntroduce{Node: "verif_f@localhost", Version: gen.Version{Name: "verif", Release: "foreign"},
			Flags: gen.NetworkFlags{Enable: true}, Creation: 3, AtomCache: peerAtoms, ErrCache: peerErrs}); err != nil {
			fail(err)
			return
		}
		read() // Accept
		r := <-ch
		if r.err != nil {
			forErr = fmt.Errorf("handshake with the scripted peer failed: %v", r.err)
			return
		}
		oa := r.r.Custom.(handshake.ConnectionOptions)
		forCfg = edfgen.Config{Name: "negotiated-foreign-numbering",
			Enc: edf.Options{AtomCache: encAtoms, ErrCache: encErrs, Cache: new(sync.Map)},
			Dec: edf.Options{AtomCache: oa.DecodeAtomCache, RegCache: oa.DecodeRegCache, ErrCache: oa.DecodeErrCache, Cache: new(sync.Map)},
			Eq:  edfgen.EqOptions{SentinelIdentity: true}}
		_ = decAtoms
		_ = decErrs
	})
	return forCfg, forErr
}

func allConfigs(t interface{ Fatalf(string, ...any) }) []edfgen.Config {
	cfgs := edfgen.Configs()
	n, err := negotiated()
	if err != nil {
		t.Fatalf("cannot negotiate caches: %v", err)
	}
	f, err := negotiatedForeign()
	if err != nil {
		t.Fatalf("cannot negotiate caches with the scripted peer: %v", err)
	}
	f.Enc.Cache, f.Dec.Cache = new(sync.Map), new(sync.Map)
	cfgs = append(cfgs, f)
	// fresh common caches for the negotiated pairs too
	for _, c := range n {
		c.Enc.Cache = new(sync.Map)
		c.Dec.Cache = new(sync.Map)
		cfgs = append(cfgs, c)
	}
	return cfgs
}

// checkRoundTrip is the law itself; it returns the encoded bytes (nil if refused).
func checkRoundTrip(cfg edfgen.Config, c *edfgen.Case, lead, garbage []byte) ([]byte, error) {
	buf := lib.TakeBuffer()
	defer lib.ReleaseBuffer(buf)
	buf.Append(lead)
	err := edf.Encode(c.Value, buf, cfg.Enc)
	if err != nil {
		if len(c.OutOfRange) == 0 {
			return nil, fmt.Errorf("Encode refused an in-range value of type %s: %v", c.Desc, err)
		}
		return nil, nil
	}
	if len(c.OutOfRange) > 0 {
		// bytes were produced for a value beyond a documented limit: they must at least not decode to something else
		return nil, fmt.Errorf("Encode accepted a value beyond a documented limit %v (type %s)", c.OutOfRange, c.Desc)
	}
	if !bytes.HasPrefix(buf.B, lead) {
		return nil, fmt.Errorf("Encode clobbered the %d bytes already in the buffer", len(lead))
	}
	enc := append([]byte{}, buf.B[len(lead):]...)
	packet := append(append([]byte{}, enc...), garbage...)
	got, tail, err := edf.Decode(packet, cfg.Dec)
	if err != nil {
		return enc, fmt.Errorf("Decode failed on bytes Encode produced (type %s, %d bytes): %v", c.Desc, len(enc), err)
	}
	if !bytes.Equal(tail, garbage) {
		return enc, fmt.Errorf("Decode consumed %d bytes, Encode produced %d (type %s)", len(packet)-len(tail), len(enc), c.Desc)
	}
	if _, isErr := c.Value.(error); !isErr {
		if got == nil || reflect.TypeOf(got) != reflect.TypeOf(c.Value) {
			return enc, fmt.Errorf("type changed: sent %T, got %T", c.Value, got)
		}
	}
	if err := edfgen.Equal(c.Value, got, cfg.Eq); err != nil {
		return enc, fmt.Errorf("value changed (type %s): %v", c.Desc, err)
	}
	return enc, nil
}

func propRoundTrip(t *rapid.T) {
	cfgs := allConfigs(t)
	cfg := cfgs[rapid.IntRange(0, len(cfgs)-1).Draw(t, "config")]
	big := rapid.IntRange(0, 9).Draw(t, "big") == 0
	c := edfgen.Generate(t, edfgen.Options{AllowOutOfRange: true, AllowBig: big})
	lead := rapid.SliceOfN(rapid.Byte(), 0, 5).Draw(t, "lead")
	if rapid.IntRange(0, 3).Draw(t, "lead-near-capacity") == 0 {
		// the value is encoded at a position close to the capacity of the (pooled, 4096-byte-step)
		// buffer, so that the buffer grows in the middle of it: encoders that reserve bytes first
		// and fill them in later must find them in the grown buffer
		n := rapid.SampledFrom([]int{4096, 4096, 8192}).Draw(t, "capacity") - rapid.IntRange(0, 400).Draw(t, "room")
		lead = append(bytes.Repeat([]byte{0xA5}, n), lead...)
	}
	garbage := rapid.SliceOfN(rapid.Byte(), 0, 5).Draw(t, "garbage")
	// second pass through the same option pair exercises the warmed common cache
	var enc []byte
	for pass := 0; pass < 2; pass++ {
		e, err := checkRoundTrip(cfg, c, lead, garbage)
		if err != nil {
			t.Fatalf("config=%s pass=%d: %v", cfg.Name, pass, err)
		}
		enc = e
	}
	nontrivial := c.Depth >= 2 || len(c.Boundaries) > 0 || len(c.OutOfRange) > 0
	labels := []string{"cfg=" + cfg.Name}
	if len(c.Boundaries) > 0 {
		labels = append(labels, "boundary")
	}
	if len(c.OutOfRange) > 0 {
		labels = append(labels, "out-of-range")
	}
	if c.Depth >= 2 {
		labels = append(labels, "depth>=2")
	}
	key := fmt.Sprintf("cfg=%s type=%s bnd=%v oor=%v enc=%x", cfg.Name, c.Desc, c.Boundaries, c.OutOfRange, enc)
	if len(enc) > 200 {
		key = fmt.Sprintf("cfg=%s type=%s bnd=%v oor=%v enclen=%d enc=%x… h=%x", cfg.Name, c.Desc, c.Boundaries, c.OutOfRange, len(enc), enc[:160], kitHash(enc))
	}
	recRT.Case(nontrivial, key, labels...)
}

func kitHash(b []byte) uint64 {
	var h uint64 = 1469598103934665603
	for _, c := range b {
		h ^= uint64(c)
		h *= 1099511628211
	}
	return h
}

func TestRoundTrip(t *testing.T) {
	rapid.Check(t, propRoundTrip)
}

// FuzzRoundTrip lets the native coverage-guided fuzzer mutate the generator's choice bytes.
func FuzzRoundTrip(f *testing.F) {
	f.Fuzz(rapid.MakeFuzz(propRoundTrip))
}

// TestBoundaries enumerates the documented limits directly (a finite space): every
// boundary length, at top level and nested, under every cache configuration.
func TestBoundaries(t *testing.T) {
	rec := kit.NewRecorder("C11", "boundaries", "exhaustive enumeration: string lengths {0,1,255,256,65533,65534,65535,65536}, atom lengths {0,255,256}, error lengths {0,1,32766,32767,32768}, texts with '%' verbs; each at top level, in []T, in struct field, in map value, inside any; x all cache configurations; non-trivial = all")
	type mk func(n int) any
	str := func(n int) any { return strings.Repeat("s", n) }
	atom := func(n int) any { return gen.Atom(strings.Repeat("a", n)) }
	er := func(n int) any { return fmt.Errorf("%s", strings.Repeat("e", n)) }
	wrap := []struct {
		name string
		f    func(x any) any
	}{
		{"top", func(x any) any { return x }},
		{"slice-any", func(x any) any { return []any{1, x, "tail"} }},
		{"struct-any", func(x any) any { return edfgen.VInner{X: 7, Z: x, W: -3} }},
		{"map-any", func(x any) any { return map[string]any{"k": x, "": nil} }},
		{"typed", func(x any) any {
			switch v := x.(type) {
			case string:
				return []string{"", v, "x"}
			case gen.Atom:
				return gen.ProcessID{Name: v, Node: "n@h"}
			case error:
				return []error{nil, v}
			}
			return x
		}},
	}
	cases := []struct {
		name string
		f    mk
		lens []int
		max  int
	}{
		{"string", str, []int{0, 1, 255, 256, 4095, 4096, 65533, 65534, 65535, 65536}, 65535},
		{"atom", atom, []int{0, 1, 254, 255, 256, 300}, 255},
		{"error", er, []int{0, 1, 32766, 32767, 32768, 40000}, 32767},
	}
	n := 0
	for _, cs := range cases {
		for _, l := range cs.lens {
			for _, w := range wrap {
				for _, cfg := range allConfigs(t) {
					v := w.f(cs.f(l))
					c := &edfgen.Case{Value: v, Desc: fmt.Sprintf("%s[%d]/%s", cs.name, l, w.name)}
					c.Boundaries, c.OutOfRange = edfgen.Scan(v)
					if (l > cs.max) != (len(c.OutOfRange) > 0) {
						t.Fatalf("harness bug: scan disagrees for %s", c.Desc)
					}
					if _, err := checkRoundTrip(cfg, c, nil, []byte{0xAA}); err != nil {
						t.Errorf("cfg=%s %s: %v", cfg.Name, c.Desc, err)
					}
					n++
					rec.Case(true, fmt.Sprintf("cfg=%s %s", cfg.Name, c.Desc))
				}
			}
		}
	}
	// '%' in error texts and strings
	for _, txt := range []string{"100% sure", "%d", "%!s(MISSING)", "%%", "50%", "%s %v %w"} {
		for _, w := range wrap {
			for _, cfg := range allConfigs(t) {
				v := w.f(fmt.Errorf("%s", txt))
				c := &edfgen.Case{Value: v, Desc: fmt.Sprintf("error-text %q/%s", txt, w.name)}
				if _, err := checkRoundTrip(cfg, c, nil, nil); err != nil {
					t.Errorf("cfg=%s %s: %v", cfg.Name, c.Desc, err)
				}
				rec.Case(true, fmt.Sprintf("cfg=%s %s", cfg.Name, c.Desc))
			}
		}
	}
	// unregistered struct and pointer must be refused, not mis-encoded
	for _, v := range []any{edfgen.VUnreg{A: 1}, &edfgen.VPair{}, []edfgen.VUnreg{{A: 2}}, map[string]*int{}} {
		buf := lib.TakeBuffer()
		if err := edf.Encode(v, buf, edf.Options{}); err == nil {
			if _, _, derr := edf.Decode(buf.B, edf.Options{}); derr != nil {
				t.Errorf("Encode accepted unsupported %T and produced bytes that do not decode: %v", v, derr)
			}
		}
		lib.ReleaseBuffer(buf)
		rec.Case(true, fmt.Sprintf("unsupported %T", v))
	}
	rec.Exhaustive(true)
}
