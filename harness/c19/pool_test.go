package c19

import (
	"errors"
	"fmt"
	"sort"
	"strconv"
	"strings"
	"sync"
	"testing"
	"time"

	"ergo.services/ergo/act"
	"ergo.services/ergo/gen"
	"pgregory.net/rapid"

	"verif/harness/kit"
)

// Item is a uniquely numbered payload sent to the pool.
type Item struct {
	ID    int
	Async bool // requests only: the worker hands the reply over to another process
}

// Reply is what a worker answers to a request.
type Reply struct {
	ID     int
	Worker gen.PID
}

type replyVia struct {
	From   gen.PID
	Ref    gen.Ref
	ID     int
	Worker gen.PID
}

const (
	stHandled = iota + 1 // handled in the step it was sent in
	stPending            // queued behind a parked worker
	stDropped            // dropped with every worker full
)

type item struct {
	id     int
	kind   string // send, call, hi
	sender gen.PID
	state  int
	// calls
	done  chan struct{}
	reply any
	err   error
}

type world struct {
	t       *rapid.T
	node    gen.Node
	probe   *kit.Probe
	pool    gen.PID
	replier gen.PID
	M       int64
	ring    int
	senders []gen.PID
	gates   map[gen.PID]chan struct{}
	zombies map[gen.PID]chan struct{} // killed while parked in a handler and still parked: registered, not alive
	items   map[int]*item
	order   []int
	nextID  int
	lostOK  int64 // items that were queued at a parked worker when it was killed
	trace   []string
	// evidence
	metDead, metFull, dropped int
}

func (w *world) logf(f string, a ...any) { w.trace = append(w.trace, fmt.Sprintf(f, a...)) }

func (w *world) fatalf(f string, a ...any) {
	w.t.Helper()
	w.t.Fatalf("%s\n  history: %s", fmt.Sprintf(f, a...), strings.Join(w.trace, "; "))
}

func workerFactory(probe *kit.Probe, replier *gen.PID, spinNs int64) gen.ProcessFactory {
	return kit.Factory(&kit.ActorConfig{Label: "worker", Probe: probe, SpinNs: spinNs,
		// the workers take their configuration from the pool's WorkerArgs, the original ones and
		// every replacement alike
		OnInit: func(a *kit.Actor, args ...any) error {
			if len(args) != 2 || args[0] != "worker-config" || args[1] != 42 {
				return fmt.Errorf("worker started with arguments %v instead of the configured [worker-config 42]", args)
			}
			return nil
		},
		OnCall: func(a *kit.Actor, from gen.PID, ref gen.Ref, req any) (any, error) {
			it, ok := req.(Item)
			if !ok {
				return req, nil
			}
			if it.Async {
				// the reply is produced by another process, with the reference the worker saw
				if err := a.Send(*replier, replyVia{From: from, Ref: ref, ID: it.ID, Worker: a.PID()}); err != nil {
					return Reply{ID: it.ID, Worker: a.PID()}, nil
				}
				return nil, nil
			}
			return Reply{ID: it.ID, Worker: a.PID()}, nil
		}})
}

func replierFactory(probe *kit.Probe) gen.ProcessFactory {
	return kit.Factory(&kit.ActorConfig{Label: "replier", Probe: probe, Quiet: true,
		OnMessage: func(a *kit.Actor, from gen.PID, msg any) (bool, error) {
			if r, ok := msg.(replyVia); ok {
				a.SendResponse(r.From, r.Ref, Reply{ID: r.ID, Worker: r.Worker})
				return true, nil
			}
			return false, nil
		}})
}

func startWorld(t *rapid.T, size int, mbox int64, nsenders int, spinNs int64) (*world, func()) {
	node, err := kit.StartLocalNode()
	if err != nil {
		t.Fatalf("start node: %v", err)
	}
	w := &world{t: t, node: node, probe: kit.NewProbe(), M: mbox, ring: size,
		gates: map[gen.PID]chan struct{}{}, zombies: map[gen.PID]chan struct{}{}, items: map[int]*item{}}
	cleanup := func() {
		for _, ch := range w.gates {
			close(ch)
		}
		for _, ch := range w.zombies {
			close(ch)
		}
		w.gates, w.zombies = map[gen.PID]chan struct{}{}, map[gen.PID]chan struct{}{}
		node.StopForce()
	}
	w.replier, err = node.Spawn(replierFactory(w.probe), gen.ProcessOptions{})
	if err != nil {
		cleanup()
		t.Fatalf("spawn replier: %v", err)
	}
	wf := workerFactory(w.probe, &w.replier, spinNs)
	w.pool, err = node.Spawn(kit.PoolFactory(&kit.PoolConfig{Label: "pool", Probe: w.probe,
		Options: func(args ...any) (act.PoolOptions, error) {
			return act.PoolOptions{PoolSize: int64(size), WorkerMailboxSize: mbox, WorkerFactory: wf, WorkerArgs: []any{"worker-config", 42}}, nil
		}}), gen.ProcessOptions{})
	if err != nil {
		cleanup()
		t.Fatalf("spawn pool: %v", err)
	}
	for i := 0; i < nsenders; i++ {
		s, err := node.Spawn(kit.Factory(&kit.ActorConfig{Label: "sender", Probe: w.probe, Quiet: true}), gen.ProcessOptions{})
		if err != nil {
			cleanup()
			t.Fatalf("spawn sender: %v", err)
		}
		w.senders = append(w.senders, s)
	}
	return w, cleanup
}

// workers returns every worker pid ever started, in start order.
func (w *world) workers() []gen.PID {
	var out []gen.PID
	for _, e := range w.probe.Events() {
		if e.Proc == "worker" && e.Kind == "init" {
			out = append(out, e.PID)
		}
	}
	return out
}

func (w *world) alive(pid gen.PID) bool {
	info, err := w.node.ProcessInfo(pid)
	if err != nil {
		return false
	}
	return info.State != gen.ProcessStateZombee && info.State != gen.ProcessStateTerminated
}

func (w *world) live() []gen.PID {
	var out []gen.PID
	for _, p := range w.workers() {
		if w.alive(p) {
			out = append(out, p)
		}
	}
	return out
}

func (w *world) queued(pid gen.PID) int64 {
	info, err := w.node.ProcessInfo(pid)
	if err != nil {
		return 0
	}
	return info.MailboxQueues.Main
}

type snapshot struct {
	live    int
	sumQ    int64
	allFull bool // every ring entry is a live worker with a full mailbox (or the ring is empty)
	anyFull bool
	dead    int
}

func (w *world) observe() snapshot {
	var s snapshot
	lv := w.live()
	s.live = len(lv)
	s.dead = w.ring - s.live
	full := 0
	for _, p := range lv {
		if _, parked := w.gates[p]; parked {
			q := w.queued(p)
			s.sumQ += q
			if w.M > 0 && q >= w.M {
				full++
			}
		}
	}
	s.anyFull = full > 0
	s.allFull = w.ring == 0 || (s.dead <= 0 && full == s.live)
	return s
}

// settle waits until the pool and every worker that is not parked are asleep with empty mailboxes.
func (w *world) settle() {
	ok := kit.WaitUntil(15*time.Second, func() bool {
		if !kit.Quiesced(w.node, w.pool) {
			return false
		}
		if !kit.Quiesced(w.node, w.replier) {
			return false
		}
		for _, p := range w.workers() {
			if _, parked := w.gates[p]; parked {
				continue
			}
			if _, zombie := w.zombies[p]; zombie {
				continue
			}
			if !kit.Quiesced(w.node, p) {
				return false
			}
		}
		return true
	})
	if !ok {
		if stuck, what := kit.Stuck(w.node, w.pool); stuck {
			w.fatalf("the pool process is asleep with a non-empty mailbox: %s", what)
		}
		w.t.Skip("inconclusive: the pool did not settle within 15 s")
	}
}

func isItem(m any) (int, bool) {
	if it, ok := m.(Item); ok {
		return it.ID, true
	}
	return 0, false
}

// handledBy returns the callback executions that handled item id.
func (w *world) handledBy(id int) []kit.Event {
	var out []kit.Event
	for _, e := range w.probe.Events() {
		if e.Kind != "msg" && e.Kind != "call" {
			continue
		}
		if e.Proc != "worker" && e.Proc != "pool" {
			continue
		}
		if x, ok := isItem(e.Msg); ok && x == id {
			out = append(out, e)
		}
	}
	return out
}

func (w *world) newItem(kind string, sender gen.PID) *item {
	it := &item{id: w.nextID, kind: kind, sender: sender}
	w.nextID++
	w.items[it.id] = it
	w.order = append(w.order, it.id)
	return it
}

// dispatch sends one item to the pool and classifies what became of it.
func (w *world) dispatch(kind string, senderIdx int, async bool) {
	before := w.observe()
	if before.dead > 0 {
		w.metDead++
	}
	if before.anyFull {
		w.metFull++
	}
	var it *item
	switch kind {
	case "send", "hi":
		sender := w.senders[senderIdx%len(w.senders)]
		it = w.newItem(kind, sender)
		var serr error
		if err := kit.InProc(w.node, sender, func(a *kit.Actor) {
			if kind == "hi" {
				serr = a.SendWithPriority(w.pool, Item{ID: it.id}, gen.MessagePriorityHigh)
			} else {
				serr = a.Send(w.pool, Item{ID: it.id})
			}
		}); err != nil || serr != nil {
			w.fatalf("send of item %d to the pool failed: %v %v", it.id, err, serr)
		}
	case "call":
		caller, err := w.node.Spawn(kit.Factory(&kit.ActorConfig{Label: "caller", Probe: w.probe, Quiet: true}), gen.ProcessOptions{})
		if err != nil {
			w.fatalf("spawn caller: %v", err)
		}
		it = w.newItem(kind, caller)
		it.done = make(chan struct{})
		go func(it *item) {
			defer close(it.done)
			if err := kit.InProc(w.node, caller, func(a *kit.Actor) {
				it.reply, it.err = a.CallWithTimeout(w.pool, Item{ID: it.id, Async: async}, 2)
			}); err != nil {
				it.err = err
			}
		}(it)
		kit.WaitUntil(5*time.Second, func() bool {
			select {
			case <-it.done:
				return true
			default:
			}
			st, err := w.node.ProcessState(caller)
			return err == nil && st == gen.ProcessStateWaitResponse
		})
	}
	w.logf("%s#%d(ring=%d live=%d full=%v)", kind, it.id, w.ring, before.live, before.allFull)
	w.settle()
	after := w.observe()
	h := w.handledBy(it.id)
	switch {
	case len(h) > 1:
		w.fatalf("item %d was handled %d times: %s", it.id, len(h), describeEvents(h))
	case len(h) == 1:
		it.state = stHandled
		if kind != "hi" && before.allFull {
			// a full (parked) worker cannot have taken it: its handler is still parked
			w.fatalf("item %d was handled by %s although every worker was parked with a full mailbox", it.id, h[0].PID)
		}
		if after.sumQ != before.sumQ {
			w.fatalf("item %d was handled by %s and the queues of parked workers changed as well (%d -> %d): duplicated?", it.id, h[0].PID, before.sumQ, after.sumQ)
		}
	case kind == "hi":
		w.fatalf("high-priority item %d sent to the pool itself was not handled by anybody", it.id)
	case after.sumQ == before.sumQ+1:
		it.state = stPending
		if before.allFull {
			w.fatalf("item %d was queued at a worker although every worker's mailbox was full (limit %d)", it.id, w.M)
		}
	case after.sumQ == before.sumQ:
		it.state = stDropped
		w.dropped++
		if !before.allFull {
			w.fatalf("item %d (%s) was dropped although not every worker was full: ring=%d live=%d dead=%d parked=%d mailbox limit=%d queued=%d",
				it.id, kind, w.ring, before.live, before.dead, len(w.gates), w.M, before.sumQ)
		}
	default:
		w.fatalf("item %d: queues of parked workers went from %d to %d", it.id, before.sumQ, after.sumQ)
	}
	if after.live > w.ring {
		w.fatalf("%d live workers after dispatching item %d, the ring has %d entries", after.live, it.id, w.ring)
	}
	if it.state == stHandled {
		w.checkHandled(it, h[0], true)
	}
}

// checkHandled verifies sender identity and, for requests, the reply that reached the caller.
func (w *world) checkHandled(it *item, ev kit.Event, prompt bool) {
	if ev.From != it.sender {
		w.fatalf("item %d: the worker saw sender %s, the real sender is %s", it.id, ev.From, it.sender)
	}
	if it.kind == "hi" {
		if ev.Proc != "pool" {
			w.fatalf("high-priority item %d was handled by %s %s, not by the pool process it was addressed to", it.id, ev.Proc, ev.PID)
		}
		return
	}
	if ev.Proc != "worker" {
		w.fatalf("normal-priority item %d was handled by the pool process itself instead of a worker", it.id)
	}
	if it.kind != "call" {
		return
	}
	if ev.Kind != "call" {
		w.fatalf("request %d reached the worker as %q", it.id, ev.Kind)
	}
	if !prompt {
		select {
		case <-it.done:
		default:
			return // still waiting; verified at the end
		}
	} else {
		select {
		case <-it.done:
		case <-time.After(10 * time.Second):
			w.fatalf("request %d was handled by worker %s but the caller is still waiting", it.id, ev.PID)
		}
	}
	if it.err != nil {
		if prompt {
			w.fatalf("request %d was handled by worker %s at once but the call returned %v", it.id, ev.PID, it.err)
		}
		return // it waited behind a parked worker: a timeout is legitimate
	}
	r, ok := it.reply.(Reply)
	if !ok || r.ID != it.id || r.Worker != ev.PID {
		w.fatalf("request %d handled by worker %s: the caller got %#v", it.id, ev.PID, it.reply)
	}
}

func describeEvents(evs []kit.Event) string {
	var s []string
	for _, e := range evs {
		s = append(s, fmt.Sprintf("%s/%s@%s", e.Proc, e.Kind, e.PID))
	}
	return strings.Join(s, ",")
}

func (w *world) inPool(f func(p *kit.Pool)) {
	done := make(chan struct{})
	if err := w.node.SendWithPriority(w.pool, kit.DoPool{F: f, Done: done}, gen.MessagePriorityHigh); err != nil {
		w.fatalf("send to pool: %v", err)
	}
	select {
	case <-done:
	case <-time.After(10 * time.Second):
		w.fatalf("the pool did not execute a management request")
	}
}

func (w *world) unparked() []gen.PID {
	var out []gen.PID
	for _, p := range w.live() {
		if _, ok := w.gates[p]; !ok {
			out = append(out, p)
		}
	}
	return out
}

func (w *world) parkedList() []gen.PID {
	var out []gen.PID
	for p := range w.gates {
		out = append(out, p)
	}
	sort.Slice(out, func(i, j int) bool { return out[i].ID < out[j].ID })
	return out
}

func (w *world) waitDead(pid gen.PID) {
	if !kit.WaitUntil(10*time.Second, func() bool { return !w.alive(pid) && w.probe.Terminated("worker", pid) }) {
		w.t.Skip("inconclusive: a worker did not terminate within 10 s")
	}
}

func (w *world) finish() {
	for p, ch := range w.zombies {
		close(ch)
		delete(w.zombies, p)
		w.waitDead(p)
	}
	// open every gate: what was queued behind parked workers is handled now
	for _, p := range w.parkedList() {
		close(w.gates[p])
		delete(w.gates, p)
	}
	w.settle()
	// the ring is visited entry by entry: after two rounds every dead entry has been met and replaced
	for i := 0; i < 2*w.ring+1; i++ {
		w.dispatch("send", i, false)
	}
	if w.ring > 0 {
		var n int64
		var err error
		w.inPool(func(p *kit.Pool) { n, err = p.AddWorkers(0) })
		if err != nil || int(n) != w.ring {
			w.fatalf("the pool reports %d ring entries (%v), configured size with the explicit additions and removals is %d", n, err, w.ring)
		}
		if l := len(w.live()); l != w.ring {
			w.fatalf("%d live workers after two full dispatch rounds, the ring should hold %d", l, w.ring)
		}
	}
	// wait for every caller
	for _, id := range w.order {
		it := w.items[id]
		if it.done != nil {
			select {
			case <-it.done:
			case <-time.After(15 * time.Second):
				w.fatalf("the call for item %d never returned", id)
			}
		}
	}
	var lost int64
	for _, id := range w.order {
		it := w.items[id]
		h := w.handledBy(id)
		if len(h) > 1 {
			w.fatalf("item %d was handled %d times: %s", id, len(h), describeEvents(h))
		}
		switch it.state {
		case stHandled:
			if len(h) != 1 {
				w.fatalf("item %d: handled record vanished", id)
			}
		case stDropped:
			if len(h) != 0 {
				w.fatalf("item %d was counted as dropped (all workers full) and was handled later by %s", id, h[0].PID)
			}
			if it.kind == "call" && it.err == nil {
				w.fatalf("request %d was dropped and yet the call returned %#v", id, it.reply)
			}
		case stPending:
			if len(h) == 0 {
				lost++
				if it.kind == "call" && it.err == nil {
					w.fatalf("request %d was never handled and yet the call returned %#v", id, it.reply)
				}
				continue
			}
			w.checkHandled(it, h[0], false)
		}
	}
	if lost > w.lostOK {
		w.fatalf("%d items that were queued at workers were never handled, only %d were queued at a worker when it was killed", lost, w.lostOK)
	}
}

var recModel = kit.NewRecorder("C19", "model",
	"pool size 1-5, worker mailbox in {unbounded,1,2,4}, 2 senders; a generated history of <= 40 steps of {send, request (sync or answered by another process), high-priority send to the pool itself, park worker k in a handler, release it, kill worker k (idle or parked, with items queued), crash worker k, AddWorkers, RemoveWorkers}; every step runs to quiescence and is classified against observed state: handled by exactly one worker with the original sender and the caller getting that worker's reply | queued behind a parked worker | dropped iff every ring entry is a live worker with a full mailbox; at the end gates open, two dispatch rounds, live workers == ring entries == configured size +- explicit changes, items lost <= items queued at workers when they were killed; "+
		"non-trivial = at least one dispatch met a dead ring entry or a full worker; distinct by history")

func TestModel(t *testing.T) {
	rapid.Check(t, func(t *rapid.T) {
		size := rapid.IntRange(1, 5).Draw(t, "size")
		mbox := rapid.SampledFrom([]int64{0, 1, 2, 4}).Draw(t, "mailbox")
		w, cleanup := startWorld(t, size, mbox, 2, 0)
		defer cleanup()
		w.settle()
		if l := len(w.live()); l != size {
			w.fatalf("pool of size %d started %d workers", size, l)
		}
		steps := rapid.IntRange(4, 40).Draw(t, "steps")
		for i := 0; i < steps; i++ {
			op := rapid.SampledFrom([]string{"send", "send", "send", "send", "call", "call", "hi", "park", "park", "release", "kill", "crash", "add", "remove"}).Draw(t, "op")
			switch op {
			case "send", "hi":
				w.dispatch(op, rapid.IntRange(0, 1).Draw(t, "sender"), false)
			case "call":
				async := rapid.Bool().Draw(t, "async")
				if w.observe().allFull {
					op = "send" // a request that is dropped costs the caller's whole timeout; a plain send checks the same rule
				}
				w.dispatch(op, 0, async)
			case "park":
				up := w.unparked()
				if len(up) == 0 {
					continue
				}
				p := up[rapid.IntRange(0, len(up)-1).Draw(t, "worker")]
				g := kit.Gate{Entered: make(chan struct{}), Open: make(chan struct{})}
				if err := w.node.Send(p, g); err != nil {
					w.fatalf("park: %v", err)
				}
				select {
				case <-g.Entered:
				case <-time.After(10 * time.Second):
					w.fatalf("worker %s did not pick up a message sent to it directly", p)
				}
				w.gates[p] = g.Open
				w.logf("park(%s)", p)
			case "release":
				pl := w.parkedList()
				if len(pl) == 0 {
					continue
				}
				p := pl[rapid.IntRange(0, len(pl)-1).Draw(t, "worker")]
				close(w.gates[p])
				delete(w.gates, p)
				w.logf("release(%s)", p)
				w.settle()
			case "kill":
				lv := w.live()
				if len(lv) == 0 {
					continue
				}
				p := lv[rapid.IntRange(0, len(lv)-1).Draw(t, "worker")]
				if ch, parked := w.gates[p]; parked {
					w.lostOK += w.queued(p)
					w.node.Kill(p)
					delete(w.gates, p)
					if rapid.Bool().Draw(t, "stays-in-handler") {
						// killed, but its handler has not returned yet: it is dead for the ring
						// (nothing may be handed to it any more) while it is still registered
						w.zombies[p] = ch
						w.logf("kill-busy(%s)", p)
						continue
					}
					close(ch)
				} else {
					w.node.Kill(p)
				}
				w.waitDead(p)
				w.logf("kill(%s)", p)
			case "crash":
				up := w.unparked()
				if len(up) == 0 {
					continue
				}
				p := up[rapid.IntRange(0, len(up)-1).Draw(t, "worker")]
				if err := w.node.Send(p, kit.Stop{Reason: errors.New("worker crash")}); err != nil {
					w.fatalf("crash: %v", err)
				}
				w.waitDead(p)
				w.logf("crash(%s)", p)
			case "add":
				n := rapid.IntRange(1, 2).Draw(t, "n")
				if w.ring+n > 8 {
					continue
				}
				var err error
				w.inPool(func(p *kit.Pool) { _, err = p.AddWorkers(n) })
				if err != nil {
					w.fatalf("AddWorkers(%d): %v", n, err)
				}
				w.ring += n
				w.logf("add(%d)", n)
				w.settle()
			case "remove":
				if len(w.gates) > 0 {
					continue // which entry is taken out is not specified; keep parked workers in the ring
				}
				n := rapid.IntRange(1, 2).Draw(t, "n")
				w.inPool(func(p *kit.Pool) { p.RemoveWorkers(n) })
				w.ring -= n
				if w.ring < 0 {
					w.ring = 0
				}
				w.logf("remove(%d)", n)
				w.settle()
				if l := len(w.live()); l > w.ring {
					w.fatalf("%d live workers after RemoveWorkers, the ring has %d entries", l, w.ring)
				}
			}
		}
		w.finish()
		labels := []string{"mbox=" + strconv.FormatInt(mbox, 10)}
		if w.metDead > 0 {
			labels = append(labels, "met-dead-entry")
		}
		if w.metFull > 0 {
			labels = append(labels, "met-full-worker")
		}
		if w.dropped > 0 {
			labels = append(labels, "dropped-all-full")
		}
		if w.lostOK > 0 {
			labels = append(labels, "killed-with-queued-items")
		}
		recModel.Case(w.metDead+w.metFull > 0, fmt.Sprintf("size=%d mbox=%d %s", size, mbox, strings.Join(w.trace, ";")), labels...)
	})
}

var recConc = kit.NewRecorder("C19", "concurrent",
	"pool size 1-5, worker mailbox in {unbounded,2,8}, workers spin 0-20us per item; 2-4 sender processes fire 20-150 numbered sends each concurrently, 0-3 callers issue requests, and a controller kills generated workers once generated numbers of items have been handled; oracle: no item handled twice, original sender seen, every returned reply is the reply of the worker that handled that very request; without kills: items never handled == the pool's own messages_unhandled counter (0 with unbounded mailboxes); afterwards two dispatch rounds restore live workers == configured size; "+
		"non-trivial = a worker was killed during the burst or a bounded mailbox refused an item; distinct by parameters")

func TestConcurrent(t *testing.T) {
	rapid.Check(t, func(t *rapid.T) {
		size := rapid.IntRange(1, 5).Draw(t, "size")
		mbox := rapid.SampledFrom([]int64{0, 0, 2, 8}).Draw(t, "mailbox")
		spin := int64(rapid.IntRange(0, 20).Draw(t, "spin-us")) * 1000
		nsend := rapid.IntRange(2, 4).Draw(t, "senders")
		per := rapid.IntRange(20, 150).Draw(t, "per-sender")
		ncall := rapid.SampledFrom([]int{0, 0, 1, 3}).Draw(t, "callers")
		nkill := rapid.SampledFrom([]int{0, 0, 1, 2, 3}).Draw(t, "kills")
		killAt := make([]int, nkill)
		killIdx := make([]int, nkill)
		for i := range killAt {
			killAt[i] = rapid.IntRange(0, nsend*per).Draw(t, "kill-after")
			killIdx[i] = rapid.IntRange(0, 7).Draw(t, "kill-worker")
		}
		sort.Ints(killAt)
		w, cleanup := startWorld(t, size, mbox, nsend, spin)
		defer cleanup()
		w.settle()

		total := nsend * per
		var wg sync.WaitGroup
		for s := 0; s < nsend; s++ {
			wg.Add(1)
			go func(s int) {
				defer wg.Done()
				kit.InProc(w.node, w.senders[s], func(a *kit.Actor) {
					for i := 0; i < per; i++ {
						a.Send(w.pool, Item{ID: s*per + i})
					}
				})
			}(s)
		}
		type callRes struct {
			id    int
			pid   gen.PID
			reply any
			err   error
		}
		calls := make([]*callRes, ncall)
		for c := 0; c < ncall; c++ {
			caller, err := w.node.Spawn(kit.Factory(&kit.ActorConfig{Label: "caller", Probe: w.probe, Quiet: true}), gen.ProcessOptions{})
			if err != nil {
				t.Fatalf("spawn caller: %v", err)
			}
			cr := &callRes{id: total + c, pid: caller}
			calls[c] = cr
			wg.Add(1)
			go func() {
				defer wg.Done()
				kit.InProc(w.node, caller, func(a *kit.Actor) {
					cr.reply, cr.err = a.CallWithTimeout(w.pool, Item{ID: cr.id, Async: cr.id%2 == 1}, 1)
				})
			}()
		}
		killed := 0
		countHandled := func() int {
			n := 0
			for _, e := range w.probe.Events() {
				if e.Proc == "worker" && (e.Kind == "msg" || e.Kind == "call") {
					if _, ok := isItem(e.Msg); ok {
						n++
					}
				}
			}
			return n
		}
		sendersDone := make(chan struct{})
		go func() { wg.Wait(); close(sendersDone) }()
		for i := 0; i < nkill; i++ {
			kit.WaitUntil(5*time.Second, func() bool {
				select {
				case <-sendersDone:
					return true
				default:
				}
				return countHandled() >= killAt[i]
			})
			lv := w.live()
			if len(lv) == 0 {
				continue
			}
			w.node.Kill(lv[killIdx[i]%len(lv)])
			killed++
		}
		wg.Wait()
		w.settle()

		// conservation
		seen := map[int][]kit.Event{}
		for _, e := range w.probe.Events() {
			if (e.Proc == "worker" || e.Proc == "pool") && (e.Kind == "msg" || e.Kind == "call") {
				if id, ok := isItem(e.Msg); ok {
					seen[id] = append(seen[id], e)
				}
			}
		}
		missing := 0
		for id := 0; id < total+ncall; id++ {
			evs := seen[id]
			if len(evs) > 1 {
				t.Fatalf("item %d was handled %d times: %s", id, len(evs), describeEvents(evs))
			}
			if len(evs) == 0 {
				missing++
				continue
			}
			e := evs[0]
			if e.Proc != "worker" {
				t.Fatalf("normal-priority item %d was handled by the pool process itself", id)
			}
			var want gen.PID
			if id < total {
				want = w.senders[id/per]
			} else {
				want = calls[id-total].pid
			}
			if e.From != want {
				t.Fatalf("item %d: the worker saw sender %s, the real sender is %s", id, e.From, want)
			}
		}
		for _, cr := range calls {
			evs := seen[cr.id]
			if cr.err == nil {
				r, ok := cr.reply.(Reply)
				if !ok || r.ID != cr.id || len(evs) != 1 || r.Worker != evs[0].PID {
					t.Fatalf("request %d: the caller got %#v, handled by %s", cr.id, cr.reply, describeEvents(evs))
				}
			} else if killed == 0 && mbox == 0 {
				t.Fatalf("request %d to a healthy pool with unbounded worker mailboxes returned %v", cr.id, cr.err)
			}
		}
		refused := 0
		if killed == 0 {
			var insp map[string]string
			w.inPool(func(p *kit.Pool) { insp = p.Pool.HandleInspect(gen.PID{}) })
			refused, _ = strconv.Atoi(insp["messages_unhandled"])
			if missing != refused {
				t.Fatalf("%d items were never handled, the pool counted %d unhandled (no worker was killed; size %d, mailbox %d)", missing, refused, size, mbox)
			}
			if mbox == 0 && missing != 0 {
				t.Fatalf("%d items lost by a healthy pool with unbounded worker mailboxes", missing)
			}
		}
		// ring restoration
		w.nextID = total + ncall
		for i := 0; i < 2*size+1; i++ {
			w.dispatch("send", i, false)
		}
		if l := len(w.live()); l != size {
			t.Fatalf("%d live workers after two dispatch rounds, configured size %d (killed %d)", l, size, killed)
		}
		labels := []string{fmt.Sprintf("kills=%d", killed)}
		if refused > 0 {
			labels = append(labels, "refused")
		}
		recConc.Case(killed > 0 || refused > 0, fmt.Sprintf("size=%d mbox=%d spin=%d senders=%d per=%d calls=%d kills=%v/%v", size, mbox, spin, nsend, per, ncall, killAt, killIdx), labels...)
	})
}
