//go:build verif

// Package metalab holds the meta-process scenarios shared by C01 (one callback at a time),
// C05 (termination once, right reason) and C06 (the alias is released).
package metalab

import (
	"errors"
	"fmt"
	"strings"
	"sync"
	"time"

	"ergo.services/ergo/gen"
	"pgregory.net/rapid"

	"verif/harness/kit"
)

// Rule is the evidence text of the scenario family.
const Rule = "a meta-process (mailbox unbounded or 1..3) spawned by an actor and monitored through its alias by an observer; 2-4 agents x 1-3 ops from {send by alias, call by alias, inspect, exit signal to the meta-process, Start() returns (nil or error), stop message, panicking message, parent is killed}; in one case of five the Terminate callback itself panics; with the controlled scheduler over meta.* yield points or free-running; handlers spin 0-30us; " +
	"oracle: entry/exit counter over Init/HandleMessage/HandleCall/HandleInspect/Terminate never exceeds 1 (Start is the meta-process's own loop and excluded), Terminate runs at most once and nothing runs after it; its reason and the reason told to the alias monitor are one of the issued causes, never nil, the monitor is told exactly once; after the termination the alias is released (sends to it are refused, MetaInfo fails, the node's alias count is back); " +
	"non-trivial = a termination cause was issued while >= 1 other op was in flight; distinct by script (+trace)"

const (
	mSend = iota
	mCall
	mInspect
	mExit
	mStartReturns
	mStartFails
	mStop
	mBoom
	mKillParent
)

var mNames = []string{"send", "call", "inspect", "exit", "start-returns", "start-fails", "stop", "boom", "kill-parent"}

// Prop is one generated meta-process scenario.
func Prop(t *rapid.T, scheduled bool, recMeta *kit.Recorder) {
	mbox := rapid.SampledFrom([]int64{0, 0, 1, 3}).Draw(t, "mailbox")
	spinNs := int64(rapid.IntRange(0, 30).Draw(t, "spin_us")) * 1000
	na := rapid.IntRange(2, 4).Draw(t, "agents")
	agents := make([][]int, na)
	var desc []string
	causes := 0
	for i := range agents {
		n := rapid.IntRange(1, 3).Draw(t, "ops")
		for j := 0; j < n; j++ {
			o := rapid.SampledFrom([]int{mSend, mSend, mCall, mInspect, mExit, mStartReturns, mStartFails, mStop, mBoom, mKillParent}).Draw(t, "op")
			if o >= mExit {
				causes++
			}
			agents[i] = append(agents[i], o)
			desc = append(desc, fmt.Sprintf("%d:%s", i, mNames[o]))
		}
	}
	// the Terminate callback itself may panic: it still runs once, and everything else ends as usual
	termPanics := rapid.IntRange(0, 4).Draw(t, "terminate_panics") == 0
	if termPanics {
		desc = append(desc, "terminate-panics")
		// (not together with a panicking message handler: the node calls Terminate from inside its
		// panic handler then, and a second panic there is not recovered by anything - the whole OS
		// process dies. No listed property speaks about that; see DESIGN.md section 9.)
		for i := range agents {
			for j, o := range agents[i] {
				if o == mBoom {
					agents[i][j] = mStop
				}
			}
		}
		desc = desc[:0]
		for i := range agents {
			for _, o := range agents[i] {
				desc = append(desc, fmt.Sprintf("%d:%s", i, mNames[o]))
			}
		}
		desc = append(desc, "terminate-panics")
	}
	var choices []int
	if scheduled {
		choices = rapid.SliceOfN(rapid.IntRange(0, 7), 8, 48).Draw(t, "schedule")
	}

	node, err := kit.StartLocalNode()
	if err != nil {
		t.Fatalf("start node: %v", err)
	}
	defer node.StopForce()
	probe := kit.NewProbe()
	parent, err := node.Spawn(kit.Factory(&kit.ActorConfig{Label: "parent", Probe: probe, Quiet: true}), gen.ProcessOptions{})
	if err != nil {
		t.Fatalf("spawn: %v", err)
	}
	startErr := make(chan error, 1)
	cfg := &kit.MetaConfig{Label: "meta", Probe: probe, SpinNs: spinNs, PanicInTerminate: termPanics}
	cfg.Stop = make(chan struct{})
	cfg.StartFn = func(m *kit.Meta) error {
		select {
		case <-cfg.Stop:
			return nil
		case e := <-startErr:
			return e
		}
	}
	var alias gen.Alias
	var serr error
	if e := kit.InProc(node, parent, func(a *kit.Actor) {
		alias, serr = a.SpawnMeta(kit.NewMeta(cfg), gen.MetaOptions{MailboxSize: mbox})
	}); e != nil || serr != nil {
		t.Fatalf("spawn meta: %v %v", e, serr)
	}
	defer cfg.StopStart()
	aliasesBefore := int64(0)
	if info, err := node.Info(); err == nil {
		aliasesBefore = info.RegisteredAliases
	}
	// wait until the meta process is up (state sleep)
	kit.WaitUntil(time.Second, func() bool {
		mi, err := node.MetaInfo(alias)
		return err == nil && mi.State == gen.MetaStateSleep
	})
	helper, _ := node.Spawn(kit.Factory(&kit.ActorConfig{Label: "helper", Probe: probe, Quiet: true}), gen.ProcessOptions{})
	// an observer monitoring the meta-process's alias: it must learn the reason, once
	var omu sync.Mutex
	var downs []error
	observer, _ := node.Spawn(kit.Factory(&kit.ActorConfig{Label: "observer", Probe: probe, Quiet: true,
		OnMessage: func(a *kit.Actor, from gen.PID, msg any) (bool, error) {
			if d, ok := msg.(gen.MessageDownAlias); ok && d.Alias == alias {
				omu.Lock()
				downs = append(downs, d.Reason)
				omu.Unlock()
			}
			return true, nil
		}}), gen.ProcessOptions{})
	var merr error
	kit.InProc(node, observer, func(a *kit.Actor) { merr = a.MonitorAlias(alias) })
	if merr != nil {
		t.Fatalf("monitor meta alias: %v", merr)
	}

	var s *kit.Sched
	if scheduled {
		s = kit.NewSched(func(name string, id uint64) bool {
			return id == alias.ID[0] && strings.HasPrefix(name, "meta.")
		})
		defer s.Close()
	}
	var wg sync.WaitGroup
	for i, ops := range agents {
		wg.Add(1)
		go func(i int, ops []int) {
			defer wg.Done()
			for j, o := range ops {
				payload := kit.Numbered{ID: i*100 + j}
				switch o {
				case mSend:
					node.Send(alias, payload)
				case mCall:
					c, err := node.Spawn(kit.Factory(&kit.ActorConfig{Label: "caller", Probe: probe, Quiet: true}), gen.ProcessOptions{})
					if err == nil {
						node.Send(c, kit.Do{F: func(a *kit.Actor) { a.CallWithTimeout(alias, payload, 1) }})
					}
				case mInspect:
					c, err := node.Spawn(kit.Factory(&kit.ActorConfig{Label: "inspector", Probe: probe, Quiet: true}), gen.ProcessOptions{})
					if err == nil {
						node.Send(c, kit.Do{F: func(a *kit.Actor) { a.InspectMeta(alias) }})
					}
				case mExit:
					node.Send(helper, kit.Do{F: func(a *kit.Actor) { a.SendExitMeta(alias, errors.New("exit-meta")) }})
				case mStartReturns:
					cfg.StopStart()
				case mStartFails:
					select {
					case startErr <- errors.New("start-failed"):
					default:
					}
				case mStop:
					node.Send(alias, kit.Stop{Reason: gen.TerminateReasonNormal})
				case mBoom:
					node.Send(alias, kit.Boom{})
				case mKillParent:
					node.Kill(parent)
				}
			}
		}(i, ops)
	}
	doneCh := make(chan struct{})
	go func() { wg.Wait(); close(doneCh) }()
	var trace []string
	if s != nil {
		s.Run(choices, func() bool {
			select {
			case <-doneCh:
				return true
			default:
				return false
			}
		}, 3*time.Second)
		s.Close()
		trace = s.Trace
	}
	<-doneCh
	time.Sleep(3 * time.Millisecond)
	kit.WaitUntil(time.Second, func() bool {
		mi, err := node.MetaInfo(alias)
		if err != nil {
			return true
		}
		return mi.State == gen.MetaStateSleep && mi.MailboxQueues.Main == 0 && mi.MailboxQueues.System == 0
	})
	time.Sleep(2 * time.Millisecond)
	if _, err := node.MetaInfo(alias); err != nil {
		// the alias is released before the terminate callback has been recorded: wait for it
		kit.WaitUntil(3*time.Second, func() bool {
			evs := probe.EventsOf("meta")
			return len(evs) > 0 && evs[len(evs)-1].Kind == "terminate"
		})
	}

	if n, d := probe.Overlaps(); n > 0 {
		t.Fatalf("%d overlapping callback executions: %v\nscript: %v\ntrace: %v", n, d, desc, trace)
	}
	evs := probe.EventsOf("meta")
	nterm := 0
	for i, e := range evs {
		if e.Kind == "terminate" {
			nterm++
			if i != len(evs)-1 {
				t.Fatalf("meta-process callback %q ran after Terminate; script %v trace %v", evs[len(evs)-1].Kind, desc, trace)
			}
		}
	}
	if nterm > 1 {
		t.Fatalf("meta-process Terminate ran %d times; script %v", nterm, desc)
	}
	// the reason (C05): one of the causes that were issued, never nil
	admissible := func(r error) bool {
		if r == nil {
			return false
		}
		for _, ops := range agents {
			for _, o := range ops {
				switch o {
				case mExit:
					if r.Error() == "exit-meta" {
						return true
					}
				case mStartReturns, mStop:
					if r == gen.TerminateReasonNormal {
						return true
					}
				case mStartFails:
					if r.Error() == "start-failed" {
						return true
					}
				case mBoom:
					if r == gen.TerminateReasonPanic {
						return true
					}
				case mKillParent:
					if r == gen.TerminateReasonKill || errors.Is(r, gen.TerminateReasonKill) {
						return true
					}
				}
			}
		}
		return false
	}
	if nterm == 1 {
		reason := evs[len(evs)-1].Reason
		if !admissible(reason) {
			t.Fatalf("meta-process Terminate got reason %v, which is none of the causes issued; script %v trace %v", reason, desc, trace)
		}
		kit.WaitUntil(2*time.Second, func() bool { omu.Lock(); defer omu.Unlock(); return len(downs) >= 1 })
		time.Sleep(time.Millisecond)
		omu.Lock()
		got := append([]error(nil), downs...)
		omu.Unlock()
		if len(got) != 1 {
			t.Fatalf("the process monitoring the meta-process's alias received %d down notifications %v (want 1); script %v", len(got), got, desc)
		}
		if !admissible(got[0]) {
			t.Fatalf("the process monitoring the meta-process's alias was told reason %v, which is none of the causes issued; script %v trace %v", got[0], desc, trace)
		}
	} else {
		omu.Lock()
		n := len(downs)
		omu.Unlock()
		if n != 0 {
			t.Fatalf("the observer was notified %d times although the meta-process did not terminate; script %v", n, desc)
		}
	}
	// the registry (C06): a terminated meta-process does not keep its alias
	if nterm == 1 {
		released := kit.WaitUntil(2*time.Second, func() bool {
			_, err := node.MetaInfo(alias)
			return err != nil
		})
		if !released {
			t.Fatalf("the meta-process has terminated but MetaInfo(alias) still answers; script %v trace %v", desc, trace)
		}
		if err := node.Send(alias, "after-termination"); err == nil {
			t.Fatalf("a message to the alias of the terminated meta-process was accepted; script %v trace %v", desc, trace)
		}
		if info, err := node.Info(); err == nil && info.RegisteredAliases > aliasesBefore-1 {
			t.Fatalf("the node counts %d registered aliases after the meta-process terminated, %d before it was spawned... and %d while it was alive; script %v", info.RegisteredAliases, aliasesBefore-1, aliasesBefore, desc)
		}
	}
	key := fmt.Sprintf("mbox=%d sched=%v %v trace=%s", mbox, scheduled, desc, strings.Join(trace, ","))
	recMeta.Case(causes >= 1 && len(desc) >= 2, key, fmt.Sprintf("sched=%v", scheduled), fmt.Sprintf("terminated=%d", nterm))
}
