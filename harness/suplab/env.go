//go:build verif

// Package suplab drives the supervisor state machines (through the H2 exports)
// the way act.Supervisor.handleAction does, with the harness playing the
// supervisor's environment: every start action is answered with a fresh pid,
// every terminate action marks pids as "stopping", and deaths are events the
// generator controls. It also holds the reference model the checks compare with.
package suplab

import (
	"errors"
	"fmt"

	"ergo.services/ergo/act"
	"ergo.services/ergo/gen"
)

var (
	ErrAbnormal = errors.New("abnormal-child-failure")
	SupPID      = gen.PID{Node: "sup@localhost", ID: 999, Creation: 1}
	SupName     = gen.Atom("the_sup")
)

type Inst struct {
	Spec     int
	Name     gen.Atom
	PID      gen.PID
	Alive    bool
	Stopping bool
	StopWith error
}

type Env struct {
	Type      act.SupervisorType
	Spec      act.SupervisorSpec
	Sup       *act.VerifSup
	Names     []gen.Atom
	Insts     map[gen.PID]*Inst
	nextPID   uint64
	SupDead   bool
	SupReason error
	Log       []string
	// order bookkeeping for the current event
	Starts  []int   // spec indices of start actions, in order, since ResetOrder
	Stops   [][]int // spec indices of each terminate action, in order, since ResetOrder
	Problem string  // protocol violation seen while mirroring handleAction
}

func factory() gen.ProcessBehavior { return nil }

// NewEnv creates the state machine and runs its init sequence.
func NewEnv(spec act.SupervisorSpec) (*Env, error) {
	e := &Env{Type: spec.Type, Spec: spec, Sup: act.VerifNewSup(spec.Type), Insts: map[gen.PID]*Inst{}, nextPID: 2000}
	for i := range spec.Children {
		spec.Children[i].Factory = factory
		e.Names = append(e.Names, spec.Children[i].Name)
	}
	a, err := e.Sup.Init(spec)
	if err != nil {
		return nil, err
	}
	e.Handle(a)
	return e, nil
}

func (e *Env) specIndex(name gen.Atom) int {
	for i, n := range e.Names {
		if n == name {
			return i
		}
	}
	return -1
}

func (e *Env) logf(format string, a ...any) {
	if len(e.Log) < 300 {
		e.Log = append(e.Log, fmt.Sprintf(format, a...))
	}
}

func (e *Env) ResetOrder() {
	e.Starts = nil
	e.Stops = nil
}

// Handle mirrors act.Supervisor.handleAction.
func (e *Env) Handle(a act.VerifAction) {
	for {
		switch a.Do {
		case 0:
			return
		case 1: // start child
			e.nextPID++
			pid := gen.PID{Node: "sup@localhost", ID: e.nextPID, Creation: 1}
			idx := e.specIndex(a.SpecName)
			if idx < 0 {
				e.Problem = fmt.Sprintf("start action for unknown spec %q", a.SpecName)
				return
			}
			e.Insts[pid] = &Inst{Spec: idx, Name: a.SpecName, PID: pid, Alive: true}
			e.Starts = append(e.Starts, idx)
			e.logf("start %s -> %d", a.SpecName, pid.ID)
			a = e.Sup.ChildStarted(a, pid)
			continue
		case 2: // terminate children
			if len(a.Terminate) == 0 {
				if a.Reason != nil {
					e.SupDead, e.SupReason = true, a.Reason
					e.logf("supervisor terminates: %v", a.Reason)
				}
				return
			}
			var batch []int
			for _, pid := range a.Terminate {
				in := e.Insts[pid]
				if in == nil {
					e.Problem = fmt.Sprintf("terminate action names unknown pid %v", pid)
					continue
				}
				batch = append(batch, in.Spec)
				if in.Alive && !in.Stopping {
					in.Stopping, in.StopWith = true, a.Reason
				}
				e.logf("stop %s (%d) reason %v", in.Name, pid.ID, a.Reason)
			}
			e.Stops = append(e.Stops, batch)
			return
		case 4:
			e.SupDead, e.SupReason = true, a.Reason
			e.logf("supervisor terminates: %v", a.Reason)
			return
		default:
			e.Problem = fmt.Sprintf("action type %d is not handled by Supervisor.handleAction (it panics)", a.Do)
			return
		}
	}
}

// Die delivers the termination of an instance to the supervisor.
func (e *Env) Die(pid gen.PID, reason error) {
	in := e.Insts[pid]
	in.Alive = false
	e.logf("died %s (%d) reason %v", in.Name, pid.ID, reason)
	e.Handle(e.Sup.ChildTerminated(in.Name, pid, reason))
}

// ForeignExit delivers an exit signal from a process that is not a child.
func (e *Env) ForeignExit(reason error) {
	e.logf("foreign exit %v", reason)
	e.Handle(e.Sup.ChildTerminated(SupName, SupPID, reason))
}

func (e *Env) AliveOf(spec int) []*Inst {
	var out []*Inst
	for _, in := range e.Insts {
		if in.Alive && in.Spec == spec {
			out = append(out, in)
		}
	}
	return out
}

func (e *Env) Pending() []*Inst {
	var out []*Inst
	for _, in := range e.Insts {
		if in.Alive && in.Stopping {
			out = append(out, in)
		}
	}
	// deterministic order
	for i := 0; i < len(out); i++ {
		for j := i + 1; j < len(out); j++ {
			if out[j].PID.ID < out[i].PID.ID {
				out[i], out[j] = out[j], out[i]
			}
		}
	}
	return out
}

func (e *Env) Running() []*Inst {
	var out []*Inst
	for _, in := range e.Insts {
		if in.Alive && !in.Stopping {
			out = append(out, in)
		}
	}
	for i := 0; i < len(out); i++ {
		for j := i + 1; j < len(out); j++ {
			if out[j].PID.ID < out[i].PID.ID {
				out[i], out[j] = out[j], out[i]
			}
		}
	}
	return out
}
