//go:build verif

package c06

import (
	"testing"

	"pgregory.net/rapid"

	"verif/harness/kit"
	"verif/harness/metalab"
)

var recMeta = kit.NewRecorder("C06", "meta", metalab.Rule)

func TestMetaScheduled(t *testing.T) {
	rapid.Check(t, func(t *rapid.T) { metalab.Prop(t, true, recMeta) })
}

func TestMetaStress(t *testing.T) {
	rapid.Check(t, func(t *rapid.T) { metalab.Prop(t, false, recMeta) })
}
