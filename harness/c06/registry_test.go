package c06

import (
	"errors"
	"fmt"
	"sort"
	"sync"
	"testing"
	"time"

	"ergo.services/ergo/gen"
	"pgregory.net/rapid"

	"verif/harness/kit"
)

// ---------------------------------------------------------------- (a) identifier streams

var errInitFails = errors.New("init fails")

var recIDs = kit.NewRecorder("C06", "identifiers",
	"2-6 goroutines draw references from one node in generated burst patterns (Node.MakeRef interleaved with CreateAlias in processes, RegisterEvent tokens and pids spawned from two goroutines, a generated fraction of the spawns failing in Init), total stream length generated around and beyond 2^18 (the counter width a truncated reference would wrap at); "+
		"oracle: no reference/alias/event-token value repeats (one hash set across all kinds, they share the generator), no pid repeats; "+
		"non-trivial = total number of references drawn > 2^18; distinct by burst pattern")

func propIdentifiers(t *rapid.T) {
	ng := rapid.IntRange(2, 6).Draw(t, "goroutines")
	total := rapid.SampledFrom([]int{270000, 300000, 530000}).Draw(t, "total")
	if kit.Tier() == "thorough" {
		total = rapid.SampledFrom([]int{300000, 1100000, 4300000}).Draw(t, "total_thorough")
	}
	bursts := make([][]int, ng)
	per := total / ng
	for i := range bursts {
		left := per
		for left > 0 {
			b := rapid.IntRange(1, 50000).Draw(t, "burst")
			if b > left {
				b = left
			}
			bursts[i] = append(bursts[i], b)
			left -= b
		}
	}
	naliases := rapid.IntRange(50, 400).Draw(t, "aliases")
	nevents := rapid.IntRange(50, 400).Draw(t, "events")
	nspawn := rapid.IntRange(100, 1500).Draw(t, "spawns")
	failEvery := rapid.SampledFrom([]int{0, 3, 7}).Draw(t, "every_nth_init_fails")

	node, err := kit.StartLocalNode()
	if err != nil {
		t.Fatalf("start node: %v", err)
	}
	defer node.StopForce()
	probe := kit.NewProbe()

	type key struct {
		a, b, c uint64
	}
	seen := make(map[key]string, total+naliases+nevents)
	var mu sync.Mutex
	var dup string
	add := func(kind string, r gen.Ref) {
		k := key{r.ID[0], r.ID[1], r.ID[2]}
		if prev, ok := seen[k]; ok && dup == "" {
			dup = fmt.Sprintf("%s %v repeats an earlier %s (after %d identifiers)", kind, r, prev, len(seen))
		}
		seen[k] = kind
	}
	var wg sync.WaitGroup
	for i := 0; i < ng; i++ {
		wg.Add(1)
		go func(i int) {
			defer wg.Done()
			local := make([]gen.Ref, 0, 50000)
			for _, b := range bursts[i] {
				local = local[:0]
				for j := 0; j < b; j++ {
					local = append(local, node.MakeRef())
				}
				mu.Lock()
				for _, r := range local {
					add("ref", r)
				}
				mu.Unlock()
				time.Sleep(time.Duration(i) * 50 * time.Microsecond)
			}
		}(i)
	}
	// aliases, events and pids while the reference streams run
	wg.Add(1)
	go func() {
		defer wg.Done()
		pid, err := node.Spawn(kit.Factory(&kit.ActorConfig{Label: "p", Probe: probe, Quiet: true}), gen.ProcessOptions{})
		if err != nil {
			return
		}
		var aliases []gen.Alias
		kit.InProc(node, pid, func(a *kit.Actor) {
			for i := 0; i < naliases; i++ {
				al, err := a.CreateAlias()
				if err == nil {
					aliases = append(aliases, al)
				}
			}
		})
		mu.Lock()
		for _, al := range aliases {
			add("alias", gen.Ref(al))
		}
		mu.Unlock()
		for i := 0; i < nevents; i++ {
			tok, err := node.RegisterEvent(gen.Atom(fmt.Sprintf("e%d", i)), gen.EventOptions{})
			if err == nil {
				mu.Lock()
				add("event-token", tok)
				mu.Unlock()
			}
		}
	}()
	// process ids: two goroutines spawn concurrently; some of the processes fail in their Init (a
	// generated fraction, some of them slowly, so that other spawns happen meanwhile). Every id a
	// process was given - as seen by its own Init, whether it succeeds or not - is unique.
	pids := map[gen.PID]bool{}
	var pidDup string
	var pmu sync.Mutex
	seenInit := func(p gen.PID) {
		pmu.Lock()
		if pids[p] && pidDup == "" {
			pidDup = fmt.Sprintf("pid %v was handed out twice", p)
		}
		pids[p] = true
		pmu.Unlock()
	}
	okCfg := &kit.ActorConfig{Label: "s", Probe: probe, Quiet: true, OnInit: func(a *kit.Actor, args ...any) error {
		seenInit(a.PID())
		return nil
	}}
	failCfg := &kit.ActorConfig{Label: "f", Probe: probe, Quiet: true, OnInit: func(a *kit.Actor, args ...any) error {
		seenInit(a.PID())
		if len(args) > 0 {
			time.Sleep(30 * time.Microsecond)
		}
		return errInitFails
	}}
	for g := 0; g < 2; g++ {
		wg.Add(1)
		go func(g int) {
			defer wg.Done()
			for i := 0; i < nspawn/2; i++ {
				if failEvery > 0 && (i+g)%failEvery == 0 {
					if i%2 == 0 {
						node.Spawn(kit.Factory(failCfg), gen.ProcessOptions{}, "slow")
					} else {
						node.Spawn(kit.Factory(failCfg), gen.ProcessOptions{})
					}
					continue
				}
				p, err := node.Spawn(kit.Factory(okCfg), gen.ProcessOptions{})
				if err != nil {
					continue
				}
				if i%3 == 0 {
					node.Kill(p)
				}
			}
		}(g)
	}
	wg.Wait()
	if dup != "" {
		t.Fatalf("identifier repeated within one node lifetime: %s", dup)
	}
	if pidDup != "" {
		t.Fatalf("%s", pidDup)
	}
	recIDs.Case(len(seen) > 1<<18, fmt.Sprintf("goroutines=%d total=%d bursts[0]=%v aliases=%d events=%d spawns=%d", ng, len(seen), bursts[0][:min(6, len(bursts[0]))], naliases, nevents, nspawn))
}

func min(a, b int) int {
	if a < b {
		return a
	}
	return b
}

func TestIdentifiers(t *testing.T) {
	rapid.Check(t, propIdentifiers)
}

// ---------------------------------------------------------------- (b) claim races

var recClaim = kit.NewRecorder("C06", "claims",
	"k in 2..8 contenders claim one name concurrently through a generated mixture of Node.SpawnRegister, Process.RegisterName and Node.RegisterName (and k contenders one event name through Process.RegisterEvent / Node.RegisterEvent), for 1-4 rounds separated by a release (UnregisterName / UnregisterEvent / killing the owner); "+
		"oracle: exactly one contender succeeds per round, every other gets an error, the name resolves to the winner (a numbered message sent by name is handled by the winner and nobody else), after the release the name is claimable again; "+
		"non-trivial = >= 3 contenders; distinct by script")

func propClaims(t *rapid.T) {
	k := rapid.IntRange(2, 8).Draw(t, "contenders")
	rounds := rapid.IntRange(1, 4).Draw(t, "rounds")
	type rnd struct {
		modes   []int // 0 SpawnRegister 1 Process.RegisterName 2 Node.RegisterName
		release int   // 0 UnregisterName by owner 1 Node.UnregisterName 2 kill owner
		evModes []int // 0 process 1 node
	}
	var script []rnd
	for r := 0; r < rounds; r++ {
		var x rnd
		for i := 0; i < k; i++ {
			x.modes = append(x.modes, rapid.IntRange(0, 2).Draw(t, "mode"))
			x.evModes = append(x.evModes, rapid.IntRange(0, 4).Draw(t, "evmode"))
		}
		x.release = rapid.IntRange(0, 2).Draw(t, "release")
		script = append(script, x)
	}
	node, err := kit.StartLocalNode()
	if err != nil {
		t.Fatalf("start node: %v", err)
	}
	defer node.StopForce()
	probe := kit.NewProbe()
	name := gen.Atom("the_name")
	evName := gen.Atom("the_event")

	for r, x := range script {
		// contenders that need an existing process
		procs := make([]gen.PID, k)
		for i := 0; i < k; i++ {
			if x.modes[i] != 0 {
				p, err := node.Spawn(kit.Factory(&kit.ActorConfig{Label: fmt.Sprintf("c%d.%d", r, i), Probe: probe}), gen.ProcessOptions{})
				if err != nil {
					t.Fatalf("spawn: %v", err)
				}
				procs[i] = p
			}
		}
		errs := make([]error, k)
		evErrs := make([]error, k)
		start := make(chan struct{})
		var wg sync.WaitGroup
		for i := 0; i < k; i++ {
			wg.Add(1)
			go func(i int) {
				defer wg.Done()
				<-start
				switch x.modes[i] {
				case 0:
					p, err := node.SpawnRegister(name, kit.Factory(&kit.ActorConfig{Label: fmt.Sprintf("c%d.%d", r, i), Probe: probe}), gen.ProcessOptions{})
					procs[i], errs[i] = p, err
				case 1:
					var rerr error
					if e := kit.InProc(node, procs[i], func(a *kit.Actor) { rerr = a.RegisterName(name) }); e != nil {
						rerr = e
					}
					errs[i] = rerr
				case 2:
					errs[i] = node.RegisterName(name, procs[i])
				}
				// event contention: only some contenders take part
				switch x.evModes[i] {
				case 0:
					if procs[i] != (gen.PID{}) && errs[i] == nil || x.modes[i] != 0 {
						var rerr error
						if e := kit.InProc(node, procs[i], func(a *kit.Actor) { _, rerr = a.RegisterEvent(evName, gen.EventOptions{}) }); e != nil {
							rerr = e
						}
						evErrs[i] = rerr
					} else {
						evErrs[i] = errors.New("not taking part")
					}
				case 1:
					_, evErrs[i] = node.RegisterEvent(evName, gen.EventOptions{})
				default:
					evErrs[i] = errors.New("not taking part")
				}
			}(i)
		}
		close(start)
		wg.Wait()
		winner := -1
		for i, e := range errs {
			if e == nil {
				if winner >= 0 {
					t.Fatalf("round %d: contenders %d and %d both claimed name %q successfully (modes %v)", r, winner, i, name, x.modes)
				}
				winner = i
			}
		}
		if winner < 0 {
			t.Fatalf("round %d: nobody could claim the free name %q: %v (modes %v)", r, name, errs, x.modes)
		}
		// resolution
		if err := node.Send(name, kit.Numbered{ID: 1000 + r}); err != nil {
			t.Fatalf("round %d: send by name failed although contender %d owns it: %v", r, winner, err)
		}
		wantLabel := fmt.Sprintf("c%d.%d", r, winner)
		ok := kit.WaitUntil(2*time.Second, func() bool {
			for _, e := range probe.Events() {
				if n, isN := e.Msg.(kit.Numbered); isN && n.ID == 1000+r {
					return true
				}
			}
			return false
		})
		if !ok {
			t.Fatalf("round %d: message sent by name was never handled", r)
		}
		for _, e := range probe.Events() {
			if n, isN := e.Msg.(kit.Numbered); isN && n.ID == 1000+r && e.Proc != wantLabel {
				t.Fatalf("round %d: name %q was claimed by %s but resolved to %s", r, name, wantLabel, e.Proc)
			}
		}
		// event winners
		evWinners := 0
		evTaking := 0
		for i, e := range evErrs {
			if x.evModes[i] <= 1 && (e == nil || e.Error() != "not taking part") {
				evTaking++
			}
			if e == nil {
				evWinners++
			}
		}
		if evTaking > 0 && evWinners != 1 {
			t.Fatalf("round %d: %d of %d contenders registered event %q successfully: %v", r, evWinners, evTaking, evName, evErrs)
		}
		// release
		switch x.release {
		case 0:
			var uerr error
			kit.InProc(node, procs[winner], func(a *kit.Actor) { uerr = a.UnregisterName() })
			if uerr != nil {
				t.Fatalf("round %d: owner could not unregister its name: %v", r, uerr)
			}
		case 1:
			if p, err := node.UnregisterName(name); err != nil || p != procs[winner] {
				t.Fatalf("round %d: Node.UnregisterName returned %v, %v; owner is %v", r, p, err, procs[winner])
			}
		case 2:
			node.Kill(procs[winner])
			w := procs[winner]
			if !kit.WaitUntil(10*time.Second, func() bool { return probe.Terminated(fmt.Sprintf("c%d.%d", r, winner), w) }) {
				t.Skip("terminate callback did not complete in time (inconclusive)")
			}
		}
		if err := node.Send(name, kit.Numbered{ID: -1}); err == nil {
			t.Fatalf("round %d: name %q still resolves after its release (mode %d)", r, name, x.release)
		}
		// release the event: find its owner by trying
		if evTaking > 0 {
			released := node.UnregisterEvent(evName) == nil
			for i := 0; i < k && !released; i++ {
				if evErrs[i] == nil && x.evModes[i] == 0 {
					var uerr error
					if e := kit.InProc(node, procs[i], func(a *kit.Actor) { uerr = a.UnregisterEvent(evName) }); e == nil && uerr == nil {
						released = true
					} else if _, perr := node.ProcessInfo(procs[i]); perr != nil {
						released = true // owner was killed: the event must be gone with it
					}
				}
			}
			if _, err := node.RegisterEvent(evName, gen.EventOptions{}); err != nil {
				t.Fatalf("round %d: event %q cannot be claimed again after its release: %v", r, evName, err)
			}
			node.UnregisterEvent(evName)
		}
		// clean the losers
		for i, p := range procs {
			if i != winner && p != (gen.PID{}) {
				node.Kill(p)
			}
		}
	}
	recClaim.Case(k >= 3, fmt.Sprintf("k=%d script=%v", k, script))
}

func TestClaims(t *testing.T) {
	rapid.Check(t, propClaims)
}

// ---------------------------------------------------------------- (c) release on termination

var recRelease = kit.NewRecorder("C06", "release",
	"a process runs a generated history of <= 25 steps (register/unregister its name, create aliases and delete generated ones, register/unregister events, spawn meta-processes, link/monitor other processes by pid/name/alias/event, be linked/monitored by others), then terminates by a generated cause (normal return, error, panic, Kill, exit signal); "+
		"oracle: node Info() counts of names/aliases/events return to the baseline, the pid is absent from ProcessList, sends by the old name and by every alias it ever held fail, MetaInfo of its meta-processes fails, its name and events can be claimed again, and the (injected) target manager holds no relation with it as requester or as target under any of its identities; "+
		"non-trivial = the process held >= 2 aliases after >= 1 delete, or >= 1 relation as requester; distinct by history")

func propRelease(t *rapid.T) {
	tm := gen.CreateDefaultTargetManager()
	node, err := kit.StartLocalNode(func(o *gen.NodeOptions) { o.TargetManager = tm })
	if err != nil {
		t.Fatalf("start node: %v", err)
	}
	defer node.StopForce()
	probe := kit.NewProbe()
	spawn := func(label string, name gen.Atom) gen.PID {
		cfg := &kit.ActorConfig{Label: label, Probe: probe, Quiet: true, Trap: true}
		var p gen.PID
		var err error
		if name != "" {
			p, err = node.SpawnRegister(name, kit.Factory(cfg), gen.ProcessOptions{})
		} else {
			p, err = node.Spawn(kit.Factory(cfg), gen.ProcessOptions{})
		}
		if err != nil {
			t.Fatalf("spawn %s: %v", label, err)
		}
		return p
	}
	// environment: two other processes with a name, an alias and an event each
	others := []gen.PID{spawn("o1", "other1"), spawn("o2", "other2")}
	otherAlias := make([]gen.Alias, 2)
	for i, o := range others {
		i := i
		kit.InProc(node, o, func(a *kit.Actor) {
			otherAlias[i], _ = a.CreateAlias()
			a.RegisterEvent(gen.Atom(fmt.Sprintf("oev%d", i)), gen.EventOptions{})
		})
	}
	base, err := node.Info()
	if err != nil {
		t.Fatalf("info: %v", err)
	}

	subject := spawn("subject", "")
	const (
		sRegName = iota
		sUnregName
		sCreateAlias
		sDeleteAlias
		sRegEvent
		sUnregEvent
		sSpawnMeta
		sLink
		sMonitor
		sBeLinked
		sBeMonitored
		sUnlink
		sCount
	)
	nsteps := rapid.IntRange(3, 25).Draw(t, "steps")
	var hist []string
	var aliasesEver []gen.Alias
	var liveAliases []gen.Alias
	var metas []gen.Alias
	var metaCfgs []*kit.MetaConfig
	name := gen.Atom("")
	namesEver := map[gen.Atom]bool{}
	events := map[gen.Atom]bool{}
	eventsEver := map[gen.Atom]bool{}
	relAsRequester := 0
	deletes := 0
	maxAliasesAfterDelete := 0
	for i := 0; i < nsteps; i++ {
		st := rapid.IntRange(0, sCount-1).Draw(t, "step")
		arg := rapid.IntRange(0, 7).Draw(t, "arg")
		var serr error
		run := func(f func(a *kit.Actor)) {
			if e := kit.InProc(node, subject, f); e != nil {
				t.Fatalf("inproc: %v", e)
			}
		}
		switch st {
		case sRegName:
			n := gen.Atom(fmt.Sprintf("subj%d", arg%3))
			run(func(a *kit.Actor) { serr = a.RegisterName(n) })
			if serr == nil {
				name = n
				namesEver[n] = true
			}
			hist = append(hist, fmt.Sprintf("regname(%s)=%v", n, serr))
		case sUnregName:
			run(func(a *kit.Actor) { serr = a.UnregisterName() })
			if serr == nil {
				name = ""
			}
			hist = append(hist, fmt.Sprintf("unregname=%v", serr))
		case sCreateAlias:
			var al gen.Alias
			run(func(a *kit.Actor) { al, serr = a.CreateAlias() })
			if serr == nil {
				aliasesEver = append(aliasesEver, al)
				liveAliases = append(liveAliases, al)
			}
			hist = append(hist, fmt.Sprintf("alias=%v", serr))
		case sDeleteAlias:
			if len(liveAliases) == 0 {
				continue
			}
			k := arg % len(liveAliases)
			al := liveAliases[k]
			run(func(a *kit.Actor) { serr = a.DeleteAlias(al) })
			if serr != nil {
				t.Fatalf("DeleteAlias of an alias the process holds failed: %v (history %v)", serr, hist)
			}
			liveAliases = append(liveAliases[:k:k], liveAliases[k+1:]...)
			deletes++
			hist = append(hist, fmt.Sprintf("delalias(#%d)", k))
			// the process's own view must agree with the model
			var own []gen.Alias
			run(func(a *kit.Actor) { own = a.Aliases() })
			if !sameAliases(own, liveAliases) {
				t.Fatalf("after deleting alias #%d the process lists aliases %v, the model holds %v (history %v)", k, own, liveAliases, hist)
			}
		case sRegEvent:
			n := gen.Atom(fmt.Sprintf("sev%d", arg%3))
			run(func(a *kit.Actor) { _, serr = a.RegisterEvent(n, gen.EventOptions{Buffer: arg % 3}) })
			if serr == nil {
				events[n] = true
				eventsEver[n] = true
			}
			hist = append(hist, fmt.Sprintf("regevent(%s)=%v", n, serr))
		case sUnregEvent:
			n := gen.Atom(fmt.Sprintf("sev%d", arg%3))
			run(func(a *kit.Actor) { serr = a.UnregisterEvent(n) })
			if serr == nil {
				delete(events, n)
			}
			hist = append(hist, fmt.Sprintf("unregevent(%s)=%v", n, serr))
		case sSpawnMeta:
			cfg := &kit.MetaConfig{Label: "m", Probe: probe}
			var al gen.Alias
			run(func(a *kit.Actor) { al, serr = a.SpawnMeta(kit.NewMeta(cfg), gen.MetaOptions{}) })
			if serr == nil {
				metas = append(metas, al)
				metaCfgs = append(metaCfgs, cfg)
			}
			hist = append(hist, fmt.Sprintf("meta=%v", serr))
		case sLink, sMonitor:
			o := arg % 2
			var target any
			switch (arg / 2) % 4 {
			case 0:
				target = others[o]
			case 1:
				target = gen.Atom(fmt.Sprintf("other%d", o+1))
			case 2:
				target = otherAlias[o]
			case 3:
				target = gen.Event{Name: gen.Atom(fmt.Sprintf("oev%d", o)), Node: node.Name()}
			}
			run(func(a *kit.Actor) {
				if ev, isEv := target.(gen.Event); isEv {
					if st == sLink {
						_, serr = a.LinkEvent(ev)
					} else {
						_, serr = a.MonitorEvent(ev)
					}
					return
				}
				if st == sLink {
					serr = a.Link(target)
				} else {
					serr = a.Monitor(target)
				}
			})
			if serr == nil {
				relAsRequester++
			}
			hist = append(hist, fmt.Sprintf("rel(%d,%v)=%v", st, target, serr))
		case sUnlink:
			run(func(a *kit.Actor) { serr = a.Unlink(others[arg%2]) })
			if serr == nil {
				relAsRequester--
			}
			hist = append(hist, fmt.Sprintf("unlink=%v", serr))
		case sBeLinked, sBeMonitored:
			o := others[arg%2]
			var target any = subject
			switch (arg / 2) % 3 {
			case 1:
				if name != "" {
					target = name
				}
			case 2:
				if len(liveAliases) > 0 {
					target = liveAliases[0]
				}
			}
			var oerr error
			kit.InProc(node, o, func(a *kit.Actor) {
				if st == sBeLinked {
					oerr = a.Link(target)
				} else {
					oerr = a.Monitor(target)
				}
			})
			hist = append(hist, fmt.Sprintf("be(%d,%v)=%v", st, target, oerr))
		}
		if deletes > 0 && len(liveAliases) > maxAliasesAfterDelete {
			maxAliasesAfterDelete = len(liveAliases)
		}
	}
	cause := rapid.IntRange(0, 4).Draw(t, "cause")
	switch cause {
	case 0:
		node.Send(subject, kit.Stop{Reason: gen.TerminateReasonNormal})
	case 1:
		node.Send(subject, kit.Stop{Reason: errors.New("boom-reason")})
	case 2:
		node.Send(subject, kit.Boom{})
	case 3:
		node.Kill(subject)
	case 4:
		node.SendExit(subject, errors.New("exit-reason")) // from the node core = the parent: cannot be trapped
	}
	// the terminate callback runs after unregisterProcess has released everything
	if !kit.WaitUntil(10*time.Second, func() bool { return probe.Terminated("subject", subject) }) {
		if _, err := node.ProcessInfo(subject); err == nil {
			t.Fatalf("subject did not terminate (cause %d, history %v)", cause, hist)
		}
		t.Skip("terminate callback did not complete in time (inconclusive)")
	}
	for _, c := range metaCfgs {
		c.StopStart()
	}
	// let the meta processes and notifications drain
	var info gen.NodeInfo
	settled := kit.WaitUntil(2*time.Second, func() bool {
		info, _ = node.Info()
		return info.RegisteredAliases == base.RegisteredAliases
	})
	_ = settled
	info, _ = node.Info()
	fail := func(format string, a ...any) {
		t.Fatalf("%s\ncause=%d history=%v", fmt.Sprintf(format, a...), cause, hist)
	}
	if info.RegisteredNames != base.RegisteredNames {
		fail("registered names: %d, baseline %d", info.RegisteredNames, base.RegisteredNames)
	}
	if info.RegisteredAliases != base.RegisteredAliases {
		fail("registered aliases: %d, baseline %d (the terminated process created %d, deleted %d, had %d meta-processes)", info.RegisteredAliases, base.RegisteredAliases, len(aliasesEver), deletes, len(metas))
	}
	if info.RegisteredEvents != base.RegisteredEvents {
		fail("registered events: %d, baseline %d", info.RegisteredEvents, base.RegisteredEvents)
	}
	pl, _ := node.ProcessList()
	for _, p := range pl {
		if p == subject {
			fail("terminated process is still in the process list")
		}
	}
	for n := range namesEver {
		if err := node.Send(n, "x"); err == nil {
			fail("send by the old name %q still succeeds", n)
		}
	}
	for _, al := range aliasesEver {
		if err := node.Send(al, "x"); err == nil {
			fail("send by an old alias %v still succeeds", al)
		}
	}
	for _, m := range metas {
		if _, err := node.MetaInfo(m); err == nil {
			fail("MetaInfo of meta-process %v of the terminated process still succeeds", m)
		}
	}
	// everything can be claimed again
	for n := range namesEver {
		claimer := spawn("claimer", "")
		if err := node.RegisterName(n, claimer); err != nil {
			fail("old name %q cannot be claimed again: %v", n, err)
		}
		node.UnregisterName(n)
	}
	for n := range eventsEver {
		if _, err := node.RegisterEvent(n, gen.EventOptions{}); err != nil {
			fail("old event %q cannot be claimed again: %v", n, err)
		}
		node.UnregisterEvent(n)
	}
	// relations
	if l, m := tm.GetTargetsForConsumer(subject); len(l)+len(m) != 0 {
		fail("terminated process is still a requester in %d link and %d monitor relations: %v %v", len(l), len(m), l, m)
	}
	ids := []any{subject}
	for n := range namesEver {
		ids = append(ids, gen.ProcessID{Name: n, Node: node.Name()})
	}
	for _, al := range aliasesEver {
		ids = append(ids, al)
	}
	for _, m := range metas {
		ids = append(ids, m)
	}
	for n := range eventsEver {
		ids = append(ids, gen.Event{Name: n, Node: node.Name()})
	}
	for _, id := range ids {
		if c := tm.GetConsumersForTarget(id); len(c) != 0 {
			fail("terminated process is still a target (%v) of %v", id, c)
		}
	}
	sort.Strings(hist)
	recRelease.Case(maxAliasesAfterDelete >= 2 || relAsRequester >= 1, fmt.Sprintf("cause=%d %v", cause, hist), fmt.Sprintf("cause=%d", cause))
}

func sameAliases(a, b []gen.Alias) bool {
	if len(a) != len(b) {
		return false
	}
	m := map[gen.Alias]int{}
	for _, x := range a {
		m[x]++
	}
	for _, x := range b {
		m[x]--
	}
	for _, v := range m {
		if v != 0 {
			return false
		}
	}
	return true
}

func TestRelease(t *testing.T) {
	rapid.Check(t, propRelease)
}
