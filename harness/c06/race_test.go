package c06

import (
	"testing"

	"pgregory.net/rapid"

	"verif/harness/kit"
	"verif/harness/racelab"
)

// "Once a process has terminated [or released an identity] ... it appears in no link or
// monitor relation, neither as target nor as requester" - also for a relation that was
// requested at the very moment the identity went away. The race itself is racelab's.
var recVanish = kit.NewRecorder("C06", "vanish-race",
	"1-2 link/monitor requests on the pid, registered name, alias or event of a process race with Kill, a stop message, or the unregistration of that identity; the interleaving of the relation inserts with the drain of the identity's relations is drawn by rapid at the boundary of an injected wrapping gen.TargetManager; "+
		"oracle: after the identity is gone the target manager holds no relation with it as target (HasLink/HasMonitor false for every requester), and no requester is left with nil-and-silence; "+
		"non-trivial = an insert and a drain were parked at the same moment; distinct by trace")

func TestVanishRace(t *testing.T) {
	rapid.Check(t, func(t *rapid.T) { racelab.Prop(t, true, -1, recVanish) })
}
