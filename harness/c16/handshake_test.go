package c16

import (
	"crypto/sha256"
	"encoding/binary"
	"errors"
	"fmt"
	"net"
	"strings"
	"sync"
	"sync/atomic"
	"testing"
	"time"

	"ergo.services/ergo/gen"
	"ergo.services/ergo/lib"
	"ergo.services/ergo/net/edf"
	"ergo.services/ergo/net/handshake"
	"ergo.services/ergo/net/proto"
	"pgregory.net/rapid"

	"verif/harness/kit"
	"verif/harness/kit/netkit"
)

// The hostile handshake peer is an honest implementation of the protocol (it can compute every
// digest, with the right or a wrong cookie) that deviates as its plan says: per message it sends,
// field-level tweaks of the message value, byte-level mutations of its encoding, a wrong frame
// header, odd segmentation. That reaches the code behind the authentication checks, which raw
// byte mutation alone practically never does.

type hsTweak struct {
	Field  string `json:"f"`
	Choice int    `json:"c"`
}

type bmut struct {
	Op  int    `json:"op"`
	Pos int    `json:"pos"` // permille of the encoded length
	Arg uint32 `json:"arg"`
}

type hsMsgPlan struct {
	Replace int       `json:"replace,omitempty"` // 0 no, 1 nil, 2 int, 3 hello, 4 envelope, 5 accept
	Tweaks  []hsTweak `json:"tweaks,omitempty"`
	Muts    []bmut    `json:"muts,omitempty"`
	Hdr     int       `json:"hdr,omitempty"`
	Split   int       `json:"split,omitempty"` // 0 one write, 1 byte by byte, 2 together with the next message
}

type hsPlan struct {
	Test   string      `json:"test"`
	Role   int         `json:"role"` // victim: 0 accepts (peer dials), 1 starts (peer accepts), 2 joins (peer accepts), 3 accepts a join
	Knows  bool        `json:"knows_cookie"`
	Msgs   []hsMsgPlan `json:"msgs"`
	Tail   []byte      `json:"tail,omitempty"`
	Silent int         `json:"silent_after,omitempty"` // stop talking after that many messages (0 = never)
}

func (p hsPlan) String() string {
	var sb strings.Builder
	fmt.Fprintf(&sb, "role=%d knows_cookie=%v silent_after=%d tail=%x", p.Role, p.Knows, p.Silent, p.Tail)
	for i, m := range p.Msgs {
		fmt.Fprintf(&sb, " msg%d{replace=%d tweaks=%v muts=%v hdr=%d split=%d}", i, m.Replace, m.Tweaks, m.Muts, m.Hdr, m.Split)
	}
	return sb.String()
}

var tweakFields = map[string][]string{
	"hello":     {"salt", "digest", "digestcert"},
	"introduce": {"node", "creation", "maxmsg", "atomcache", "regcache", "errcache", "flags", "version", "digest"},
	"accept":    {"id", "poolsize", "pooldsn", "digest"},
	"join":      {"node", "connid", "salt", "digest"},
}

func roleMessages(role int) []string {
	switch role {
	case 0:
		return []string{"hello", "introduce", "accept"}
	case 1:
		return []string{"hello", "accept", "introduce"}
	case 2:
		return []string{"accept"}
	}
	return []string{"join"}
}

func genHsPlan(t *rapid.T) hsPlan {
	p := hsPlan{Test: "handshake", Role: rapid.IntRange(0, 3).Draw(t, "victim_role"), Knows: rapid.IntRange(0, 3).Draw(t, "knows_cookie") > 0}
	// most plans deviate in exactly one message (a deviation in an early message usually ends the
	// handshake, so later messages are only reached behind honest ones)
	kinds := roleMessages(p.Role)
	focus := rapid.IntRange(-1, 2*len(kinds)-1).Draw(t, "focus") % len(kinds)
	for i, kind := range kinds {
		var m hsMsgPlan
		dev := rapid.IntRange(0, 9).Draw(t, "deviation")
		if focus >= 0 {
			if i != focus {
				dev = 0
			} else if dev < 3 {
				dev = 3
			}
		}
		switch dev {
		case 0, 1, 2: // honest
		case 3, 4, 5, 6:
			n := rapid.IntRange(1, 3).Draw(t, "tweaks")
			for i := 0; i < n; i++ {
				m.Tweaks = append(m.Tweaks, hsTweak{Field: rapid.SampledFrom(tweakFields[kind]).Draw(t, "field"), Choice: rapid.IntRange(0, 5).Draw(t, "choice")})
			}
		case 7:
			m.Replace = rapid.IntRange(1, 5).Draw(t, "replace")
		case 8:
			n := rapid.IntRange(1, 3).Draw(t, "muts")
			for i := 0; i < n; i++ {
				m.Muts = append(m.Muts, bmut{Op: rapid.IntRange(0, 6).Draw(t, "op"), Pos: rapid.IntRange(0, 999).Draw(t, "pos"),
					Arg: rapid.SampledFrom([]uint32{0, 1, 0xff, 0xffff, 0xfffe, 0x10000, 0x7fffffff, 0xffffffff, 0x9d, 0x9f, 0x84}).Draw(t, "arg")})
			}
		case 9:
			m.Hdr = rapid.IntRange(1, 8).Draw(t, "hdr")
		}
		if rapid.IntRange(0, 4).Draw(t, "splitting") == 0 {
			m.Split = rapid.IntRange(1, 2).Draw(t, "split")
		}
		p.Msgs = append(p.Msgs, m)
	}
	if rapid.IntRange(0, 5).Draw(t, "with_tail") == 0 {
		p.Tail = rapid.SliceOfN(rapid.Byte(), 1, 30).Draw(t, "tail")
	}
	if rapid.IntRange(0, 7).Draw(t, "go_silent") == 0 {
		p.Silent = rapid.IntRange(1, 3).Draw(t, "silent_after")
	}
	return p
}

func sha(format string, a ...any) string {
	h := sha256.New()
	h.Write([]byte(fmt.Sprintf(format, a...)))
	return fmt.Sprintf("%x", h.Sum(nil))
}

func bigAtomCache(n int) map[uint16]gen.Atom {
	m := map[uint16]gen.Atom{}
	for i := 0; i < n; i++ {
		m[uint16(i)] = gen.Atom(fmt.Sprintf("atom%d", i))
	}
	return m
}

func applyTweak(msg any, tw hsTweak, victimName gen.Atom) any {
	long := strings.Repeat("L", 300)
	strs := []string{"", long, "x", strings.Repeat("é", 200), "\x00", "digest"}
	switch m := msg.(type) {
	case handshake.MessageHello:
		switch tw.Field {
		case "salt":
			m.Salt = strs[tw.Choice%len(strs)]
		case "digest":
			m.Digest = strs[tw.Choice%len(strs)]
		case "digestcert":
			m.DigestCert = strs[tw.Choice%len(strs)]
		}
		return m
	case handshake.MessageJoin:
		switch tw.Field {
		case "node":
			m.Node = []gen.Atom{"", victimName, gen.Atom(long), "no-at-sign", "a@b@c", "peer@elsewhere"}[tw.Choice%6]
		case "connid":
			m.ConnectionID = strs[tw.Choice%len(strs)]
		case "salt":
			m.Salt = strs[tw.Choice%len(strs)]
		case "digest":
			m.Digest = strs[tw.Choice%len(strs)]
		}
		return m
	case handshake.MessageIntroduce:
		switch tw.Field {
		case "node":
			m.Node = []gen.Atom{"", victimName, gen.Atom(long), "no-at-sign", "a@b@c", "peer@elsewhere"}[tw.Choice%6]
		case "creation":
			m.Creation = []int64{0, -1, 1<<63 - 1, -1 << 63, 1, 2002}[tw.Choice%6]
		case "maxmsg":
			m.MaxMessageSize = []int{-1, 1, 7, 8, 1<<63 - 1, -1 << 63}[tw.Choice%6]
		case "atomcache":
			m.AtomCache = []map[uint16]gen.Atom{nil, {0: ""}, {65535: "x", 0: "x"}, bigAtomCache(3000), {1: gen.Atom(long)}, {}}[tw.Choice%6]
		case "regcache":
			m.RegCache = []map[uint16]string{nil, {4096: "unknown type"}, {0: ""}, {1: "#int", 2: "#int"}, {65535: long}, {}}[tw.Choice%6]
		case "errcache":
			m.ErrCache = []map[uint16]error{nil, {1: nil}, {1: errors.New("")}, {1: errors.New("dup"), 2: errors.New("dup")}, {65535: gen.ErrTimeout}, {}}[tw.Choice%6]
		case "flags":
			m.Flags = []gen.NetworkFlags{{}, {Enable: true}, {Enable: false, EnableRemoteSpawn: true}, {Enable: true, EnableFragmentation: true, EnableProxyTransit: true, EnableProxyAccept: true, EnableImportantDelivery: true}, {Enable: true, EnableRemoteSpawn: true, EnableRemoteApplicationStart: true}, {}}[tw.Choice%6]
		case "version":
			m.Version = gen.Version{Name: strs[tw.Choice%len(strs)], Release: strs[(tw.Choice+1)%len(strs)], License: strs[(tw.Choice+2)%len(strs)]}
		case "digest":
			m.Digest = strs[tw.Choice%len(strs)]
		}
		return m
	case handshake.MessageAccept:
		switch tw.Field {
		case "id":
			m.ID = strs[tw.Choice%len(strs)]
		case "poolsize":
			m.PoolSize = []int{0, -1, 1 << 30, 255, -1 << 63, 1<<63 - 1}[tw.Choice%6]
		case "pooldsn":
			m.PoolDSN = [][]string{nil, {"not a dsn"}, {"127.0.0.1:1"}, {long, long, long}, make([]string, 2000), {""}}[tw.Choice%6]
		case "digest":
			m.Digest = strs[tw.Choice%len(strs)]
		}
		return m
	}
	return msg
}

func applyBmuts(b []byte, muts []bmut) []byte {
	out := append([]byte(nil), b...)
	for _, m := range muts {
		if len(out) == 0 {
			break
		}
		pos := m.Pos * len(out) / 1000
		switch m.Op {
		case 0:
			out = out[:pos]
		case 1:
			out[pos] ^= byte(m.Arg) | 1
		case 2:
			if pos+4 <= len(out) {
				binary.BigEndian.PutUint32(out[pos:], m.Arg)
			}
		case 3:
			if pos+2 <= len(out) {
				binary.BigEndian.PutUint16(out[pos:], uint16(m.Arg))
			}
		case 4:
			out[pos] = byte(m.Arg)
		case 5:
			ins := make([]byte, m.Arg%9+1)
			for i := range ins {
				ins[i] = byte(m.Arg >> (uint(i) % 4 * 8))
			}
			out = append(out[:pos], append(ins, out[pos:]...)...)
		case 6:
			end := pos + int(m.Arg%8) + 1
			if end > len(out) {
				end = len(out)
			}
			out = append(out[:pos], out[end:]...)
		}
	}
	return out
}

// hsPeer is the hostile peer's end of the link.
type hsPeer struct {
	conn  net.Conn
	mu    sync.Mutex
	buf   []byte
	eof   bool
	sent  int
	pend  []byte // a message held back to be written together with the next one
	nsent int
	name  gen.Atom
}

func (h *hsPeer) pump() {
	b := make([]byte, 65536)
	for {
		n, err := h.conn.Read(b)
		h.mu.Lock()
		h.buf = append(h.buf, b[:n]...)
		if err != nil {
			h.eof = true
		}
		h.mu.Unlock()
		if err != nil {
			return
		}
	}
}

// recv waits for one well-formed handshake message from the victim.
func (h *hsPeer) recv() any {
	var v any
	kit.WaitUntil(1500*time.Millisecond, func() bool {
		h.mu.Lock()
		defer h.mu.Unlock()
		if len(h.buf) >= 6 {
			l := int(binary.BigEndian.Uint32(h.buf[2:6]))
			if len(h.buf) >= 6+l {
				val, _, err := edf.Decode(h.buf[6:6+l], edf.Options{})
				h.buf = h.buf[6+l:]
				if err == nil {
					v = val
				}
				return true
			}
		}
		return h.eof
	})
	return v
}

func (h *hsPeer) send(msg any, mp hsMsgPlan, victim gen.Atom) {
	switch mp.Replace {
	case 1:
		msg = nil
	case 2:
		msg = int64(42)
	case 3:
		msg = handshake.MessageHello{Salt: "s", Digest: "d"}
	case 4:
		msg = netkit.Envelope{ID: 1, Body: "x"}
	case 5:
		msg = handshake.MessageAccept{ID: "id", PoolSize: 1}
	}
	for _, tw := range mp.Tweaks {
		msg = applyTweak(msg, tw, victim)
	}
	buf := lib.TakeBuffer()
	defer lib.ReleaseBuffer(buf)
	if err := edf.Encode(msg, buf, edf.Options{}); err != nil {
		return // the tweak made the value unencodable: the hostile peer just skips the message
	}
	body := applyBmuts(buf.B, mp.Muts)
	hdr := []byte{87, 1, 0, 0, 0, 0}
	l := uint32(len(body))
	switch mp.Hdr {
	case 1:
		hdr[0] = 88
	case 2:
		hdr[1] = 2
	case 3:
		l++
	case 4:
		l--
	case 5:
		l = 65535
	case 6:
		l = 65536
	case 7:
		l = 0xffffffff
	case 8:
		l = 0
	}
	binary.BigEndian.PutUint32(hdr[2:6], l)
	out := append(h.pend, append(hdr, body...)...)
	h.pend = nil
	h.nsent++
	switch mp.Split {
	case 2:
		h.pend = out
		return
	case 1:
		for i := range out {
			h.conn.SetWriteDeadline(time.Now().Add(2 * time.Second))
			if _, err := h.conn.Write(out[i : i+1]); err != nil {
				return
			}
		}
	default:
		h.conn.SetWriteDeadline(time.Now().Add(2 * time.Second))
		h.conn.Write(out)
	}
	h.sent += len(out)
}

func (h *hsPeer) flush() {
	if len(h.pend) > 0 {
		h.conn.SetWriteDeadline(time.Now().Add(2 * time.Second))
		h.conn.Write(h.pend)
		h.sent += len(h.pend)
		h.pend = nil
	}
}

// play runs the hostile peer's side of the handshake as the plan says.
func (peer *hsPeer) play(p hsPlan, cookie string, victimName gen.Atom, st *hsStats) {
	victim := struct{ name gen.Atom }{victimName}
	mp := func(i int) hsMsgPlan {
		if i < len(p.Msgs) {
			return p.Msgs[i]
		}
		return hsMsgPlan{}
	}
	silent := func() bool { return p.Silent > 0 && peer.nsent >= p.Silent }
	me := peer.name
	if me == "" {
		me = "a@localhost"
	}
	intro := func(digest string) handshake.MessageIntroduce {
		return handshake.MessageIntroduce{Node: me, Version: gen.Version{Name: "hostile", Release: "1"}, Flags: gen.NetworkFlags{Enable: true, EnableImportantDelivery: true},
			Creation: 1001, MaxMessageSize: 0, Digest: digest}
	}
	switch p.Role {
	case 0:
		salt := "salt-of-the-hostile-peer"
		hello := handshake.MessageHello{Salt: salt, Digest: sha("%s:%s", salt, cookie)}
		peer.send(hello, mp(0), victim.name)
		var hello2 handshake.MessageHello
		if v, ok := peer.recv().(handshake.MessageHello); ok {
			hello2 = v
			st.answered++
		}
		if !silent() {
			peer.send(intro(sha("%s:%s", hello2.Salt, cookie)), mp(1), victim.name)
			if _, ok := peer.recv().(handshake.MessageAccept); ok {
				st.answered++
				peer.recv()
			}
		}
		if !silent() {
			peer.send(handshake.MessageAccept{}, mp(2), victim.name)
		}
	case 1:
		var hello handshake.MessageHello
		if v, ok := peer.recv().(handshake.MessageHello); ok {
			hello = v
			st.answered++
		}
		salt := "salt-of-the-hostile-peer"
		peer.send(handshake.MessageHello{Salt: salt, Digest: sha("%s:%s:%s", salt, hello.Digest, cookie)}, mp(0), victim.name)
		if _, ok := peer.recv().(handshake.MessageIntroduce); ok {
			st.answered++
		}
		if !silent() {
			peer.send(handshake.MessageAccept{ID: "conn-id-from-the-hostile-peer", PoolSize: 1, PoolDSN: []string{"127.0.0.1:1"}}, mp(1), victim.name)
		}
		if !silent() {
			peer.send(intro(""), mp(2), victim.name)
			if _, ok := peer.recv().(handshake.MessageAccept); ok {
				st.answered++
			}
		}
	case 2:
		var join handshake.MessageJoin
		if v, ok := peer.recv().(handshake.MessageJoin); ok {
			join = v
			st.answered++
		}
		peer.send(handshake.MessageAccept{Digest: sha("%s:%s", join.Digest, cookie)}, mp(0), victim.name)
	case 3:
		salt, id := "join-salt", "some-connection-id"
		peer.send(handshake.MessageJoin{Node: me, ConnectionID: id, Salt: salt, Digest: sha("%s:%s:%s", id, salt, cookie)}, mp(0), victim.name)
		if _, ok := peer.recv().(handshake.MessageAccept); ok {
			st.answered++
		}
	}
}

type hsFake struct {
	name     gen.Atom
	creation int64
}

func (f hsFake) Name() gen.Atom       { return f.name }
func (f hsFake) Creation() int64      { return f.creation }
func (f hsFake) Version() gen.Version { return gen.Version{Name: "verif", Release: string(f.name)} }

type hsStats struct {
	success   bool
	answered  int
	connected bool
	alloc     uint64
	sent      int
}

const hsCookie = "the-cookie"

func runHandshake(p hsPlan) (string, hsStats) {
	var st hsStats
	theCorpus(false) // built once, outside the allocation measurement
	victim := hsFake{"b@localhost", 2002}
	cv, ca := net.Pipe()
	peer := &hsPeer{conn: ca}
	go peer.pump()
	cookie := hsCookie
	if !p.Knows {
		cookie = "a-guess"
	}
	hs := handshake.Create(handshake.Options{PoolSize: 2})
	type vres struct {
		res   gen.HandshakeResult
		tail  []byte
		err   error
		panic any
	}
	done := make(chan vres, 1)
	before := heapAllocs()
	go func() {
		var r vres
		defer func() {
			if x := recover(); x != nil {
				r.panic = x
			}
			if r.err != nil || r.panic != nil {
				cv.Close() // what the node does with a failed handshake; the peer sees the end of stream at once
			}
			done <- r
		}()
		o := gen.HandshakeOptions{Cookie: hsCookie, Flags: gen.NetworkFlags{Enable: true, EnableImportantDelivery: true}, MaxMessageSize: 1 << 20}
		switch p.Role {
		case 0, 3:
			r.res, r.err = hs.Accept(victim, cv, o)
		case 1:
			r.res, r.err = hs.Start(victim, cv, o)
		case 2:
			r.tail, r.err = hs.Join(victim, cv, "the-connection-id", o)
		}
	}()
	peer.play(p, cookie, victim.name, &st)
	peer.flush()
	if len(p.Tail) > 0 {
		ca.SetWriteDeadline(time.Now().Add(time.Second))
		ca.Write(p.Tail)
		peer.sent += len(p.Tail)
	}
	st.sent = peer.sent
	// the victim gives up on its own (1 s read deadlines per message); it must not take longer than that
	var r vres
	select {
	case r = <-done:
	case <-time.After(8 * time.Second):
		ca.Close()
		cv.Close()
		return "the handshake call did not return within 8 s (its read deadlines are 1 s per message)", st
	}
	if r.panic != nil {
		ca.Close()
		cv.Close()
		return fmt.Sprintf("the handshake call panicked: %v", r.panic), st
	}
	st.alloc = heapAllocs() - before
	limit := uint64(allocSlack + 4096*(peer.sent+1))
	if st.alloc > limit {
		ca.Close()
		cv.Close()
		return fmt.Sprintf("the handshake allocated %d bytes for %d bytes received (bound %d)", st.alloc, peer.sent, limit), st
	}
	defer ca.Close()
	defer cv.Close()
	if r.err != nil || p.Role == 2 {
		st.success = r.err == nil
		return "", st
	}
	st.success = true
	// the node's next steps with a handshake result it accepted (node/network.go connect / accept)
	if r.res.Peer == "" {
		return "", st
	}
	v, connected := useResult(p.Role, r.res, cv, ca)
	st.connected = connected
	st.alloc = heapAllocs() - before
	if v == "" && st.alloc > limit {
		v = fmt.Sprintf("setting up the connection after the handshake allocated %d bytes for %d bytes received (bound %d)", st.alloc, peer.sent, limit)
	}
	return v, st
}

// useResult does what the node does with an accepted handshake: create the connection, join the
// link, serve it (dialling the rest of the pool if it was the dialling side).
func useResult(role int, res gen.HandshakeResult, cv, ca net.Conn) (violation string, connected bool) {
	core := netkit.NewMockCore("b@localhost", 2002)
	log := &netkit.NopLog{}
	type out struct {
		conn  gen.Connection
		err   error
		panic any
	}
	ch := make(chan out, 1)
	go func() {
		var o out
		defer func() {
			if x := recover(); x != nil {
				o.panic = x
			}
			ch <- o
		}()
		o.conn, o.err = proto.Create().NewConnection(core, res, log)
	}()
	var o out
	select {
	case o = <-ch:
	case <-time.After(20 * time.Second):
		return "creating the connection from the accepted handshake result did not finish within 20 s", false
	}
	if o.panic != nil {
		return fmt.Sprintf("creating the connection from the accepted handshake result panicked: %v", o.panic), false
	}
	if o.err != nil {
		return "", false
	}
	var redials atomic.Int64
	var redial gen.NetworkDial
	if role == 1 {
		redial = func(dsn, id string) (net.Conn, []byte, error) {
			redials.Add(1)
			return nil, nil, errors.New("refused")
		}
	}
	if err := o.conn.Join(cv, res.ConnectionID, redial, res.Tail); err != nil {
		return "", false
	}
	served := make(chan any, 1)
	go func() {
		defer func() { served <- recover() }()
		proto.Create().Serve(o.conn, redial)
	}()
	// one valid frame from the peer, then the peer goes away
	f := theCorpus(false)[0]
	ca.SetWriteDeadline(time.Now().Add(2 * time.Second))
	ca.Write(f.B)
	kit.WaitUntil(time.Second, func() bool { return core.Count() > 0 })
	connected = core.Count() > 0
	ca.Close()
	select {
	case x := <-served:
		if x != nil {
			return fmt.Sprintf("serving the connection panicked: %v", x), connected
		}
	case <-time.After(15 * time.Second):
		o.conn.Terminate(nil)
		return fmt.Sprintf("the connection was still being served 15 s after the peer closed its only link (%d dial attempts for the rest of the pool so far)", redials.Load()), connected
	}
	o.conn.Terminate(nil)
	if n := redials.Load(); n > 4096 {
		return fmt.Sprintf("the peer's pool description made the node dial %d times", n), connected
	}
	return "", connected
}

var recHs = kit.NewRecorder("C16", "handshake",
	"a hostile peer faces the real handshake in each of its four roles (Accept of a dialling peer, Start, Join, Accept of a joining link) followed by what node/network.go does with an accepted result (NewConnection, Join, Serve including dialling the rest of the pool, one valid frame, link closed). The peer is an honest implementation of the protocol that knows the cookie in 3 of 4 cases and deviates per message as generated: field tweaks (empty / own / 300-char / malformed node names, incarnation 0 / negative / max, max message size negative / tiny / max, atom/type/error caches empty, colliding, 3000 entries, nil error values, unknown type names; pool size 0 / negative / 2^30 / max, pool addresses nil / garbage / 2000 entries; empty and long salts, ids and digests), a different value in place of the message (nil, an int, another handshake message, a user type), 1-3 byte-level mutations of the encoding, wrong magic / version / length in the header, byte-by-byte or coalesced writes, trailing garbage, going silent; "+
		"oracle: the handshake call returns within 8 s without panicking, the process survives, heap allocation stays below 16 MiB + 4096 x bytes received, and for an accepted result: creating, joining and serving the connection neither panics nor hangs (served for more than 15 s after the only link was closed), and the pool description (at most 2000 addresses are generated) makes the node dial at most 4096 times; "+
		"non-trivial = the victim answered at least one message beyond its opening one, or accepted the handshake; distinct by plan")

func propHandshake(t *rapid.T) {
	p := genHsPlan(t)
	wal("handshake", p)
	v, st := runHandshake(p)
	if v != "" {
		t.Fatalf("%s\n%s", v, p)
	}
	opening := 0
	if p.Role == 1 || p.Role == 2 {
		opening = 1
	}
	label := "refused"
	if st.success {
		label = "accepted"
	}
	if st.connected {
		label = "accepted+frame-delivered"
	}
	recHs.Case(st.answered > opening || st.success, p.String(), label, fmt.Sprintf("role=%d", p.Role))
}

func TestHandshake(t *testing.T) {
	rapid.Check(t, propHandshake)
}

var recSweep = kit.NewRecorder("C16", "handshake-sweep",
	"exhaustive sweep of the single-deviation plans of the hostile handshake peer that knows the cookie: every role x every message of that role x every field tweak (field x 6 values) and every value substitution and header variant, all other messages honest; same oracle as the generated handshake plans; "+
		"non-trivial = the victim answered at least one message beyond its opening one, or accepted the handshake; distinct by plan")

// TestHandshakeSweep enumerates every plan with exactly one deviating message and one deviation.
func TestHandshakeSweep(t *testing.T) {
	var plans []hsPlan
	for role := 0; role <= 3; role++ {
		kinds := roleMessages(role)
		for i, kind := range kinds {
			one := func(m hsMsgPlan) {
				p := hsPlan{Test: "handshake", Role: role, Knows: true, Msgs: make([]hsMsgPlan, len(kinds))}
				p.Msgs[i] = m
				plans = append(plans, p)
			}
			for _, f := range tweakFields[kind] {
				for c := 0; c < 6; c++ {
					one(hsMsgPlan{Tweaks: []hsTweak{{Field: f, Choice: c}}})
				}
			}
			for r := 1; r <= 5; r++ {
				one(hsMsgPlan{Replace: r})
			}
			for h := 1; h <= 8; h++ {
				one(hsMsgPlan{Hdr: h})
			}
		}
	}
	sh, n := kit.Shard()
	for i, p := range plans {
		if i%n != sh {
			continue
		}
		wal("handshake", p)
		v, st := runHandshake(p)
		if v != "" {
			kit.SaveReplay("C16", fmt.Sprintf("handshake-sweep-%d", i), mustJSON(p), v+" | "+p.String())
			t.Errorf("%s\n%s", v, p)
			continue
		}
		opening := 0
		if p.Role == 1 || p.Role == 2 {
			opening = 1
		}
		recSweep.Case(st.answered > opening || st.success, p.String(), fmt.Sprintf("role=%d", p.Role))
	}
	recSweep.Extra("plans_total", len(plans))
}
