package c16

import (
	"encoding/json"
	"fmt"
	"net"
	"sync"
	"sync/atomic"
	"testing"
	"time"

	"ergo.services/ergo/gen"
	"ergo.services/ergo/net/handshake"
	"pgregory.net/rapid"

	"verif/harness/kit"
	"verif/harness/kit/netkit"
)

// Live part: a real node V with a TCP acceptor, a real node C connected to it, a process on each.
// A raw TCP client either plays a hostile handshake against V's acceptor or completes an honest
// handshake (it knows the cookie) and then feeds a hostile frame stream.

type liveEnv struct {
	hub    *netkit.Hub
	v, c   gen.Node
	addr   string
	echo   gen.PID
	caller gen.PID
	local  gen.PID
	err    error
}

var (
	liveOnce sync.Once
	live     liveEnv
	liveSeq  atomic.Int64
)

const liveCookie = "cookie-c16"

func liveNodes() (*liveEnv, error) {
	liveOnce.Do(func() {
		e := &live
		e.hub = netkit.NewHub()
		if e.v, e.err = netkit.StartNetNode(e.hub, netkit.NetNodeName("c16v"), liveCookie); e.err != nil {
			return
		}
		time.Sleep(1100 * time.Millisecond)
		if e.c, e.err = netkit.StartNetNode(e.hub, netkit.NetNodeName("c16c"), liveCookie); e.err != nil {
			return
		}
		r, ok := e.hub.Route(e.v.Name())
		if !ok {
			e.err = fmt.Errorf("no route to the victim node")
			return
		}
		e.addr = fmt.Sprintf("127.0.0.1:%d", r.Port)
		probe := kit.NewProbe()
		echo := &kit.ActorConfig{Label: "echo", Probe: probe, Quiet: true, OnCall: func(a *kit.Actor, from gen.PID, ref gen.Ref, req any) (any, error) { return req, nil }}
		if e.echo, e.err = e.v.SpawnRegister("c16echo", kit.Factory(echo), gen.ProcessOptions{}); e.err != nil {
			return
		}
		// the names the corpus frames address: real processes, so hostile frames reach a mailbox
		sink := &kit.ActorConfig{Label: "sink", Probe: probe, Quiet: true}
		if _, e.err = e.v.SpawnRegister("victim_name", kit.Factory(sink), gen.ProcessOptions{}); e.err != nil {
			return
		}
		if e.local, e.err = e.v.Spawn(kit.Factory(&kit.ActorConfig{Label: "local", Probe: probe, Quiet: true}), gen.ProcessOptions{}); e.err != nil {
			return
		}
		if e.caller, e.err = e.c.Spawn(kit.Factory(&kit.ActorConfig{Label: "caller", Probe: probe, Quiet: true}), gen.ProcessOptions{}); e.err != nil {
			return
		}
		if _, err := e.c.Network().GetNode(e.v.Name()); err != nil {
			e.err = fmt.Errorf("connect: %w", err)
		}
	})
	return &live, live.err
}

type livePlan struct {
	Test string    `json:"test"`
	Hs   *hsPlan   `json:"hs,omitempty"`
	Wire *wirePlan `json:"wire,omitempty"`
	Keep bool      `json:"keep_open"` // leave the socket open (until the end of the check) instead of closing it
}

func (p livePlan) String() string {
	if p.Hs != nil {
		return "hostile handshake: " + p.Hs.String()
	}
	return "honest handshake, then: " + p.Wire.String()
}

func genLivePlan(t *rapid.T) livePlan {
	p := livePlan{Test: "live"}
	if rapid.IntRange(0, 2).Draw(t, "stage") == 0 {
		h := genHsPlan(t)
		if h.Role == 1 || h.Role == 2 {
			h.Role = (h.Role - 1) * 3 // the acceptor only plays roles 0 and 3
			h.Msgs = h.Msgs[:0]
			for range roleMessages(h.Role) {
				h.Msgs = append(h.Msgs, hsMsgPlan{Hdr: rapid.IntRange(0, 8).Draw(t, "hdr"), Split: rapid.IntRange(0, 2).Draw(t, "split")})
			}
		}
		p.Hs = &h
	} else {
		w := genWirePlan(t)
		if w.Caches {
			// the hostile peer negotiates no caches: use the self-contained frames
			w.Caches = false
			for i := range w.Chunks {
				if w.Chunks[i].Mutated == "" {
					f := theCorpus(false)[int(w.Chunks[i].ID)%len(theCorpus(false))]
					w.Chunks[i] = wireChunk{B: f.B, Kind: f.Kind, ID: f.ID}
				}
			}
		}
		p.Wire = &w
	}
	p.Keep = rapid.IntRange(0, 9).Draw(t, "keep_open") == 0
	return p
}

var kept []net.Conn

func runLive(p livePlan) (string, bool) {
	e, err := liveNodes()
	if err != nil {
		return "harness: " + err.Error(), false
	}
	theCorpus(false)
	conn, err := net.DialTimeout("tcp", e.addr, 3*time.Second)
	if err != nil {
		return fmt.Sprintf("the victim node's acceptor does not accept TCP connections any more: %v", err), false
	}
	name := gen.Atom(fmt.Sprintf("hostile%d@localhost", liveSeq.Add(1)))
	reached := false
	if p.Hs != nil {
		peer := &hsPeer{conn: conn, name: name}
		go peer.pump()
		cookie := liveCookie
		if !p.Hs.Knows {
			cookie = "a-guess"
		}
		var st hsStats
		peer.play(*p.Hs, cookie, e.v.Name(), &st)
		peer.flush()
		if len(p.Hs.Tail) > 0 {
			conn.SetWriteDeadline(time.Now().Add(time.Second))
			conn.Write(p.Hs.Tail)
		}
		reached = st.answered > 0
	} else {
		// the acceptor handshakes one peer at a time and the dialling side gives up after 1 s per
		// message: while an earlier hostile peer holds the accept loop (up to 3 s) an honest dial fails.
		// That head-of-line blocking is not what this check is about: retry on a fresh socket.
		hs := handshake.Create(handshake.Options{})
		var herr error
		for attempt := 0; attempt < 10; attempt++ {
			if attempt > 0 {
				conn.Close()
				time.Sleep(500 * time.Millisecond)
				if conn, err = net.DialTimeout("tcp", e.addr, 3*time.Second); err != nil {
					return fmt.Sprintf("the victim node's acceptor does not accept TCP connections any more: %v", err), false
				}
			}
			conn.SetDeadline(time.Now().Add(30 * time.Second))
			_, herr = hs.Start(hsFake{name, 1001}, conn, gen.HandshakeOptions{Cookie: liveCookie, Flags: gen.NetworkFlags{Enable: true, EnableImportantDelivery: true}})
			if herr == nil {
				break
			}
		}
		if herr != nil {
			conn.Close()
			return fmt.Sprintf("the victim node's acceptor refused 10 honest handshakes in a row: %v", herr), false
		}
		conn.SetDeadline(time.Time{})
		reached = true
		go func() {
			buf := make([]byte, 4096)
			for {
				if _, err := conn.Read(buf); err != nil {
					return
				}
			}
		}()
		for _, c := range p.Wire.Chunks {
			conn.SetWriteDeadline(time.Now().Add(2 * time.Second))
			if _, err := conn.Write(c.B); err != nil {
				break
			}
		}
	}
	if p.Keep {
		kept = append(kept, conn)
		if len(kept) > 16 {
			kept[0].Close()
			kept = kept[1:]
		}
	} else {
		conn.Close()
	}
	// the rest of the node is unaffected
	var reply any
	var cerr error
	token := fmt.Sprintf("ping-%d", liveSeq.Add(1))
	if err := kit.InProc(e.c, e.caller, func(a *kit.Actor) {
		reply, cerr = a.CallWithTimeout(gen.ProcessID{Name: "c16echo", Node: e.v.Name()}, token, 10)
	}); err != nil {
		return "a process on the bystander node stopped responding: " + err.Error(), reached
	}
	if cerr != nil || reply != token {
		return fmt.Sprintf("a call from the bystander node to a process on the victim node failed after the hostile traffic: reply=%v err=%v", reply, cerr), reached
	}
	if err := kit.InProc(e.v, e.local, func(a *kit.Actor) {
		reply, cerr = a.CallWithTimeout(e.echo, token, 10)
	}); err != nil {
		return "a process on the victim node stopped responding: " + err.Error(), reached
	}
	if cerr != nil || reply != token {
		return fmt.Sprintf("a local call on the victim node failed after the hostile traffic: reply=%v err=%v", reply, cerr), reached
	}
	if !p.Keep {
		// the victim lets go of the hostile peer's connection
		gone := kit.WaitUntil(15*time.Second, func() bool {
			for _, n := range e.v.Network().Nodes() {
				if n == name {
					return false
				}
			}
			return true
		})
		if !gone {
			return fmt.Sprintf("15 s after the hostile peer %s closed its socket the victim node still lists the connection", name), reached
		}
	}
	return "", reached
}

var recLive = kit.NewRecorder("C16", "live-node",
	"a real node with a TCP acceptor, a second real node connected to it, and a raw TCP client that either plays a hostile handshake (the plans of the handshake part, roles 'dialling peer' and 'joining link') against the acceptor or completes an honest handshake with the right cookie and then writes a hostile frame stream (the plans of the frames part; the addressed name is a real process) and closes or keeps the socket; "+
		"oracle: the process survives, the acceptor still accepts and completes an honest handshake in later cases, a call from the second node to a process on the victim node and a local call on the victim node are answered correctly after every case, and the victim drops the hostile peer's connection within 15 s of the socket being closed; "+
		"non-trivial = the hostile peer got an answer from the acceptor or completed the handshake; distinct by plan")

// the victim node works on a case's bytes asynchronously: a crash can surface while a later case is
// running, so the write-ahead log holds the last few plans
var liveHistory []livePlan

type liveHistoryFile struct {
	Test  string     `json:"test"`
	Plans []livePlan `json:"plans"`
}

func propLive(t *rapid.T) {
	p := genLivePlan(t)
	liveHistory = append(liveHistory, p)
	if len(liveHistory) > 4 {
		liveHistory = liveHistory[1:]
	}
	wal("live", liveHistoryFile{Test: "live-history", Plans: liveHistory})
	v, reached := runLive(p)
	if v != "" {
		t.Fatalf("%s\n%s", v, p)
	}
	stage := "frames"
	if p.Hs != nil {
		stage = "handshake"
	}
	b, _ := json.Marshal(p)
	if len(b) > 400 {
		b = b[:400]
	}
	recLive.Case(reached, string(b), "stage="+stage)
}

func TestLive(t *testing.T) {
	rapid.Check(t, propLive)
}
