package c16

import (
	"encoding/binary"
	"fmt"
	"math"
	"reflect"
	"runtime/metrics"
	"testing"
	"time"

	"ergo.services/ergo/lib"
	"ergo.services/ergo/net/edf"
	"pgregory.net/rapid"

	"verif/harness/kit"
	"verif/harness/kit/edfgen"
)

var allocSample = []metrics.Sample{{Name: "/gc/heap/allocs:bytes"}}

func heapAllocs() uint64 {
	metrics.Read(allocSample)
	return allocSample[0].Value.Uint64()
}

const allocSlack = 16 << 20 // only order-of-magnitude blow-ups count

var watchdog = 20 * time.Second

type outcome struct {
	val      any
	tail     []byte
	err      error
	alloc    uint64
	took     time.Duration
	hung     bool
	panicked string
}

// decodeGuarded runs one Decode with the allocation probe and a hang watchdog.
func decodeGuarded(packet []byte, opts edf.Options) outcome {
	done := make(chan outcome, 1)
	go func() {
		before := heapAllocs()
		t0 := time.Now()
		defer func() {
			// a panic that escapes Decode would take the calling goroutine down (in a node: the
			// acceptor loop or a link reader, which have no recover of their own)
			if r := recover(); r != nil {
				done <- outcome{panicked: fmt.Sprint(r)}
			}
		}()
		v, tail, err := edf.Decode(packet, opts)
		done <- outcome{val: v, tail: tail, err: err, alloc: heapAllocs() - before, took: time.Since(t0)}
	}()
	select {
	case o := <-done:
		return o
	case <-time.After(watchdog):
		fmt.Printf("C16-WATCHDOG input(%d)=%x\n", len(packet), clip(packet))
		return outcome{hung: true}
	}
}

// hasNaNKey reports whether a value holds a map with a NaN key (such a key can never be looked up
// again, so "decodes to the same value" is not a meaningful question for it).
func hasNaNKey(v reflect.Value, depth int) bool {
	if !v.IsValid() || depth > 12 {
		return false
	}
	switch v.Kind() {
	case reflect.Interface, reflect.Pointer:
		if v.IsNil() {
			return false
		}
		return hasNaNKey(v.Elem(), depth+1)
	case reflect.Map:
		it := v.MapRange()
		for it.Next() {
			k := it.Key()
			for k.Kind() == reflect.Interface && !k.IsNil() {
				k = k.Elem()
			}
			if (k.Kind() == reflect.Float64 || k.Kind() == reflect.Float32) && math.IsNaN(k.Float()) {
				return true
			}
			if hasNaNKey(k, depth+1) || hasNaNKey(it.Value(), depth+1) {
				return true
			}
		}
	case reflect.Slice, reflect.Array:
		for i := 0; i < v.Len() && i < 2000; i++ {
			if hasNaNKey(v.Index(i), depth+1) {
				return true
			}
		}
	case reflect.Struct:
		for i := 0; i < v.NumField(); i++ {
			if hasNaNKey(v.Field(i), depth+1) {
				return true
			}
		}
	}
	return false
}

// giantZeroSize reports a slice or array of more than 2^16 zero-size elements anywhere in v.
func giantZeroSize(v reflect.Value, depth int) bool {
	if !v.IsValid() || depth > 12 {
		return false
	}
	switch v.Kind() {
	case reflect.Interface, reflect.Pointer:
		if v.IsNil() {
			return false
		}
		return giantZeroSize(v.Elem(), depth+1)
	case reflect.Slice, reflect.Array:
		if v.Type().Elem().Size() == 0 {
			return v.Len() > 1<<16
		}
		for i := 0; i < v.Len() && i < 2000; i++ {
			if giantZeroSize(v.Index(i), depth+1) {
				return true
			}
		}
	case reflect.Map:
		it := v.MapRange()
		for it.Next() {
			if giantZeroSize(it.Key(), depth+1) || giantZeroSize(it.Value(), depth+1) {
				return true
			}
		}
	case reflect.Struct:
		for i := 0; i < v.NumField(); i++ {
			if giantZeroSize(v.Field(i), depth+1) {
				return true
			}
		}
	}
	return false
}

// judge applies the C16 oracle to one input. Returns "" or the violation text, and the known-finding
// signature if the violation is a listed one.
func judge(packet []byte, cfg edfgen.Config) (violation string, known string, reached bool) {
	o := decodeGuarded(packet, cfg.Dec)
	if o.hung {
		return "Decode did not return within 20 s", "", true
	}
	if o.panicked != "" {
		return "Decode panicked instead of returning an error: " + o.panicked, "", true
	}
	limit := uint64(allocSlack + 4096*len(packet))
	if o.alloc > limit {
		return fmt.Sprintf("Decode allocated %d bytes for a %d-byte input (bound %d)", o.alloc, len(packet), limit), "", true
	}
	if o.err != nil {
		return "", "", false
	}
	reached = true
	if o.val == nil {
		return "", "", reached
	}
	if hasNaNKey(reflect.ValueOf(o.val), 0) {
		return "", "", reached
	}
	if giantZeroSize(reflect.ValueOf(o.val), 0) {
		// the encoder walks every element of a container even when the elements take no bytes: 2^32
		// elements take minutes. The decoder side of that (C16) is covered above; the round trip is skipped.
		return "", "", reached
	}
	// a successfully decoded value must re-encode, and that must decode to the same value
	buf := lib.TakeBuffer()
	defer lib.ReleaseBuffer(buf)
	if err := edf.Encode(o.val, buf, cfg.Enc); err != nil {
		return fmt.Sprintf("decoded a %T that the encoder refuses: %v", o.val, err), "", reached
	}
	o2 := decodeGuarded(buf.B, cfg.Dec)
	if o2.hung || o2.err != nil || o2.panicked != "" {
		return fmt.Sprintf("re-encoded bytes of a decoded %T do not decode: %v", o.val, o2.err), "", reached
	}
	if err := edfgen.Equal(o.val, o2.val, cfg.Eq); err != nil {
		return fmt.Sprintf("decode -> encode -> decode changed the value (%T): %v", o.val, err), "", reached
	}
	return "", "", reached
}

// mutate applies one generated mutation to a valid encoding.
func mutate(t *rapid.T, enc []byte) []byte {
	out := append([]byte(nil), enc...)
	n := rapid.IntRange(1, 4).Draw(t, "mutations")
	for i := 0; i < n && len(out) > 0; i++ {
		pos := rapid.IntRange(0, len(out)-1).Draw(t, "pos")
		switch rapid.IntRange(0, 9).Draw(t, "mutation") {
		case 0: // truncate
			out = out[:pos]
		case 1: // flip a byte
			out[pos] ^= byte(rapid.IntRange(1, 255).Draw(t, "xor"))
		case 2: // inflate a 32-bit length field
			if pos+4 <= len(out) {
				binary.BigEndian.PutUint32(out[pos:], rapid.SampledFrom([]uint32{0xffffffff, 0x7fffffff, 1 << 30, 1 << 24, 65536, 4096}).Draw(t, "len32"))
			}
		case 3: // inflate a 16-bit length field
			if pos+2 <= len(out) {
				binary.BigEndian.PutUint16(out[pos:], rapid.SampledFrom([]uint16{0xffff, 0xfffe, 0x8000, 0x7fff, 4096, 4095, 256, 255}).Draw(t, "len16"))
			}
		case 4: // swap in another type tag
			out[pos] = rapid.SampledFrom([]byte{0x82, 0x83, 0x84, 0x8c, 0x8d, 0x8e, 0x8f, 0x90, 0x91, 0x9a, 0x9b, 0x9c, 0x9d, 0x9e, 0xaa, 0xab, 0xac, 0xad, 0xae, 0xaf, 0xb0, 0xff, 0x00}).Draw(t, "tag")
		case 5: // duplicate a slice of the packet
			end := pos + rapid.IntRange(1, 40).Draw(t, "dup")
			if end > len(out) {
				end = len(out)
			}
			out = append(out[:end], append(append([]byte(nil), out[pos:end]...), out[end:]...)...)
		case 6: // insert random bytes
			ins := rapid.SliceOfN(rapid.Byte(), 1, 8).Draw(t, "insert")
			out = append(out[:pos], append(ins, out[pos:]...)...)
		case 7: // delete a few bytes
			end := pos + rapid.IntRange(1, 8).Draw(t, "del")
			if end > len(out) {
				end = len(out)
			}
			out = append(out[:pos], out[end:]...)
		case 8: // unknown cache id
			if pos+2 <= len(out) {
				binary.BigEndian.PutUint16(out[pos:], uint16(rapid.IntRange(256, 65535).Draw(t, "cacheid")))
			}
		case 9: // nest a type descriptor
			depth := rapid.IntRange(1, 200).Draw(t, "nest")
			desc := make([]byte, 0, depth+4)
			for d := 0; d < depth; d++ {
				desc = append(desc, rapid.SampledFrom([]byte{0x9d /*slice*/, 0x9d, 0x9f /*map*/}).Draw(t, "nesttag"))
			}
			desc = append(desc, 0x95)
			hdr := []byte{0x82, byte(len(desc) >> 8), byte(len(desc))}
			out = append(append(hdr, desc...), out...)
		}
	}
	return out
}

var recDecode = kit.NewRecorder("C16", "decode",
	"byte strings for edf.Decode under 7 cache configurations: valid encodings produced by the EDF value generator (all registered harness types, so the registered slice/map/array/marshaler decoders are reachable) with 1-4 generated mutations each - truncation, byte flips, inflated 16/32-bit length fields, swapped type tags, duplicated/inserted/deleted runs, unknown cache ids, nested type descriptors up to depth 200 - plus raw generated byte strings; "+
		"oracle: Decode returns a value or an error (a panic escaping it, or the death of the process, is a violation), within 20 s, having allocated no more than 16 MiB + 4096 x input length (runtime/metrics heap allocation counter around the call), and a successfully decoded value re-encodes to bytes that decode to an equal value; "+
		"non-trivial = the input passed the first tag/length validation (Decode succeeded or the allocation probe fired); distinct by input bytes")

// hostile descriptor shapes (type prefix 0x82 len16 fold): huge arrays, arrays of zero-size arrays,
// slices of huge arrays, maps of huge arrays, registered containers with inflated counts
var hostile = [][]byte{
	{0x82, 0x00, 0x06, 0x9e, 0x40, 0x00, 0x00, 0x00, 0x95},                                                             // [2^30]int64
	{0x82, 0x00, 0x0b, 0x9e, 0xff, 0xff, 0xff, 0xff, 0x9e, 0, 0, 0, 0, 0x95},                                           // [2^32-1][0]int64
	{0x82, 0x00, 0x07, 0x9d, 0x9e, 0x10, 0x00, 0x00, 0x00, 0x95, 0x9d, 0x00, 0x00, 0x00, 0x01},                         // [][2^28]int64 with 1 item
	{0x82, 0x00, 0x08, 0x9f, 0x8d, 0x9e, 0x10, 0x00, 0x00, 0x00, 0x95, 0x9f, 0x00, 0x00, 0x00, 0x01, 0x00, 0x01, 0x61}, // map[string][2^28]int64
	{0x82, 0x00, 0x02, 0x9d, 0x95, 0x9d, 0xff, 0xff, 0xff, 0xff},                                                       // []int64 with count 2^32-1
	{0x82, 0x00, 0x03, 0x9f, 0x8d, 0x95, 0x9f, 0x7f, 0xff, 0xff, 0xff},                                                 // map[string]int64 with count 2^31-1
	{0x84, 0x82, 0x00, 0x06, 0x9e, 0x40, 0x00, 0x00, 0x00, 0x95},                                                       // any holding [2^30]int64
	{0x8e, 0xff, 0xff, 0xff, 0xf0},                                                                                     // binary with length 2^32-16
	{0x8d, 0xff, 0xff},                                                                                                 // string with length 65535, no data
	// descriptors of types that cannot be built at all (reflect refuses them)
	{0x82, 0x00, 0x0b, 0x9e, 0xff, 0xff, 0xff, 0xff, 0x9e, 0xff, 0xff, 0xff, 0xff, 0x96, 1, 2, 3, 4, 5, 6, 7, 8}, // [2^32-1][2^32-1]int: beyond the address space
	{0x82, 0x00, 0x04, 0x9f, 0x9d, 0x95, 0x95, 0xff},                                                             // map[[]int64]int64: key type not hashable
	{0x82, 0x00, 0x05, 0x9f, 0x9f, 0x8d, 0x95, 0x95, 0xff},                                                       // map[map[string]int64]int64
	{0x84, 0x82, 0x00, 0x04, 0x9f, 0x9d, 0x95, 0x95, 0xff},                                                       // the same inside any
	{0x82, 0x00, 0x06, 0x9d, 0x9f, 0x9d, 0x95, 0x95, 0x9d, 0x00, 0x00, 0x00, 0x01, 0xff},                         // []map[[]int64]int64 with one item
}

func init() {
	// a map keyed by a registered struct type that holds a slice (not hashable)
	name := "#verif/harness/kit/edfgen/VInner"
	fold := append([]byte{0x9f, 0x83, byte(len(name) >> 8), byte(len(name))}, name...)
	fold = append(fold, 0x95)
	hostile = append(hostile, append(append([]byte{0x82, byte(len(fold) >> 8), byte(len(fold))}, fold...), 0xff))
}

func propDecode(t *rapid.T) {
	cfgs := edfgen.Configs()
	cfg := cfgs[rapid.IntRange(0, len(cfgs)-1).Draw(t, "config")]
	var packet []byte
	if k := rapid.IntRange(0, 19).Draw(t, "raw"); k == 0 {
		packet = rapid.SliceOfN(rapid.Byte(), 0, 64).Draw(t, "rawbytes")
	} else if k <= 2 {
		packet = append([]byte(nil), rapid.SampledFrom(hostile).Draw(t, "hostile")...)
		packet = append(packet, rapid.SliceOfN(rapid.Byte(), 0, 12).Draw(t, "tail")...)
		if rapid.Bool().Draw(t, "mutate_hostile") {
			packet = mutate(t, packet)
		}
	} else {
		c := edfgen.Generate(t, edfgen.Options{MaxDepth: 3})
		buf := lib.TakeBuffer()
		if err := edf.Encode(c.Value, buf, cfg.Enc); err != nil {
			lib.ReleaseBuffer(buf)
			t.Skip("generator produced an unencodable value")
		}
		packet = mutate(t, buf.B)
		lib.ReleaseBuffer(buf)
	}
	v, known, reached := judge(packet, cfg)
	if v != "" {
		if known != "" && kit.IsKnown("C16", known) {
			recDecode.Excluded(known)
		} else {
			t.Fatalf("%s\nconfig=%s input(%d)=%x", v, cfg.Name, len(packet), clip(packet))
		}
	}
	recDecode.Case(reached, fmt.Sprintf("cfg=%s %x", cfg.Name, clip(packet)), "cfg="+cfg.Name)
}

func clip(b []byte) []byte {
	if len(b) > 120 {
		return b[:120]
	}
	return b
}

func TestDecode(t *testing.T) {
	rapid.Check(t, propDecode)
}

// FuzzDecode: native coverage-guided fuzzing of the decoder with the same oracle.
func FuzzDecode(f *testing.F) {
	cfgs := edfgen.Configs()
	for _, v := range []any{int64(1), "str", []any{1, "a", nil}, map[string]any{"k": []int{1}}, edfgen.VStruct{}, edfgen.VInner{Y: []edfgen.VStr{"x"}}, [3]int16{1, 2, 3}, edfgen.VMap{"a": 1}, edfgen.VMarsh{ID: 1, Note: "n"}} {
		buf := lib.TakeBuffer()
		if edf.Encode(v, buf, edf.Options{}) == nil {
			f.Add(append([]byte(nil), buf.B...), uint8(0))
		}
		lib.ReleaseBuffer(buf)
	}
	for _, h := range hostile {
		f.Add(append(append([]byte(nil), h...), 1, 2, 3), uint8(0))
	}
	f.Fuzz(func(t *testing.T, packet []byte, c uint8) {
		if len(packet) > 4096 {
			return
		}
		cfg := cfgs[int(c)%len(cfgs)]
		v, known, _ := judge(packet, cfg)
		if v != "" && !(known != "" && kit.IsKnown("C16", known)) {
			t.Fatalf("%s\nconfig=%s input=%x", v, cfg.Name, clip(packet))
		}
	})
}
