package c16

import (
	"bytes"
	"compress/gzip"
	"encoding/binary"
	"encoding/json"
	"fmt"
	"os"
	"sort"
	"strings"
	"sync"
	"testing"
	"time"

	"ergo.services/ergo/gen"
	"ergo.services/ergo/net/proto"
	"pgregory.net/rapid"

	"verif/harness/kit"
	"verif/harness/kit/netkit"
)

// ---------------------------------------------------------------- corpus of valid frames

type vframe struct {
	Kind string // route kind the receiving core must see
	ID   int64
	B    []byte
}

var (
	corpusOnce sync.Once
	corpus     [2][]vframe // [caches]
	bombs      [][]byte
)

func splitFrames(stream []byte) [][]byte {
	var out [][]byte
	for len(stream) >= 8 {
		l := int(binary.BigEndian.Uint32(stream[2:6]))
		if l < 8 || l > len(stream) {
			break
		}
		out = append(out, append([]byte(nil), stream[:l]...))
		stream = stream[l:]
	}
	return out
}

// record drives a sender-only connection and returns the frames it wrote.
func record(caches bool) []vframe {
	ra, _ := netkit.Results(netkit.PairOptions{Pool: 1, Caches: caches})
	core := netkit.NewMockCore("a@localhost", 1001)
	conn, err := proto.Create().NewConnection(core, ra, &netkit.NopLog{})
	if err != nil {
		panic(err)
	}
	a, b := netkit.Pipe(netkit.Shape{}, netkit.Shape{})
	if err := conn.Join(a, ra.ConnectionID, nil, nil); err != nil {
		panic(err)
	}
	var mu sync.Mutex
	var stream []byte
	go func() {
		buf := make([]byte, 1<<16)
		for {
			n, err := b.Read(buf)
			mu.Lock()
			stream = append(stream, buf[:n]...)
			mu.Unlock()
			if err != nil {
				return
			}
		}
	}()
	var frames []vframe
	take := func(kind string, id int64) {
		// every op below writes exactly one frame; wait for it (the flusher may delay it)
		kit.WaitUntil(5*time.Second, func() bool {
			mu.Lock()
			defer mu.Unlock()
			return len(splitFrames(stream)) >= 1
		})
		mu.Lock()
		fs := splitFrames(stream)
		stream = nil
		mu.Unlock()
		for _, f := range fs {
			frames = append(frames, vframe{Kind: kind, ID: id, B: f})
		}
	}
	from := gen.PID{Node: "a@localhost", ID: 1234, Creation: 1001}
	to := gen.PID{Node: "b@localhost", ID: 4321, Creation: 2002}
	name := gen.ProcessID{Name: "victim_name", Node: "b@localhost"}
	alias := gen.Alias{Node: "b@localhost", Creation: 2002, ID: [3]uint64{5, 77, 3}}
	var id int64
	next := func() int64 { id++; return id }
	bodies := []any{int64(7), "text", []any{1, "a", nil}, map[string]any{"k": []int{1, 2}}, strings.Repeat("compress me ", 600)}
	for i, body := range bodies {
		o := gen.MessageOptions{Priority: gen.MessagePriority(i % 3), KeepNetworkOrder: i%2 == 0,
			Ref: gen.Ref{Node: "a@localhost", Creation: 1001, ID: [3]uint64{uint64(100 + i), 0, 0}}}
		if i == len(bodies)-1 {
			o.Compression = gen.Compression{Enable: true, Type: gen.CompressionTypeGZIP, Threshold: 1024}
		}
		if i == 1 {
			o.ImportantDelivery = true
		}
		k := next()
		conn.SendPID(from, to, o, netkit.Envelope{ID: k, Body: body})
		take("send-pid", k)
		k = next()
		conn.SendProcessID(from, name, o, netkit.Envelope{ID: k, Body: body})
		take("send-name", k)
		k = next()
		conn.SendAlias(from, alias, o, netkit.Envelope{ID: k, Body: body})
		take("send-alias", k)
		k = next()
		conn.CallPID(from, to, o, netkit.Envelope{ID: k, Body: body})
		take("call-pid", k)
		k = next()
		conn.CallProcessID(from, name, o, netkit.Envelope{ID: k, Body: body})
		take("call-name", k)
		k = next()
		conn.CallAlias(from, alias, o, netkit.Envelope{ID: k, Body: body})
		take("call-alias", k)
		k = next()
		conn.SendResponse(from, to, o, netkit.Envelope{ID: k, Body: body})
		take("response", k)
		k = next()
		conn.SendEvent(from, o, gen.MessageEvent{Event: gen.Event{Name: "ev", Node: "a@localhost"}, Timestamp: k, Message: netkit.Envelope{ID: k, Body: body}})
		take("event", k)
	}
	o := gen.MessageOptions{Ref: gen.Ref{Node: "a@localhost", Creation: 1001, ID: [3]uint64{55, 0, 0}}}
	k := next()
	conn.SendResponseError(from, to, o, fmt.Errorf("err-%d", k))
	take("response-error", k)
	k = next()
	conn.SendExit(from, to, fmt.Errorf("exit-%d", k))
	take("exit", k)
	k = next()
	conn.SendTerminatePID(from, fmt.Errorf("term-%d", k))
	take("terminate-pid", k)
	k = next()
	conn.SendTerminateProcessID(gen.ProcessID{Name: "tn", Node: "a@localhost"}, fmt.Errorf("term-%d", k))
	take("terminate-name", k)
	k = next()
	conn.SendTerminateAlias(gen.Alias{Node: "a@localhost", Creation: 1001, ID: [3]uint64{9, 1, 2}}, fmt.Errorf("term-%d", k))
	take("terminate-alias", k)
	k = next()
	conn.SendTerminateEvent(gen.Event{Name: "te", Node: "a@localhost"}, fmt.Errorf("term-%d", k))
	take("terminate-event", k)
	// synchronous requests: the frame is written, the answer never comes; do not wait for the timeout
	k = next()
	go conn.LinkPID(from, gen.PID{Node: "b@localhost", ID: uint64(k), Creation: 2002})
	take("link-pid", k)
	k = next()
	go conn.MonitorProcessID(from, gen.ProcessID{Name: gen.Atom(fmt.Sprintf("mn%d", k)), Node: "b@localhost"})
	take("monitor-name", k)
	k = next()
	go conn.RemoteSpawn(gen.Atom(fmt.Sprintf("sp%d", k)), gen.ProcessOptionsExtra{ParentPID: from, ParentLeader: from})
	take("spawn", k)
	k = next()
	go conn.LinkEvent(from, gen.Event{Name: gen.Atom(fmt.Sprintf("le%d", k)), Node: "b@localhost"})
	take("link-event", k)
	conn.Terminate(nil)
	a.Close()
	b.Close()
	return frames
}

func gz(b []byte) []byte {
	var out bytes.Buffer
	w := gzip.NewWriter(&out)
	w.Write(b)
	w.Close()
	return out.Bytes()
}

// zframe wraps a complete frame into a compressed (gzip) frame the way connection.send does:
// header(8) + compression id + 4 bytes unpacked length + packed data, where the unpacked data is the
// original frame.
func zframe(inner []byte, declared int) []byte {
	order := byte(0)
	if len(inner) > 6 {
		order = inner[6]
	}
	out := []byte{78, 1, 0, 0, 0, 0, order, 200, byte(gen.CompressionTypeGZIP.ID())}
	var l [4]byte
	binary.BigEndian.PutUint32(l[:], uint32(declared))
	out = append(out, l[:]...)
	out = append(out, gz(inner)...)
	binary.BigEndian.PutUint32(out[2:6], uint32(len(out)))
	return out
}

func buildCorpus() {
	corpus[0] = record(false)
	corpus[1] = record(true)
	// nested decompression: a small compressed frame that unpacks to a compressed frame that unpacks to 64 MiB
	big := make([]byte, 64<<20)
	copy(big, []byte{78, 1, 0, 0, 0, 0, 0, 101})
	binary.BigEndian.PutUint32(big[2:6], uint32(len(big)))
	lvl1 := zframe(big, len(big))
	lvl2 := zframe(lvl1, len(lvl1))
	bombs = append(bombs, lvl2)
	if len(lvl2) < 4096 {
		lvl3 := zframe(lvl2, len(lvl2))
		bombs = append(bombs, lvl3)
	}
}

func theCorpus(caches bool) []vframe {
	corpusOnce.Do(buildCorpus)
	if caches {
		return corpus[1]
	}
	return corpus[0]
}

// ---------------------------------------------------------------- plan

type wireChunk struct {
	B       []byte `json:"b"`
	Kind    string `json:"kind,omitempty"` // set for frames sent unmodified
	ID      int64  `json:"id,omitempty"`
	Mutated string `json:"mutated,omitempty"`
}

type wirePlan struct {
	Test    string      `json:"test"`
	Caches  bool        `json:"caches"`
	MaxMsg  int         `json:"max_message_size"`
	Pool    int         `json:"pool"`
	Chunks  []wireChunk `json:"chunks"`
	Segs    []int       `json:"segs"`
	Framing bool        `json:"framing"` // some mutation touched the framing (header / lengths / stream cut)
}

func (p wirePlan) String() string {
	var sb strings.Builder
	fmt.Fprintf(&sb, "caches=%v max=%d pool=%d segs=%v framing=%v", p.Caches, p.MaxMsg, p.Pool, p.Segs, p.Framing)
	for _, c := range p.Chunks {
		if c.Mutated == "" {
			fmt.Fprintf(&sb, " [%s#%d %dB]", c.Kind, c.ID, len(c.B))
		} else {
			fmt.Fprintf(&sb, " [%s: %x]", c.Mutated, clip(c.B))
		}
	}
	return sb.String()
}

var frameTypes = []byte{101, 102, 103, 104, 105, 106, 107, 121, 122, 123, 124, 129, 130, 181, 182, 183, 184, 185, 186, 199, 200, 201, 202, 203, 0, 255}

func genWirePlan(t *rapid.T) wirePlan {
	p := wirePlan{Test: "wire", Caches: rapid.Bool().Draw(t, "caches"),
		MaxMsg: rapid.SampledFrom([]int{0, 0, 4096, 1 << 20}).Draw(t, "max_message_size"),
		Pool:   rapid.IntRange(1, 3).Draw(t, "pool")}
	cp := theCorpus(p.Caches)
	n := rapid.IntRange(1, 8).Draw(t, "frames")
	for i := 0; i < n; i++ {
		f := cp[rapid.IntRange(0, len(cp)-1).Draw(t, "frame")]
		if rapid.IntRange(0, 2).Draw(t, "intact") == 0 {
			p.Chunks = append(p.Chunks, wireChunk{B: f.B, Kind: f.Kind, ID: f.ID})
			continue
		}
		b := append([]byte(nil), f.B...)
		var what string
		switch rapid.IntRange(0, 11).Draw(t, "framemut") {
		case 0: // length field
			d := rapid.SampledFrom([]int64{-int64(len(b)), 1 - int64(len(b)), 5 - int64(len(b)), 6 - int64(len(b)), 7 - int64(len(b)), 8 - int64(len(b)), 9 - int64(len(b)), -1, 1, 7, 8, 65536, 1 << 20, 1<<31 - int64(len(b)), 1<<32 - 1 - int64(len(b))}).Draw(t, "lendelta")
			binary.BigEndian.PutUint32(b[2:6], uint32(int64(len(b))+d))
			what, p.Framing = fmt.Sprintf("%s#%d length%+d", f.Kind, f.ID, d), true
		case 1: // magic / version
			b[rapid.IntRange(0, 1).Draw(t, "hdrbyte")] = rapid.Byte().Draw(t, "hdrval")
			what, p.Framing = fmt.Sprintf("%s#%d magic/version", f.Kind, f.ID), true
		case 2: // order byte
			b[6] = rapid.Byte().Draw(t, "order")
			what = fmt.Sprintf("%s#%d order=%d", f.Kind, f.ID, b[6])
		case 3: // type byte
			b[7] = rapid.SampledFrom(frameTypes).Draw(t, "type")
			what = fmt.Sprintf("%s#%d type=%d", f.Kind, f.ID, b[7])
		case 4, 5: // payload mutation, framing kept consistent
			body := mutate(t, b[8:])
			b = append(b[:8:8], body...)
			binary.BigEndian.PutUint32(b[2:6], uint32(len(b)))
			what = fmt.Sprintf("%s#%d payload", f.Kind, f.ID)
		case 6: // payload cut short, length fixed: every "too small" check
			cut := rapid.IntRange(8, len(b)).Draw(t, "cut")
			if cut > 8+rapid.IntRange(0, 60).Draw(t, "keep") {
				cut = 8 + rapid.IntRange(0, 60).Draw(t, "keep2")
			}
			if cut > len(b) {
				cut = len(b)
			}
			b = b[:cut]
			binary.BigEndian.PutUint32(b[2:6], uint32(len(b)))
			what = fmt.Sprintf("%s#%d cut to %d", f.Kind, f.ID, cut)
		case 7: // compressed frame around it, declared size generated
			decl := rapid.SampledFrom([]int{len(b), len(b) - 1, len(b) + 1, 0, 7, 1 << 20, 1 << 30, 1<<32 - 1}).Draw(t, "declared")
			b = zframe(b, decl)
			what = fmt.Sprintf("%s#%d gzip declared=%d", f.Kind, f.ID, decl)
		case 8: // compressed twice / a compressed frame holding fewer than 8 bytes
			if rapid.Bool().Draw(t, "short_inner") {
				in := b[:rapid.IntRange(0, 9).Draw(t, "inner")]
				b = zframe(in, len(in))
				what = fmt.Sprintf("gzip frame holding %d bytes", len(in))
			} else {
				z := zframe(b, len(b))
				b = zframe(z, len(z))
				what = fmt.Sprintf("%s#%d gzip twice", f.Kind, f.ID)
			}
		case 9: // corrupt compressed data / unknown compression id
			b = zframe(b, len(b))
			if rapid.Bool().Draw(t, "zid") {
				b[8] = rapid.Byte().Draw(t, "compression_id")
			} else {
				pos := rapid.IntRange(9, len(b)-1).Draw(t, "zpos")
				b[pos] ^= byte(rapid.IntRange(1, 255).Draw(t, "zxor"))
			}
			what = fmt.Sprintf("%s#%d corrupt gzip", f.Kind, f.ID)
		case 10: // raw garbage between frames
			b = rapid.SliceOfN(rapid.Byte(), 1, 40).Draw(t, "garbage")
			what, p.Framing = "garbage", true
		case 11: // nested decompression bomb
			b = append([]byte(nil), bombs[rapid.IntRange(0, len(bombs)-1).Draw(t, "bomb")]...)
			what = "nested gzip 64 MiB"
		}
		p.Chunks = append(p.Chunks, wireChunk{B: b, Mutated: what})
	}
	if rapid.IntRange(0, 5).Draw(t, "truncate_stream") == 0 {
		last := &p.Chunks[len(p.Chunks)-1]
		last.B = last.B[:rapid.IntRange(0, len(last.B)).Draw(t, "stream_cut")]
		if last.Mutated == "" {
			last.Mutated = fmt.Sprintf("%s#%d stream ends mid-frame", last.Kind, last.ID)
			last.Kind = ""
		}
		p.Framing = true
	}
	switch rapid.IntRange(0, 3).Draw(t, "segkind") {
	case 1:
		p.Segs = []int{rapid.IntRange(1, 9).Draw(t, "tiny")}
	case 2:
		p.Segs = rapid.SliceOfN(rapid.IntRange(1, 5000), 1, 4).Draw(t, "segs")
	}
	return p
}

// ---------------------------------------------------------------- running a plan

type victim struct {
	core   *netkit.MockCore
	log    *netkit.NopLog
	conn   gen.Connection
	w      *netkit.Conn // harness end
	served chan struct{}
}

func newVictim(caches bool, maxmsg, pool int, segs []int) (*victim, error) {
	_, rb := netkit.Results(netkit.PairOptions{Pool: pool, Caches: caches, MaxMessageSizeB: maxmsg})
	v := &victim{core: netkit.NewMockCore("b@localhost", 2002), log: &netkit.NopLog{}, served: make(chan struct{})}
	conn, err := proto.Create().NewConnection(v.core, rb, v.log)
	if err != nil {
		return nil, err
	}
	v.conn = conn
	a, b := netkit.Pipe(netkit.Shape{Segs: segs}, netkit.Shape{})
	if err := conn.Join(b, rb.ConnectionID, nil, nil); err != nil {
		return nil, err
	}
	v.w = a
	go func() {
		// drain whatever the victim answers (important-delivery acks, error replies)
		buf := make([]byte, 4096)
		for {
			if _, err := a.Read(buf); err != nil {
				return
			}
		}
	}()
	go func() {
		proto.Create().Serve(conn, nil)
		close(v.served)
	}()
	return v, nil
}

func (v *victim) routed(kind string, id int64) int {
	n := 0
	for _, r := range v.core.Calls() {
		if r.Kind == kind && routedID(r) == id {
			n++
		}
	}
	return n
}

func routedID(r netkit.Routed) int64 {
	switch m := r.Message.(type) {
	case netkit.Envelope:
		return m.ID
	case gen.MessageEvent:
		if e, ok := m.Message.(netkit.Envelope); ok {
			return e.ID
		}
	case error:
		if m != nil {
			var id int64
			s := m.Error()
			if i := strings.LastIndexByte(s, '-'); i >= 0 {
				fmt.Sscanf(s[i+1:], "%d", &id)
			}
			return id
		}
	case gen.ProcessOptionsExtra:
		var id int64
		fmt.Sscanf(string(r.To.(gen.Atom)), "sp%d", &id)
		return id
	}
	switch to := r.To.(type) {
	case gen.PID:
		if r.Kind == "link-pid" {
			return int64(to.ID)
		}
	case gen.ProcessID:
		var id int64
		fmt.Sscanf(string(to.Name), "mn%d", &id)
		return id
	case gen.Event:
		var id int64
		fmt.Sscanf(string(to.Name), "le%d", &id)
		return id
	}
	return -1
}

type wireStats struct {
	survived   bool
	logErrors  int64
	routed     int
	alloc      uint64
	inputBytes int
}

const canaryID = 424242

func canaryFrame(caches bool) vframe {
	// the first send-pid frame of the corpus, re-labelled by the harness through its position only
	return theCorpus(caches)[0]
}

func runWire(p wirePlan) (string, wireStats) {
	var st wireStats
	cp := theCorpus(p.Caches)
	before := heapAllocs()
	v, err := newVictim(p.Caches, p.MaxMsg, p.Pool, p.Segs)
	if err != nil {
		return "harness: " + err.Error(), st
	}
	// a second connection with well-formed traffic only
	by, err := newVictim(p.Caches, 0, 1, nil)
	if err != nil {
		return "harness: " + err.Error(), st
	}
	defer func() {
		v.conn.Terminate(nil)
		by.conn.Terminate(nil)
		v.w.Close()
		by.w.Close()
	}()
	type want struct {
		kind string
		id   int64
	}
	expect := map[want]int{}
	dead := false
	for i, c := range p.Chunks {
		by.w.Write(cp[(i*7)%len(cp)].B)
		if dead {
			continue
		}
		st.inputBytes += len(c.B)
		if _, err := v.w.Write(c.B); err != nil {
			dead = true // the victim closed the link already
			continue
		}
		if c.Mutated == "" {
			expect[want{c.Kind, c.ID}]++
		}
	}
	canary := cp[0]
	v.w.Write(canary.B)
	expect[want{canary.Kind, canary.ID}]++
	allRouted := func() bool {
		for w, n := range expect {
			if v.routed(w.kind, w.id) < n {
				return false
			}
		}
		return true
	}
	closed := func() bool {
		select {
		case <-v.served:
			return true
		default:
			return false
		}
	}
	kit.WaitUntil(2*time.Second, func() bool { return allRouted() || closed() })
	if !closed() && v.routed(canary.Kind, canary.ID) >= expect[want{canary.Kind, canary.ID}] {
		// the connection demonstrably outlived every hostile frame
		st.survived = true
		if !p.Framing {
			kit.WaitUntil(5*time.Second, allRouted)
			var missing []string
			mutated := 0
			for _, c := range p.Chunks {
				if c.Mutated != "" {
					mutated++
				}
			}
			for w, n := range expect {
				// a mutated frame may still be a valid frame with the same identity
				if got := v.routed(w.kind, w.id); got < n || got > n+mutated {
					missing = append(missing, fmt.Sprintf("%s#%d routed %d times, sent intact %d times (and %d mutated frames)", w.kind, w.id, got, n, mutated))
				}
			}
			if len(missing) > 0 {
				sort.Strings(missing)
				return "the connection stayed up (the frame after the malformed ones was delivered) but well-formed frames of the same stream were lost or duplicated: " + strings.Join(missing, "; "), st
			}
		}
	}
	// end of stream: the victim must let go of the link
	v.w.Close()
	select {
	case <-v.served:
	case <-time.After(15 * time.Second):
		return "the connection did not terminate within 15 s after its only link was closed", st
	}
	// the bystander connection got everything
	kit.WaitUntil(10*time.Second, func() bool { return by.core.Count() >= len(p.Chunks) })
	if got := by.core.Count(); got != len(p.Chunks) {
		return fmt.Sprintf("a second connection that only carried well-formed frames delivered %d of %d (its log: %v)", got, len(p.Chunks), by.log.Messages()), st
	}
	select {
	case <-by.served:
		return "a second connection that only carried well-formed frames was closed", st
	default:
	}
	st.alloc = heapAllocs() - before
	st.logErrors = v.log.Errors.Load()
	st.routed = v.core.Count()
	if limit := uint64(allocSlack + 4096*st.inputBytes); st.alloc > limit {
		return fmt.Sprintf("handling %d bytes of frames allocated %d bytes (bound %d)", st.inputBytes, st.alloc, limit), st
	}
	return "", st
}

var recWire = kit.NewRecorder("C16", "frames",
	"a real proto connection (mock core, in-memory link, 4-12 receive queues, negotiated caches on/off, max message size in {0, 4 KiB, 1 MiB}) is fed a stream of 1-8 frames taken from a corpus of valid frames of every kind written by a real sending connection (send/call by pid, name, alias; response, response-error, event, exit, terminate x4, link/monitor/spawn requests; plain and gzip-compressed), each either intact or with one generated mutation - length field (0, 1, 5..9, +-1, 64 KiB, 1 MiB, 2^31, 2^32-1), magic/version, order byte, type byte (every known type, encrypted/fragment/proxy, unknown), EDF-level payload mutation with consistent framing, payload cut to 0-60 bytes, re-wrapped as a gzip frame with a generated declared size, compressed twice, a compressed frame holding < 8 bytes, corrupt gzip data / unknown compression id, garbage between frames, a nested gzip frame that unpacks to 64 MiB, stream cut mid-frame - re-cut into generated TCP segment sizes, followed by a valid frame and end of stream, while a second connection carries valid frames only; "+
		"oracle: the process survives (a panic escaping the connection's goroutines kills the test binary: the driver turns that into a violation with the write-ahead-logged plan as the replay), the connection terminates within 15 s of the end of stream, total heap allocation stays below 16 MiB + 4096 x stream length, the second connection delivers all its frames and stays open, and when no mutation touched the framing and the trailing valid frame was delivered then every intact frame of the stream was delivered (no fewer times than it was sent intact, no more than that plus the number of mutated frames); "+
		"non-trivial = at least one mutated frame passed the framing checks (the victim logged an error for it, routed it, or survived it); distinct by stream bytes")

func wal(name string, v any) {
	b, _ := json.Marshal(v)
	os.WriteFile("wal-"+name+".json", b, 0o644)
}

func propWire(t *rapid.T) {
	p := genWirePlan(t)
	wal("wire", p)
	v, st := runWire(p)
	if v != "" {
		t.Fatalf("%s\n%s", v, p)
	}
	mutated := 0
	for _, c := range p.Chunks {
		if c.Mutated != "" {
			mutated++
		}
	}
	var key strings.Builder
	for _, c := range p.Chunks {
		fmt.Fprintf(&key, "%x|", clip(c.B))
	}
	label := "link-closed"
	if st.survived {
		label = "survived"
	}
	recWire.Case(mutated > 0 && (st.survived || st.logErrors > 0 || st.routed > 0), fmt.Sprintf("caches=%v max=%d %s", p.Caches, p.MaxMsg, key.String()), label, fmt.Sprintf("framing=%v", p.Framing))
}

func TestWire(t *testing.T) {
	rapid.Check(t, propWire)
}

// TestReplay re-runs a write-ahead-logged plan (the replay artefact of a crash).
func TestReplay(t *testing.T) {
	path := os.Getenv("VERIF_REPLAY")
	if path == "" {
		t.Skip("no replay file")
	}
	raw, err := os.ReadFile(path)
	if err != nil {
		t.Fatal(err)
	}
	var head struct {
		Test string `json:"test"`
	}
	if err := json.Unmarshal(raw, &head); err != nil {
		t.Fatal(err)
	}
	switch head.Test {
	case "wire":
		var p wirePlan
		if err := json.Unmarshal(raw, &p); err != nil {
			t.Fatal(err)
		}
		if v, _ := runWire(p); v != "" {
			t.Fatalf("%s\n%s", v, p)
		}
	case "live-history":
		var h liveHistoryFile
		if err := json.Unmarshal(raw, &h); err != nil {
			t.Fatal(err)
		}
		for _, p := range h.Plans {
			if v, _ := runLive(p); v != "" {
				t.Fatalf("%s\n%s", v, p)
			}
		}
		// the victim node handles the last bytes asynchronously; give a crash the time to happen
		time.Sleep(3 * time.Second)
		if v, _ := runLive(livePlan{Test: "live", Hs: &hsPlan{Role: 0, Knows: true, Msgs: make([]hsMsgPlan, 3)}}); v != "" {
			t.Fatalf("after the replayed plans: %s", v)
		}
	case "handshake":
		var p hsPlan
		if err := json.Unmarshal(raw, &p); err != nil {
			t.Fatal(err)
		}
		if v, _ := runHandshake(p); v != "" {
			t.Fatalf("%s\n%s", v, p)
		}
	default:
		t.Fatalf("unknown replay kind %q", head.Test)
	}
}

func mustJSON(v any) []byte {
	b, err := json.Marshal(v)
	if err != nil {
		panic(err)
	}
	return b
}
