//go:build verif

// Package lifecycle is the scenario engine shared by the C01 (serial execution)
// and C05 (termination once / right reason) checks: a receiver of a generated
// kind in a generated state is hit by generated agent scripts (traffic, exit
// signals, Kill, stop/crash messages); with Scheduled=true the interleaving of
// the instrumented yield points is generated too.
package lifecycle

import (
	"errors"
	"fmt"
	"os"
	"strings"
	"sync"
	"sync/atomic"
	"time"

	"ergo.services/ergo/act"
	"ergo.services/ergo/gen"
	"pgregory.net/rapid"

	"verif/harness/kit"
)

const (
	KindActor = iota
	KindActorTrap
	KindSupervisor
	KindPool
	KindRaw
	KindWeb // act.WebWorker used as a plain process (its mailbox loop is a copy of the actor's)
)

const (
	StateIdle = iota
	StateInHandler
	StateWaitResponse
	// StateWaitTimeout: waiting for a response that does not come before the (1 s) timeout;
	// the causes are issued during the wait. Costs a second, so it is drawn rarely.
	StateWaitTimeout
)

const (
	OpSend = iota
	OpCall
	OpSendAfter
	OpExitParent
	OpExitOther
	OpKill
	OpInspect
	OpEvent
	OpStop
	OpBoom
	OpOpenGate
	opCount
)

var opNames = []string{"send", "call", "sendafter", "exit-parent", "exit-other", "kill", "inspect", "event", "stop", "boom", "open-gate"}

type Op struct {
	Kind   int
	Mode   int // addressing for send/call
	Prio   gen.MessagePriority
	Reason int // index into reasons for stop
}

type Scenario struct {
	Kind       int
	State      int
	SpinUs     int
	LongHoldMs int // the parked handler returns only this long after all agents are done
	Agents     [][]Op
	Choices    []int
	Scheduled  bool
}

func (s Scenario) String() string {
	var sb strings.Builder
	fmt.Fprintf(&sb, "kind=%d state=%d spin=%dus sched=%v hold=%dms agents=", s.Kind, s.State, s.SpinUs, s.Scheduled, s.LongHoldMs)
	for i, a := range s.Agents {
		if i > 0 {
			sb.WriteString(" | ")
		}
		for j, o := range a {
			if j > 0 {
				sb.WriteString(",")
			}
			sb.WriteString(opNames[o.Kind])
			if o.Kind == OpStop {
				fmt.Fprintf(&sb, "(%d)", o.Reason)
			}
		}
	}
	return sb.String()
}

var stopReasons = []error{gen.TerminateReasonNormal, gen.TerminateReasonShutdown, errors.New("custom-stop-reason")}

// Generate draws a scenario. weights selects which op kinds may appear.
func Generate(t *rapid.T, scheduled bool, allowed []int) Scenario {
	sc := Scenario{Scheduled: scheduled}
	sc.Kind = rapid.IntRange(KindActor, KindWeb).Draw(t, "kind")
	sc.State = rapid.SampledFrom([]int{StateIdle, StateInHandler, StateWaitResponse, StateIdle, StateInHandler, StateWaitResponse,
		StateIdle, StateInHandler, StateWaitResponse, StateIdle, StateInHandler, StateWaitResponse,
		StateIdle, StateInHandler, StateWaitResponse, StateIdle, StateInHandler, StateWaitTimeout, StateWaitTimeout}).Draw(t, "state")
	if os.Getenv("VERIF_FORCE_WAIT_TIMEOUT") != "" {
		sc.State = StateWaitTimeout // development aid: every case in the rare state
	}
	if sc.State >= StateWaitResponse && sc.Kind > KindActorTrap {
		sc.State = StateInHandler
	}
	sc.SpinUs = rapid.IntRange(0, 30).Draw(t, "spin_us")
	na := rapid.IntRange(2, 4).Draw(t, "agents")
	for i := 0; i < na; i++ {
		n := rapid.IntRange(1, 3).Draw(t, "ops")
		var ops []Op
		for j := 0; j < n; j++ {
			o := Op{Kind: rapid.SampledFrom(allowed).Draw(t, "op")}
			o.Mode = rapid.IntRange(0, 2).Draw(t, "mode")
			o.Prio = rapid.SampledFrom([]gen.MessagePriority{gen.MessagePriorityNormal, gen.MessagePriorityHigh, gen.MessagePriorityMax}).Draw(t, "prio")
			o.Reason = rapid.IntRange(0, len(stopReasons)-1).Draw(t, "reason")
			ops = append(ops, o)
		}
		sc.Agents = append(sc.Agents, ops)
	}
	if scheduled {
		sc.Choices = rapid.SliceOfN(rapid.IntRange(0, 7), 8, 64).Draw(t, "schedule")
	}
	// thorough tier, free-running: now and then the handler the receiver sits in goes on for
	// seconds after the causes were issued (a killed process is finalized when its callback
	// returns - however long that takes - never while it is still executing)
	if !scheduled && sc.State == StateInHandler && kit.Tier() == "thorough" && rapid.IntRange(0, 149).Draw(t, "long_hold") == 0 {
		sc.LongHoldMs = rapid.SampledFrom([]int{1500, 6500}).Draw(t, "hold_ms")
		for i := range sc.Agents {
			for j := range sc.Agents[i] {
				if sc.Agents[i][j].Kind == OpOpenGate {
					sc.Agents[i][j].Kind = OpSend
				}
			}
		}
	}
	return sc
}

// Cause is a termination cause that was issued.
type Cause struct {
	Kind   int
	Reason error // the reason the terminate callback must reflect (errors.Is)
}

type Result struct {
	Probe        *kit.Probe
	RecvEvents   []kit.Event
	Terminated   bool // receiver is gone from the node
	Causes       []Cause
	LinkSeen     []error // reasons seen by the linked observer
	MonSeen      []error // reasons seen by the monitoring observer
	TrapExits    int     // exit signals from non-parents delivered as messages to a trapping actor
	Trace        []string
	CoPark       map[string]bool
	MaxPark      int
	Steps        int
	Inconclusive string
	RecvPID      gen.PID
}

// Run executes the scenario on a fresh node.
func Run(sc Scenario) (res *Result, err error) {
	res = &Result{Probe: kit.NewProbe()}
	probe := res.Probe
	node, err := kit.StartLocalNode()
	if err != nil {
		return nil, err
	}
	defer node.StopForce()

	spinNs := int64(sc.SpinUs) * 1000
	quiet := func(label string) gen.ProcessFactory {
		return kit.Factory(&kit.ActorConfig{Label: label, Probe: probe, Quiet: true})
	}

	// slow callee for the wait-response state
	slowGate := make(chan struct{})
	slow, err := node.Spawn(kit.Factory(&kit.ActorConfig{Label: "slow", Probe: probe, Quiet: true,
		OnCall: func(a *kit.Actor, from gen.PID, ref gen.Ref, req any) (any, error) {
			<-slowGate
			return "late", nil
		}}), gen.ProcessOptions{})
	if err != nil {
		return nil, err
	}
	var gateOnce sync.Once
	openGates := []func(){func() { gateOnce.Do(func() { close(slowGate) }) }}
	defer func() {
		for _, f := range openGates {
			f()
		}
	}()

	// parent process spawns the receiver so that "exit from parent" exists
	var recv gen.PID
	var spawnErr error
	par, err := node.Spawn(kit.Factory(&kit.ActorConfig{Label: "parent", Probe: probe, Quiet: true, Trap: true}), gen.ProcessOptions{})
	if err != nil {
		return nil, err
	}
	var factory gen.ProcessFactory
	switch sc.Kind {
	case KindActor, KindActorTrap:
		factory = kit.Factory(&kit.ActorConfig{Label: "recv", Probe: probe, Trap: sc.Kind == KindActorTrap, SpinNs: spinNs})
	case KindSupervisor:
		factory = kit.SupFactory(&kit.SupConfig{Label: "recv", Probe: probe, SpinNs: spinNs,
			Spec: func(args ...any) (act.SupervisorSpec, error) {
				return act.SupervisorSpec{Type: act.SupervisorTypeOneForOne,
					Restart:  act.SupervisorRestart{Strategy: act.SupervisorStrategyTransient, Intensity: 100},
					Children: []act.SupervisorChildSpec{{Name: "lc1", Factory: quiet("child")}, {Name: "lc2", Factory: quiet("child")}}}, nil
			}})
	case KindRaw:
		factory = kit.RawFactory("recv", probe, spinNs)
	case KindWeb:
		factory = kit.WebFactory(&kit.WebConfig{Label: "recv", Probe: probe, SpinNs: spinNs})
	case KindPool:
		factory = kit.PoolFactory(&kit.PoolConfig{Label: "recv", Probe: probe, SpinNs: spinNs,
			Options: func(args ...any) (act.PoolOptions, error) {
				return act.PoolOptions{PoolSize: 2, WorkerFactory: quiet("worker")}, nil
			}})
	}
	if e := kit.InProc(node, par, func(a *kit.Actor) {
		recv, spawnErr = a.SpawnRegister("recv", factory, gen.ProcessOptions{})
	}); e != nil || spawnErr != nil {
		return nil, fmt.Errorf("spawn receiver: %v %v", e, spawnErr)
	}
	res.RecvPID = recv

	// observers
	obsCfg := func(label string, seen *[]error, mu *sync.Mutex) *kit.ActorConfig {
		return &kit.ActorConfig{Label: label, Probe: probe, Trap: true, Quiet: true,
			OnMessage: func(a *kit.Actor, from gen.PID, msg any) (bool, error) {
				switch m := msg.(type) {
				case gen.MessageExitPID:
					if m.PID == recv {
						mu.Lock()
						*seen = append(*seen, m.Reason)
						mu.Unlock()
					}
				case gen.MessageDownPID:
					if m.PID == recv {
						mu.Lock()
						*seen = append(*seen, m.Reason)
						mu.Unlock()
					}
				}
				return true, nil
			}}
	}
	var omu sync.Mutex
	var linkSeen, monSeen []error // written by the observers (also during teardown): copied under omu
	obsL, _ := node.Spawn(kit.Factory(obsCfg("obs-link", &linkSeen, &omu)), gen.ProcessOptions{})
	obsM, _ := node.Spawn(kit.Factory(obsCfg("obs-mon", &monSeen, &omu)), gen.ProcessOptions{})
	var lerr, merr error
	kit.InProc(node, obsL, func(a *kit.Actor) { lerr = a.LinkPID(recv) })
	kit.InProc(node, obsM, func(a *kit.Actor) { merr = a.MonitorPID(recv) })
	if lerr != nil || merr != nil {
		return nil, fmt.Errorf("observers: %v %v", lerr, merr)
	}

	// helper processes for asynchronous ops
	other, _ := node.Spawn(quiet("other"), gen.ProcessOptions{})
	evName := gen.Atom("lev")
	token, err := node.RegisterEvent(evName, gen.EventOptions{})
	if err != nil {
		return nil, err
	}
	var alias gen.Alias
	setupDone := make(chan struct{})
	switch sc.Kind {
	case KindActor, KindActorTrap:
		err = node.Send(recv, kit.Do{F: func(a *kit.Actor) {
			alias, _ = a.CreateAlias()
			a.MonitorEvent(gen.Event{Name: evName})
		}, Done: setupDone})
	case KindSupervisor:
		err = node.Send(recv, kit.DoSup{F: func(s *kit.Sup) { s.MonitorEvent(gen.Event{Name: evName}) }, Done: setupDone})
	case KindPool:
		err = node.SendWithPriority(recv, kit.DoPool{F: func(p *kit.Pool) { p.MonitorEvent(gen.Event{Name: evName}) }, Done: setupDone}, gen.MessagePriorityHigh)
	case KindRaw:
		err = node.Send(recv, kit.DoRaw{F: func(r *kit.Raw) {
			alias, _ = r.CreateAlias()
			r.MonitorEvent(gen.Event{Name: evName})
		}, Done: setupDone})
	case KindWeb:
		err = node.Send(recv, kit.DoWeb{F: func(w *kit.Web) {
			alias, _ = w.CreateAlias()
			w.MonitorEvent(gen.Event{Name: evName})
		}, Done: setupDone})
	}
	if err != nil {
		return nil, err
	}
	<-setupDone

	// put the receiver into the requested state
	var gate kit.Gate
	var callReturned atomic.Bool
	switch sc.State {
	case StateInHandler:
		gate = kit.Gate{Entered: make(chan struct{}), Open: make(chan struct{})}
		var once sync.Once
		openGates = append(openGates, func() { once.Do(func() { close(gate.Open) }) })
		prio := gen.MessagePriorityNormal
		if sc.Kind == KindPool {
			prio = gen.MessagePriorityHigh
		}
		if err := node.SendWithPriority(recv, gate, prio); err != nil {
			return nil, err
		}
		<-gate.Entered
	case StateWaitResponse, StateWaitTimeout:
		tmo := 2
		if sc.State == StateWaitTimeout {
			tmo = 1
		}
		if err := node.Send(recv, kit.Do{F: func(a *kit.Actor) { a.CallWithTimeout(slow, "x", tmo); callReturned.Store(true) }}); err != nil {
			return nil, err
		}
		if !kit.WaitUntil(2*time.Second, func() bool {
			st, err := node.ProcessState(recv)
			return err == nil && st == gen.ProcessStateWaitResponse
		}) {
			res.Inconclusive = "receiver did not reach wait-response"
			return res, nil
		}
	default:
		if !kit.WaitUntil(2*time.Second, func() bool { return kit.Quiesced(node, recv) }) {
			res.Inconclusive = "receiver did not settle"
			return res, nil
		}
	}

	var sched *kit.Sched
	if sc.Scheduled {
		sched = kit.NewSched(func(name string, id uint64) bool {
			if id != recv.ID {
				return false
			}
			return strings.HasPrefix(name, "run.") || strings.HasPrefix(name, "send.") ||
				strings.HasPrefix(name, "kill.") || strings.HasPrefix(name, "wait.") || name == "unreg.enter"
		})
		defer sched.Close()
	}

	var cmu sync.Mutex
	addCause := func(c Cause) {
		cmu.Lock()
		res.Causes = append(res.Causes, c)
		cmu.Unlock()
	}
	// wait-timeout state: nobody answers, the receiver leaves the wait through its timeout (or
	// it is gone); the gates stay shut until then
	var held []func()
	if sc.State == StateWaitTimeout {
		held = openGates
		openGates = nil
		defer func() {
			for _, f := range held {
				f()
			}
		}()
	}
	var wg sync.WaitGroup
	for i, ops := range sc.Agents {
		wg.Add(1)
		go func(i int, ops []Op) {
			defer wg.Done()
			for j, o := range ops {
				var to any = recv
				if o.Mode == 1 {
					to = gen.Atom("recv")
				} else if o.Mode == 2 && (sc.Kind <= KindActorTrap || sc.Kind == KindRaw || sc.Kind == KindWeb) {
					to = alias
				}
				payload := kit.Numbered{ID: i*100 + j}
				switch o.Kind {
				case OpSend:
					node.SendWithPriority(to, payload, o.Prio)
				case OpCall:
					c, err := node.Spawn(quiet("caller"), gen.ProcessOptions{})
					if err == nil {
						node.Send(c, kit.Do{F: func(a *kit.Actor) { a.CallWithTimeout(to, payload, 1) }})
					}
				case OpSendAfter:
					d := time.Duration(j) * time.Millisecond
					node.Send(other, kit.Do{F: func(a *kit.Actor) { a.SendAfter(to, payload, d) }})
				case OpExitParent:
					r := fmt.Errorf("exit-parent-%d-%d", i, j)
					addCause(Cause{Kind: OpExitParent, Reason: r})
					// wait until the signal has really been issued (the helper runs asynchronously)
					d := make(chan struct{})
					if node.Send(par, kit.Do{F: func(a *kit.Actor) { a.SendExit(recv, r) }, Done: d}) == nil {
						select {
						case <-d:
						case <-time.After(10 * time.Second):
						}
					}
				case OpExitOther:
					r := fmt.Errorf("exit-other-%d-%d", i, j)
					if sc.Kind != KindActorTrap {
						addCause(Cause{Kind: OpExitOther, Reason: r})
					}
					c, err := node.Spawn(quiet("exiter"), gen.ProcessOptions{})
					if err == nil {
						d := make(chan struct{})
						if node.Send(c, kit.Do{F: func(a *kit.Actor) { a.SendExit(recv, r) }, Done: d}) == nil {
							select {
							case <-d:
							case <-time.After(10 * time.Second):
							}
						}
					}
				case OpKill:
					addCause(Cause{Kind: OpKill, Reason: gen.TerminateReasonKill})
					node.Kill(recv)
				case OpInspect:
					c, err := node.Spawn(quiet("inspector"), gen.ProcessOptions{})
					if err == nil {
						node.Send(c, kit.Do{F: func(a *kit.Actor) { a.Inspect(recv) }})
					}
				case OpEvent:
					node.SendEvent(evName, token, gen.MessageOptions{Priority: o.Prio}, payload)
				case OpStop:
					r := stopReasons[o.Reason]
					addCause(Cause{Kind: OpStop, Reason: r})
					prio := o.Prio
					if sc.Kind == KindPool && prio == gen.MessagePriorityNormal {
						prio = gen.MessagePriorityHigh // Normal traffic would go to a worker
					}
					node.SendWithPriority(recv, kit.Stop{Reason: r}, prio)
				case OpBoom:
					addCause(Cause{Kind: OpBoom, Reason: gen.TerminateReasonPanic})
					prio := o.Prio
					if sc.Kind == KindPool && prio == gen.MessagePriorityNormal {
						prio = gen.MessagePriorityHigh
					}
					node.SendWithPriority(recv, kit.Boom{}, prio)
				case OpOpenGate:
					for _, f := range openGates {
						f()
					}
				}
			}
		}(i, ops)
	}
	doneCh := make(chan struct{})
	go func() { wg.Wait(); close(doneCh) }()
	if held != nil {
		go func() {
			<-doneCh
			// (the state word is no guide here: a killed process is "zombee" while it still waits)
			kit.WaitUntil(4*time.Second, func() bool {
				_, err := node.ProcessState(recv)
				return err != nil || callReturned.Load()
			})
			for _, f := range held {
				f()
			}
		}()
	}
	if sched != nil {
		res.Steps = sched.Run(sc.Choices, func() bool {
			select {
			case <-doneCh:
				return true
			default:
				return false
			}
		}, 3*time.Second)
		// open the gates under the scheduler's control as well, then let it run out
		for _, f := range openGates {
			f()
		}
		res.Steps += sched.Run(sc.Choices, func() bool { return true }, 2*time.Second)
		sched.Close()
		res.Trace = sched.Trace
		res.CoPark = sched.CoPark
		res.MaxPark = sched.MaxPark
	}
	<-doneCh
	if sc.LongHoldMs > 0 && !sc.Scheduled {
		time.Sleep(time.Duration(sc.LongHoldMs) * time.Millisecond)
	}
	for _, f := range openGates {
		f()
	}

	// settle: the asynchronous helpers need a moment to issue their signals
	gone := func() bool {
		_, err := node.ProcessInfo(recv)
		return err != nil
	}
	time.Sleep(time.Millisecond)
	if !kit.WaitUntil(10*time.Second, func() bool { return gone() || kit.Quiesced(node, recv) }) {
		if stuck, w := kit.Stuck(node, recv); stuck {
			return res, fmt.Errorf("receiver stuck: %s", w)
		}
		res.Inconclusive = "receiver neither terminated nor quiesced within 10 s"
		return res, nil
	}
	time.Sleep(time.Millisecond)
	kit.WaitUntil(10*time.Second, func() bool { return gone() || kit.Quiesced(node, recv) })
	// "asleep with an empty mailbox" is not final for a process that is on its way out (a
	// supervisor waits like that for its children to stop): when a cause was issued, or the
	// terminate callback is already on record, give it time to disappear
	cmu.Lock()
	ncauses := len(res.Causes)
	cmu.Unlock()
	if !gone() && (ncauses > 0 || probe.Terminated("recv", recv)) {
		kit.WaitUntil(3*time.Second, gone)
	}
	res.Terminated = gone()
	if !res.Terminated {
		if stuck, w := kit.Stuck(node, recv); stuck {
			res.Inconclusive = ""
			return res, fmt.Errorf("receiver stuck: %s", w)
		}
	}
	// the terminate callback follows unregisterProcess; the observers' notifications were
	// queued before it and are handled asynchronously: wait on states, not on time
	if res.Terminated {
		if !kit.WaitUntil(10*time.Second, func() bool { return probe.Terminated("recv", recv) }) {
			res.Inconclusive = "terminate callback did not complete within 10 s"
		}
	}
	for _, o := range []gen.PID{obsL, obsM} {
		o := o
		kit.WaitUntil(5*time.Second, func() bool { return kit.Quiesced(node, o) })
	}
	time.Sleep(time.Millisecond)
	res.RecvEvents = probe.EventsOf("recv")
	omu.Lock()
	res.LinkSeen = append([]error(nil), linkSeen...)
	res.MonSeen = append([]error(nil), monSeen...)
	omu.Unlock()
	for _, e := range res.RecvEvents {
		if m, ok := e.Msg.(gen.MessageExitPID); ok && e.Kind == "msg" && strings.HasPrefix(m.Reason.Error(), "exit-other") {
			res.TrapExits++
		}
	}
	return res, nil
}
