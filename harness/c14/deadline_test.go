package c14

import (
	"fmt"
	"sync"
	"testing"
	"time"

	"ergo.services/ergo/gen"
	"pgregory.net/rapid"

	"verif/harness/kit"
	"verif/harness/kit/netkit"
)

// "requests in flight fail within their timeout instead of hanging": a request that is never
// answered returns an error after its timeout, whatever else reaches the caller while it
// waits - in particular replies to earlier requests of the same caller that had already timed
// out, and whatever happens to the peer (nothing, target killed, node stopped).
var recDeadline = kit.NewRecorder("C14", "deadline",
	"node A and a fresh node B; a caller on A first makes 0-2 requests (timeout 1 s) to a B process that answers each of them late, 1-6 times, at generated moments spread over the next 1.6 s, then one request with timeout 1-2 s to a B process that never answers; meanwhile a generated event: nothing, the silent target is killed, node B is stopped, A disconnects; "+
		"oracle: the last request returns an error (never a value) no later than its timeout + 1 s; the measurement is discarded (inconclusive) when a control sleeper started at the same moment overshoots by more than 250 ms, i.e. when the machine itself is late; "+
		"non-trivial = at least one late reply to an earlier request arrived while the last request was waiting; distinct by script")

type lateTick struct {
	From gen.PID
	Ref  gen.Ref
	N    int
}

func propDeadline(t *rapid.T) {
	s, err := nodeA()
	if err != nil {
		t.Fatalf("node A: %v", err)
	}
	earlier := rapid.IntRange(0, 2).Draw(t, "earlier_requests")
	type late struct{ offsets []int }
	lates := make([]late, earlier)
	for i := range lates {
		for n := rapid.IntRange(1, 6).Draw(t, "late_replies"); n > 0; n-- {
			// milliseconds after the earlier request was received; it times out after 1000
			lates[i].offsets = append(lates[i].offsets, rapid.IntRange(1200, 2700).Draw(t, "late_ms"))
		}
	}
	tmo := rapid.IntRange(1, 2).Draw(t, "timeout")
	event := rapid.IntRange(0, 3).Draw(t, "event") // 0 nothing 1 kill the silent target 2 stop B 3 disconnect
	eventAt := rapid.IntRange(0, 900).Draw(t, "event_ms")

	bname := netkit.NetNodeName("c14d")
	b, err := startB(s.hub, bname)
	if err != nil {
		t.Fatalf("node B: %v", err)
	}
	var stopOnce sync.Once
	stopB := func() { stopOnce.Do(func() { b.StopForce() }) }
	defer stopB()
	probe := kit.NewProbe()
	silent, err := b.Spawn(kit.Factory(&kit.ActorConfig{Label: "silent", Probe: probe, Quiet: true,
		OnCall: func(a *kit.Actor, from gen.PID, ref gen.Ref, req any) (any, error) { return nil, nil }}), gen.ProcessOptions{})
	if err != nil {
		t.Fatalf("spawn: %v", err)
	}
	lateProc, err := b.Spawn(kit.Factory(&kit.ActorConfig{Label: "late", Probe: probe, Quiet: true,
		OnCall: func(a *kit.Actor, from gen.PID, ref gen.Ref, req any) (any, error) {
			if i, ok := req.(int); ok && i < len(lates) {
				for n, ms := range lates[i].offsets {
					a.SendAfter(a.PID(), lateTick{From: from, Ref: ref, N: n}, time.Duration(ms)*time.Millisecond)
				}
			}
			return nil, nil
		},
		OnMessage: func(a *kit.Actor, from gen.PID, msg any) (bool, error) {
			if lt, ok := msg.(lateTick); ok {
				a.SendResponse(lt.From, lt.Ref, fmt.Sprintf("late-%d", lt.N))
			}
			return true, nil
		}}), gen.ProcessOptions{})
	if err != nil {
		t.Fatalf("spawn: %v", err)
	}
	caller, err := s.a.Spawn(kit.Factory(&kit.ActorConfig{Label: "caller", Probe: probe, Quiet: true}), gen.ProcessOptions{})
	if err != nil {
		t.Fatalf("spawn: %v", err)
	}
	defer s.a.Kill(caller)
	if _, err := s.a.Network().GetNode(bname); err != nil {
		t.Fatalf("connect: %v", err)
	}

	var elapsed, control time.Duration
	var val any
	var cerr error
	var earlierErrs []error
	var started time.Time
	done := make(chan struct{})
	ctl := make(chan time.Duration, 1)
	startedCh := make(chan struct{})
	if err := s.a.Send(caller, kit.Do{F: func(a *kit.Actor) {
		for i := 0; i < earlier; i++ {
			_, e := a.CallWithTimeout(lateProc, i, 1)
			earlierErrs = append(earlierErrs, e)
		}
		started = time.Now()
		close(startedCh)
		go func(t0 time.Time) {
			time.Sleep(time.Duration(tmo) * time.Second)
			ctl <- time.Since(t0)
		}(started)
		val, cerr = a.CallWithTimeout(silent, "never", tmo)
		elapsed = time.Since(started)
	}, Done: done}); err != nil {
		t.Fatalf("start caller: %v", err)
	}
	select {
	case <-startedCh:
	case <-time.After(10 * time.Second):
		t.Fatalf("the earlier requests (timeout 1 s each) did not return within 10 s")
	}
	if event != 0 {
		time.Sleep(time.Duration(eventAt) * time.Millisecond)
		switch event {
		case 1:
			b.Kill(silent)
		case 2:
			stopB()
		case 3:
			if rn, err := s.a.Network().Node(bname); err == nil {
				rn.Disconnect()
			}
		}
	}
	limit := time.Duration(tmo)*time.Second + time.Second
	select {
	case <-done:
	case <-time.After(limit + 6*time.Second):
		t.Fatalf("a request with a timeout of %d s that is never answered had not returned after %v (earlier requests answered late at %v ms, event %d at %d ms)", tmo, limit+6*time.Second, lates, event, eventAt)
	}
	control = <-ctl
	// (an earlier request may legitimately have caught its first late reply if the caller's timer
	// was late itself; nothing is asserted about those)
	_ = earlierErrs
	if cerr == nil {
		t.Fatalf("the request to a process that never answers returned the value %#v (earlier requests answered late at %v ms, event %d at %d ms)", val, lates, event, eventAt)
	}
	// how many late replies fell into the last request's waiting time
	during := 0
	for i := range lates {
		// earlier request i was made (earlier-i) seconds before the last one
		back := (earlier - i) * 1000
		for _, ms := range lates[i].offsets {
			if at := ms - back; at > 0 && at < tmo*1000 {
				during++
			}
		}
	}
	if control-time.Duration(tmo)*time.Second > 250*time.Millisecond {
		t.Skipf("inconclusive: the machine is late (a sleep of %d s took %v)", tmo, control)
	}
	if elapsed > limit {
		t.Fatalf("a request with a timeout of %d s that is never answered returned (%v) only after %v; %d late replies to earlier requests arrived while it waited (offsets %v ms), event %d at %d ms", tmo, cerr, elapsed, during, lates, event, eventAt)
	}
	recDeadline.Case(during > 0, fmt.Sprintf("earlier=%v tmo=%d event=%d@%d", lates, tmo, event, eventAt), fmt.Sprintf("event=%d", event), fmt.Sprintf("late-during=%d", minInt(during, 3)))
}

func minInt(a, b int) int {
	if a < b {
		return a
	}
	return b
}

func TestDeadline(t *testing.T) {
	rapid.Check(t, propDeadline)
}
