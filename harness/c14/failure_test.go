package c14

import (
	"errors"
	"fmt"
	"strings"
	"sync"
	"testing"
	"time"

	"ergo.services/ergo/gen"
	"ergo.services/ergo/net/handshake"
	"pgregory.net/rapid"

	"verif/harness/kit"
	"verif/harness/kit/netkit"
)

var recFail = kit.NewRecorder("C14", "faults",
	"a long-lived node A and a fresh node B per case (different incarnation seconds, one TCP link through a byte-counting proxy): 1-4 observer processes on A each request a link or monitor on an identity of a B process (pid, registered name, alias, event) or on node B itself; optionally a call to a B process that never answers is in flight; then a generated fault: RemoteNode.Disconnect on A, Disconnect on B, graceful stop of B, forced stop of B, the proxy cuts the TCP link after a generated number of bytes (anywhere from inside the handshake to after the last request), or the B-side target terminates normally while connected; "+
		"oracle: every observer whose request returned nil receives exactly one exit/down message naming its target - with reason 'no connection' when the connection went down (the remote termination reason is admissible if B was stopping), with the remote reason when the target terminated while connected; observers whose request failed receive nothing; a pending call returns an error within its timeout + 1 s; "+
		"non-trivial = the link was cut strictly inside the exchange (after the first request left, before the last result arrived), or the fault hit with a call in flight; distinct by script")

type shared struct {
	hub *netkit.Hub
	a   gen.Node
	err error
}

// connWitness is a logger of node A: it counts, per peer, the connections the node's network
// layer reports as established and as terminated. It is the independent witness for "the
// connection was lost" (a node monitor may fire exactly then), also for losses this test did
// not cause.
type connWitness struct {
	mu       sync.Mutex
	up, down map[gen.Atom]int
}

func (w *connWitness) Log(m gen.MessageLog) {
	if len(m.Args) == 0 {
		return
	}
	name, ok := m.Args[0].(gen.Atom)
	if !ok {
		return
	}
	w.mu.Lock()
	defer w.mu.Unlock()
	switch {
	case strings.HasPrefix(m.Format, "new connection with %s"):
		w.up[name]++
	case strings.HasPrefix(m.Format, "connection with %s") && strings.Contains(m.Format, "terminated"):
		w.down[name]++
	}
}
func (w *connWitness) Terminate() {}
func (w *connWitness) counts(name gen.Atom) (int, int) {
	w.mu.Lock()
	defer w.mu.Unlock()
	return w.up[name], w.down[name]
}

var witness = &connWitness{up: map[gen.Atom]int{}, down: map[gen.Atom]int{}}

var (
	shOnce sync.Once
	sh     shared
)

func nodeA() (*shared, error) {
	shOnce.Do(func() {
		sh.hub = netkit.NewHub()
		sh.a, sh.err = netkit.StartNetNode(sh.hub, netkit.NetNodeName("c14a"), "cookie-c14", func(o *gen.NodeOptions) {
			o.Log.Level = gen.LogLevelInfo
			o.Log.Loggers = append(o.Log.Loggers, gen.Logger{Name: "verif-conn-witness", Logger: witness})
		})
		time.Sleep(1100 * time.Millisecond) // every B gets another incarnation second than A
	})
	return &sh, sh.err
}

func startB(h *netkit.Hub, name gen.Atom) (gen.Node, error) {
	return netkit.StartNetNode(h, name, "cookie-c14", func(o *gen.NodeOptions) {
		o.Network.Handshake = handshake.Create(handshake.Options{PoolSize: 1})
	})
}

type target struct {
	pid   gen.PID
	alias gen.Alias
}

// populateB spawns the same processes in the same order on every incarnation (so that ids repeat).
func populateB(b gen.Node, probe *kit.Probe, label string) (target, error) {
	var t target
	var err error
	cfg := &kit.ActorConfig{Label: label, Probe: probe,
		OnCall: func(a *kit.Actor, from gen.PID, ref gen.Ref, req any) (any, error) {
			if req == "never" {
				return nil, nil // asynchronous handling, no reply ever
			}
			return "pong", nil
		}}
	t.pid, err = b.SpawnRegister("tgt", kit.Factory(cfg), gen.ProcessOptions{})
	if err != nil {
		return t, err
	}
	err = kit.InProc(b, t.pid, func(a *kit.Actor) {
		t.alias, _ = a.CreateAlias()
		a.RegisterEvent("tev", gen.EventOptions{})
	})
	return t, err
}

type obs struct {
	pid     gen.PID
	monitor bool
	kind    int // 0 pid 1 name 2 alias 3 event 4 node
	err     error
	done    bool
	notes   []string
	reasons []error
	// further relations of the same process (one process can hold several links or monitors
	// on the lost node: each one is reported on its own)
	more []*obs
}

func propFaults(t *rapid.T) {
	s, err := nodeA()
	if err != nil {
		t.Fatalf("node A: %v", err)
	}
	nobs := rapid.IntRange(1, 4).Draw(t, "observers")
	observers := make([]*obs, nobs)
	for i := range observers {
		observers[i] = &obs{monitor: rapid.Bool().Draw(t, "monitor"), kind: rapid.IntRange(0, 4).Draw(t, "identity")}
		used := map[int]bool{observers[i].kind: true}
		for n := rapid.IntRange(0, 2).Draw(t, "more_relations"); n > 0; n-- {
			k := rapid.IntRange(0, 4).Draw(t, "more_identity")
			if !used[k] {
				used[k] = true
				observers[i].more = append(observers[i].more, &obs{monitor: observers[i].monitor, kind: k})
			}
		}
	}
	withCall := rapid.IntRange(0, 2).Draw(t, "pending_call") == 0
	fault := rapid.IntRange(0, 6).Draw(t, "fault") // 0 disconnect A 1 disconnect B 2 stop B 3 stop-force B 4,5 cut at byte k 6 target terminates
	cutFrac := rapid.IntRange(0, 1200).Draw(t, "cut_permille")

	bname := netkit.NetNodeName("c14b")
	b, err := startB(s.hub, bname)
	if err != nil {
		t.Fatalf("node B: %v", err)
	}
	bStopped := false
	defer func() {
		if !bStopped {
			b.StopForce()
		}
	}()
	route, _ := s.hub.Route(bname)
	px, err := netkit.NewProxy(fmt.Sprintf("127.0.0.1:%d", route.Port))
	if err != nil {
		t.Fatalf("proxy: %v", err)
	}
	defer px.Close()
	pr := route
	pr.Port, pr.Host = px.Port, "127.0.0.1"
	s.hub.SetRoute(bname, pr)

	probe := kit.NewProbe()
	tgt, err := populateB(b, probe, "tgt")
	if err != nil {
		t.Fatalf("populate: %v", err)
	}
	idOf := func(kind int) any {
		switch kind {
		case 0:
			return tgt.pid
		case 1:
			return gen.ProcessID{Name: "tgt", Node: bname}
		case 2:
			return tgt.alias
		case 3:
			return gen.Event{Name: "tev", Node: bname}
		}
		return bname
	}
	var mu sync.Mutex
	var cleanup []gen.PID
	defer func() {
		for _, p := range cleanup {
			s.a.Kill(p)
		}
	}()
	spawner, err := s.a.Spawn(kit.Factory(&kit.ActorConfig{Label: "spawner", Probe: probe, Quiet: true}), gen.ProcessOptions{})
	if err != nil {
		t.Fatalf("spawner: %v", err)
	}
	cleanup = append(cleanup, spawner)
	for i, o := range observers {
		i, o := i, o
		// observers are spawned by a process (not by the node): an exit signal whose sender is the
		// node core would otherwise count as coming from the parent and could not be trapped
		ocfg := &kit.ActorConfig{Label: fmt.Sprintf("obs%d", i), Probe: probe, Trap: true, Quiet: true,
			OnMessage: func(a *kit.Actor, from gen.PID, msg any) (bool, error) {
				var k string
				var reason error
				switch m := msg.(type) {
				case gen.MessageExitPID:
					k, reason = fmt.Sprintf("%v", m.PID), m.Reason
				case gen.MessageDownPID:
					k, reason = fmt.Sprintf("%v", m.PID), m.Reason
				case gen.MessageExitProcessID:
					k, reason = fmt.Sprintf("%v", m.ProcessID), m.Reason
				case gen.MessageDownProcessID:
					k, reason = fmt.Sprintf("%v", m.ProcessID), m.Reason
				case gen.MessageExitAlias:
					k, reason = fmt.Sprintf("%v", m.Alias), m.Reason
				case gen.MessageDownAlias:
					k, reason = fmt.Sprintf("%v", m.Alias), m.Reason
				case gen.MessageExitEvent:
					k, reason = fmt.Sprintf("%v", m.Event), m.Reason
				case gen.MessageDownEvent:
					k, reason = fmt.Sprintf("%v", m.Event), m.Reason
				case gen.MessageExitNode:
					k, reason = fmt.Sprintf("%v", m.Name), gen.ErrNoConnection
				case gen.MessageDownNode:
					k, reason = fmt.Sprintf("%v", m.Name), gen.ErrNoConnection
				default:
					return true, nil
				}
				mu.Lock()
				matched := false
				for _, r := range append([]*obs{o}, o.more...) {
					if k == fmt.Sprintf("%v", idOf(r.kind)) {
						r.notes = append(r.notes, fmt.Sprintf("%T", msg))
						r.reasons = append(r.reasons, reason)
						matched = true
						break
					}
				}
				if !matched {
					o.notes = append(o.notes, fmt.Sprintf("FOREIGN %T %s", msg, k))
				}
				mu.Unlock()
				return true, nil
			}}
		var serr error
		if e := kit.InProc(s.a, spawner, func(a *kit.Actor) { o.pid, serr = a.Spawn(kit.Factory(ocfg), gen.ProcessOptions{}) }); e != nil || serr != nil {
			t.Fatalf("spawn observer: %v %v", e, serr)
		}
		cleanup = append(cleanup, o.pid)
	}
	// dry knowledge of the transcript length: handshake + requests are roughly 6-9 KB; the cut point
	// is a fraction of a generous bound so that every region (handshake, requests, after) is reached
	if fault == 4 || fault == 5 {
		px.CutAfter(int64(cutFrac)*70 + 1) // the transcript (handshake with caches + requests) is about 75 KB
	}
	// the exchange: requests run concurrently - after the first one. Several processes dialling
	// the same node at the same moment can leave A with the connection B turns down and B with the
	// one A turns down: the connection comes up and is lost again at once, the observers that
	// were quick enough are (rightly) told so, and this case's fault finds their relations gone.
	// That is a property of simultaneous dials, not of what is generated here, so one request
	// establishes the connection and the others follow.
	var wg sync.WaitGroup
	firstDone := make(chan struct{})
	for oi, o := range observers {
		wg.Add(1)
		go func(oi int, first *obs) {
			defer wg.Done()
			if oi > 0 {
				<-firstDone
			}
			for ri, o := range append([]*obs{first}, first.more...) {
				if oi == 0 && ri == 1 {
					close(firstDone)
				}
				id := idOf(o.kind)
				var rerr error
				e := kit.InProc(s.a, first.pid, func(a *kit.Actor) {
					switch v := id.(type) {
					case gen.Event:
						if o.monitor {
							_, rerr = a.MonitorEvent(v)
						} else {
							_, rerr = a.LinkEvent(v)
						}
					case gen.Atom:
						if o.monitor {
							rerr = a.MonitorNode(v)
						} else {
							rerr = a.LinkNode(v)
						}
					default:
						if o.monitor {
							rerr = a.Monitor(id)
						} else {
							rerr = a.Link(id)
						}
					}
				})
				if e != nil {
					rerr = e
				}
				mu.Lock()
				o.err, o.done = rerr, true
				mu.Unlock()
			}
			if oi == 0 && len(first.more) == 0 {
				close(firstDone)
			}
		}(oi, o)
	}
	var callErr error
	callReturned := make(chan time.Duration, 1)
	if withCall {
		<-firstDone // (not a second dial next to the first request's)
		caller, err := s.a.Spawn(kit.Factory(&kit.ActorConfig{Label: "caller", Probe: probe, Quiet: true}), gen.ProcessOptions{})
		if err == nil {
			cleanup = append(cleanup, caller)
			t0 := time.Now()
			s.a.Send(caller, kit.Do{F: func(a *kit.Actor) {
				_, callErr = a.CallWithTimeout(tgt.pid, "never", 1)
				callReturned <- time.Since(t0)
			}})
		}
	}
	wg.Wait()
	bytesAfterRequests := px.Bytes.Load()
	// B registers an accepted connection a moment after the handshake: a stop of B racing with that
	// would leave the socket open inside this (shared) OS process, which a real node exit cannot do
	if _, err := s.a.Network().Node(bname); err == nil {
		kit.WaitUntil(2*time.Second, func() bool { _, err := b.Network().Node(s.a.Name()); return err == nil })
	}
	// a connection that came up and went down again before the fault (for reasons of its own) has
	// already told the observers so - rightly; what the fault does afterwards is another case
	if ups, downs := witness.counts(bname); fault != 4 && fault != 5 && (downs > 0 || ups > 1) {
		t.Skipf("inconclusive: the connection to B was established %d times and lost %d times before the fault", ups, downs)
	}
	// the fault
	var trafficBefore uint64
	reasonOK := []error{gen.ErrNoConnection}
	switch fault {
	case 0:
		if rn, err := s.a.Network().Node(bname); err == nil {
			rn.Disconnect()
		}
	case 1:
		if rn, err := b.Network().Node(s.a.Name()); err == nil {
			rn.Disconnect()
		}
	case 2:
		bStopped = true
		b.Stop()
		reasonOK = append(reasonOK, gen.TerminateReasonShutdown, gen.ErrUnregistered)
	case 3:
		bStopped = true
		b.StopForce()
		reasonOK = append(reasonOK, gen.TerminateReasonKill)
	case 4, 5:
		if px.CutAtB.Load() == 0 {
			px.CutAll() // the armed point lies beyond the transcript: cut now
		}
	case 6:
		// (traffic counters of the connection as it is now: a connection that is replaced by a new
		// one - lost and re-established for reasons of its own - starts counting from zero)
		if rn, err := s.a.Network().Node(bname); err == nil {
			i := rn.Info()
			trafficBefore = i.MessagesIn + i.MessagesOut
		}
		b.Send(tgt.pid, kit.Stop{Reason: errors.New("remote-custom-reason")})
		reasonOK = nil
	}
	// wait for A to notice (state-based): the connection to B is gone, or for fault 6 the target is gone
	if fault == 6 {
		kit.WaitUntil(10*time.Second, func() bool { return probe.Terminated("tgt", tgt.pid) })
	} else {
		noticed := kit.WaitUntil(10*time.Second, func() bool {
			_, err := s.a.Network().Node(bname)
			return err != nil
		})
		if !noticed && (fault == 4 || fault == 5) {
			// a cut link is re-dialled by the side that opened it; when that happens before the
			// other side has given the connection up, the connection survives the cut on both
			// sides - then nothing was lost and nothing has to be reported
			if _, err := b.Network().Node(s.a.Name()); err == nil {
				t.Skip("the connection survived the cut (link re-dialled): nothing to detect")
			}
		}
	}
	for _, o := range observers {
		p := o.pid
		kit.WaitUntil(5*time.Second, func() bool { return kit.Quiesced(s.a, p) })
	}
	// notifications are routed asynchronously by the connection's workers: allow them to land
	// (returns at once when they have; the long limit only matters on a very busy machine)
	kit.WaitUntil(12*time.Second, func() bool {
		mu.Lock()
		defer mu.Unlock()
		for _, first := range observers {
			for _, o := range append([]*obs{first}, first.more...) {
				if o.err == nil && len(o.notes) == 0 && !(fault == 6 && (o.kind == 4)) {
					return false
				}
			}
		}
		return true
	})
	time.Sleep(5 * time.Millisecond)

	mu.Lock()
	defer mu.Unlock()
	var problems []string
	type rel struct {
		i int
		o *obs
	}
	var rels []rel
	for i, o := range observers {
		rels = append(rels, rel{i, o})
		for _, m := range o.more {
			rels = append(rels, rel{i, m})
		}
	}
	for _, r := range rels {
		i, o := r.i, r.o
		what := fmt.Sprintf("observer %d (%s on identity kind %d, %d relations in that process)", i, map[bool]string{true: "monitor", false: "link"}[o.monitor], o.kind, 1+len(observers[i].more))
		for _, n := range o.notes {
			if strings.HasPrefix(n, "FOREIGN") {
				problems = append(problems, fmt.Sprintf("%s received a notification for something else: %s", what, n))
			}
		}
		if o.err != nil {
			if len(o.notes) != 0 {
				problems = append(problems, fmt.Sprintf("%s: request failed (%v) but it was notified %v", what, o.err, o.notes))
			}
			continue
		}
		expect := 1
		if fault == 6 && o.kind == 4 {
			expect = 0 // the node is still connected
			rn, err := s.a.Network().Node(bname)
			if err != nil {
				continue // unless the connection did go down for a reason of its own (not part of this case)
			}
			if i := rn.Info(); i.MessagesIn+i.MessagesOut < trafficBefore {
				continue // ... and has been re-established since
			}
			if _, downs := witness.counts(bname); downs > 0 {
				continue // (the node's own record of it)
			}
		}
		if len(o.reasons) != expect {
			problems = append(problems, fmt.Sprintf("%s: request succeeded, fault %d: received %d notifications %v, want %d", what, fault, len(o.reasons), o.notes, expect))
			continue
		}
		if expect == 1 {
			r := o.reasons[0]
			ok := false
			if fault == 6 {
				ok = r != nil && r.Error() == "remote-custom-reason"
			} else {
				for _, w := range reasonOK {
					if errors.Is(r, w) || (r != nil && r.Error() == w.Error()) {
						ok = true
					}
				}
			}
			if !ok {
				problems = append(problems, fmt.Sprintf("%s: notified with reason %q (fault %d)", what, r, fault))
			}
		}
	}
	if withCall {
		select {
		case d := <-callReturned:
			if callErr == nil {
				problems = append(problems, "a call that is never answered returned without an error")
			}
			if d > 2500*time.Millisecond {
				problems = append(problems, fmt.Sprintf("pending call returned only after %v (timeout 1 s)", d))
			}
		case <-time.After(4 * time.Second):
			problems = append(problems, "pending call did not return within timeout + 3 s")
		}
	}
	if len(problems) > 0 {
		t.Fatalf("%s\nfault=%d cut_at=%d bytes_after_requests=%d", strings.Join(problems, "\n"), fault, px.CutAtB.Load(), bytesAfterRequests)
	}
	inside := (fault == 4 || fault == 5) && px.CutAtB.Load() > 0 && px.CutAtB.Load() < bytesAfterRequests+1
	var desc []string
	for _, o := range observers {
		desc = append(desc, fmt.Sprintf("m%vk%d:%v", o.monitor, o.kind, o.err == nil))
	}
	recFail.Case(inside || withCall, fmt.Sprintf("fault=%d cut=%d obs=%v call=%v", fault, px.CutAtB.Load(), desc, withCall), fmt.Sprintf("fault=%d", fault), fmt.Sprintf("cut-inside=%v", inside))
}

func TestFaults(t *testing.T) {
	rapid.Check(t, propFaults)
}
