package c14

import (
	"errors"
	"fmt"
	"strings"
	"sync"
	"testing"
	"time"

	"ergo.services/ergo/gen"
	"pgregory.net/rapid"

	"verif/harness/kit"
	"verif/harness/kit/netkit"
)

// "When the connection to a node is lost ... every local process holding a link or monitor on
// anything there ... receives exactly one exit or down notification" - also when the
// connection is lost because the observers' *own* node stops its network stack (the node and
// its processes keep running), or the peer stops only its network stack.
var recLocalStop = kit.NewRecorder("C14", "network-stop",
	"two fresh nodes A and B, connected; 1-3 observer processes on A each hold 1-3 links or monitors on a B process's pid, registered name, alias, event, or on node B; then A stops its network stack (gen.Node.NetworkStop; A itself keeps running), or B stops its network stack; "+
		"oracle: every observer receives exactly one exit/down notification per relation, naming the target, with the 'no connection' reason; afterwards the relation is gone (the same request can be made again once the nodes are reconnected is not required - only that nothing fires twice); "+
		"non-trivial = the observers' own node stopped its network stack; distinct by script")

func TestNetworkStop(t *testing.T) {
	rapid.Check(t, func(t *rapid.T) {
		hub := netkit.NewHub()
		a, err := netkit.StartNetNode(hub, netkit.NetNodeName("c14na"), "cookie-c14n")
		if err != nil {
			t.Fatalf("node A: %v", err)
		}
		defer a.StopForce()
		b, err := netkit.StartNetNode(hub, netkit.NetNodeName("c14nb"), "cookie-c14n")
		if err != nil {
			t.Fatalf("node B: %v", err)
		}
		defer b.StopForce()
		probe := kit.NewProbe()
		tgt, err := populateB(b, probe, "tgt")
		if err != nil {
			t.Fatalf("populate: %v", err)
		}
		if _, err := a.Network().GetNode(b.Name()); err != nil {
			t.Fatalf("connect: %v", err)
		}
		idOf := func(kind int) any {
			switch kind {
			case 1:
				return gen.ProcessID{Name: "tgt", Node: b.Name()}
			case 2:
				return tgt.alias
			case 3:
				return gen.Event{Name: "tev", Node: b.Name()}
			case 4:
				return b.Name()
			}
			return tgt.pid
		}
		type rel struct {
			kind    int
			monitor bool
			err     error
			notes   []string
			reasons []error
		}
		nobs := rapid.IntRange(1, 3).Draw(t, "observers")
		var mu sync.Mutex
		rels := make([][]*rel, nobs)
		pids := make([]gen.PID, nobs)
		spawner, err := a.Spawn(kit.Factory(&kit.ActorConfig{Label: "spawner", Probe: probe, Quiet: true}), gen.ProcessOptions{})
		if err != nil {
			t.Fatalf("spawner: %v", err)
		}
		for i := range rels {
			i := i
			monitor := rapid.Bool().Draw(t, "monitor")
			used := map[int]bool{}
			for n := rapid.IntRange(1, 3).Draw(t, "relations"); n > 0; n-- {
				k := rapid.IntRange(0, 4).Draw(t, "identity")
				if !used[k] {
					used[k] = true
					rels[i] = append(rels[i], &rel{kind: k, monitor: monitor})
				}
			}
			cfg := &kit.ActorConfig{Label: fmt.Sprintf("obs%d", i), Probe: probe, Trap: true, Quiet: true,
				OnMessage: func(x *kit.Actor, from gen.PID, msg any) (bool, error) {
					var k string
					var reason error
					switch m := msg.(type) {
					case gen.MessageExitPID:
						k, reason = fmt.Sprintf("%v", m.PID), m.Reason
					case gen.MessageDownPID:
						k, reason = fmt.Sprintf("%v", m.PID), m.Reason
					case gen.MessageExitProcessID:
						k, reason = fmt.Sprintf("%v", m.ProcessID), m.Reason
					case gen.MessageDownProcessID:
						k, reason = fmt.Sprintf("%v", m.ProcessID), m.Reason
					case gen.MessageExitAlias:
						k, reason = fmt.Sprintf("%v", m.Alias), m.Reason
					case gen.MessageDownAlias:
						k, reason = fmt.Sprintf("%v", m.Alias), m.Reason
					case gen.MessageExitEvent:
						k, reason = fmt.Sprintf("%v", m.Event), m.Reason
					case gen.MessageDownEvent:
						k, reason = fmt.Sprintf("%v", m.Event), m.Reason
					case gen.MessageExitNode:
						k, reason = fmt.Sprintf("%v", m.Name), gen.ErrNoConnection
					case gen.MessageDownNode:
						k, reason = fmt.Sprintf("%v", m.Name), gen.ErrNoConnection
					default:
						return true, nil
					}
					mu.Lock()
					for _, r := range rels[i] {
						if k == fmt.Sprintf("%v", idOf(r.kind)) {
							r.notes = append(r.notes, fmt.Sprintf("%T", msg))
							r.reasons = append(r.reasons, reason)
						}
					}
					mu.Unlock()
					return true, nil
				}}
			var serr error
			// (spawned by a process: an exit signal sent by the node core to a top-level process
			// would count as coming from its parent)
			if e := kit.InProc(a, spawner, func(x *kit.Actor) { pids[i], serr = x.Spawn(kit.Factory(cfg), gen.ProcessOptions{}) }); e != nil || serr != nil {
				t.Fatalf("spawn observer: %v %v", e, serr)
			}
		}
		var desc []string
		for i := range rels {
			for _, r := range rels[i] {
				r := r
				id := idOf(r.kind)
				if e := kit.InProc(a, pids[i], func(x *kit.Actor) {
					switch v := id.(type) {
					case gen.Event:
						if r.monitor {
							_, r.err = x.MonitorEvent(v)
						} else {
							_, r.err = x.LinkEvent(v)
						}
					case gen.Atom:
						if r.monitor {
							r.err = x.MonitorNode(v)
						} else {
							r.err = x.LinkNode(v)
						}
					default:
						if r.monitor {
							r.err = x.Monitor(id)
						} else {
							r.err = x.Link(id)
						}
					}
				}); e != nil {
					t.Fatalf("request: %v", e)
				}
				if r.err != nil {
					t.Fatalf("observer %d: request (monitor=%v) on identity kind %d of a live, connected target failed: %v", i, r.monitor, r.kind, r.err)
				}
				desc = append(desc, fmt.Sprintf("o%d:k%dm%v", i, r.kind, r.monitor))
			}
		}
		// B registers an accepted connection a moment after the handshake; a stop that races with
		// that would miss the connection (inside one OS process the socket then stays open)
		kit.WaitUntil(3*time.Second, func() bool { _, err := b.Network().Node(a.Name()); return err == nil })
		local := rapid.Bool().Draw(t, "own_network_stack")
		var serr error
		if local {
			serr = a.NetworkStop()
		} else {
			serr = b.NetworkStop()
		}
		if serr != nil {
			t.Fatalf("NetworkStop: %v", serr)
		}
		all := func(f func(r *rel) bool) bool {
			mu.Lock()
			defer mu.Unlock()
			for i := range rels {
				for _, r := range rels[i] {
					if !f(r) {
						return false
					}
				}
			}
			return true
		}
		kit.WaitUntil(8*time.Second, func() bool { return all(func(r *rel) bool { return len(r.notes) >= 1 }) })
		time.Sleep(10 * time.Millisecond)
		mu.Lock()
		defer mu.Unlock()
		var problems []string
		for i := range rels {
			for _, r := range rels[i] {
				what := fmt.Sprintf("observer %d (%s on identity kind %d)", i, map[bool]string{true: "monitor", false: "link"}[r.monitor], r.kind)
				if len(r.notes) != 1 {
					problems = append(problems, fmt.Sprintf("%s received %d notifications %v, want 1", what, len(r.notes), r.notes))
					continue
				}
				if rs := r.reasons[0]; rs == nil || !(errors.Is(rs, gen.ErrNoConnection) || rs.Error() == gen.ErrNoConnection.Error()) {
					problems = append(problems, fmt.Sprintf("%s was told reason %v, want 'no connection'", what, rs))
				}
			}
		}
		if len(problems) > 0 {
			t.Fatalf("%s\nnetwork stack stopped on the observers' own node: %v || %s", strings.Join(problems, "\n"), local, strings.Join(desc, " "))
		}
		recLocalStop.Case(local, fmt.Sprintf("local=%v %s", local, strings.Join(desc, " ")), fmt.Sprintf("local=%v", local))
	})
}
