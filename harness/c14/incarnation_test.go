package c14

import (
	"errors"
	"fmt"
	"strings"
	"testing"
	"time"

	"ergo.services/ergo/gen"
	"pgregory.net/rapid"

	"verif/harness/kit"
	"verif/harness/kit/netkit"
)

var recInc = kit.NewRecorder("C14", "incarnations",
	"node B is started, populated (the same processes in the same order every time, so process ids repeat), contacted by a process on A, stopped (forced or graceful) and started again under the same name in a later second and populated again; then a generated list of 2-8 operations from A uses identifiers of the OLD incarnation (Send / Call / Link / Monitor by old pid and old alias, SendResponse to the old pid) mixed with the same operations on the NEW identifiers; "+
		"oracle: every operation on an old identifier returns the incarnation error and nothing of it is handled by any process of the new incarnation; the operations on new identifiers succeed and are handled by the new processes; "+
		"non-trivial = the old and new target have the same process id (the only thing telling them apart is the incarnation); distinct by script")

func propIncarnation(t *rapid.T) {
	s, err := nodeA()
	if err != nil {
		t.Fatalf("node A: %v", err)
	}
	force := rapid.Bool().Draw(t, "force_stop")
	contactBefore := rapid.Bool().Draw(t, "contact_before_restart")
	type op struct{ kind, old int }
	n := rapid.IntRange(2, 8).Draw(t, "ops")
	var ops []op
	for i := 0; i < n; i++ {
		ops = append(ops, op{rapid.IntRange(0, 10).Draw(t, "op"), rapid.IntRange(0, 2).Draw(t, "old")})
	}
	bname := netkit.NetNodeName("c14i")
	b1, err := startB(s.hub, bname)
	if err != nil {
		t.Fatalf("B1: %v", err)
	}
	probe1 := kit.NewProbe()
	old, err := populateB(b1, probe1, "tgt-old")
	if err != nil {
		b1.StopForce()
		t.Fatalf("populate: %v", err)
	}
	probe := kit.NewProbe()
	actor, err := s.a.Spawn(kit.Factory(&kit.ActorConfig{Label: "actor", Probe: probe, Quiet: true, Trap: true}), gen.ProcessOptions{})
	if err != nil {
		t.Fatalf("spawn: %v", err)
	}
	defer s.a.Kill(actor)
	if contactBefore {
		var cerr error
		kit.InProc(s.a, actor, func(a *kit.Actor) { _, cerr = a.CallWithTimeout(old.pid, "ping", 2) })
		if cerr != nil {
			b1.StopForce()
			t.Fatalf("call to the first incarnation failed: %v", cerr)
		}
	}
	if force {
		b1.StopForce()
	} else {
		b1.Stop()
	}
	// a later second
	time.Sleep(time.Until(time.Unix(old.pid.Creation+1, 0).Add(20 * time.Millisecond)))
	kit.WaitUntil(5*time.Second, func() bool { _, err := s.a.Network().Node(bname); return err != nil })
	var b2 gen.Node
	for attempt := 0; attempt < 20; attempt++ {
		b2, err = startB(s.hub, bname)
		if err == nil {
			break
		}
		time.Sleep(50 * time.Millisecond)
	}
	if err != nil {
		t.Skip("cannot restart B: " + err.Error())
	}
	defer b2.StopForce()
	probe2 := kit.NewProbe()
	neu, err := populateB(b2, probe2, "tgt-new")
	if err != nil {
		t.Fatalf("populate 2: %v", err)
	}
	if neu.pid.Creation == old.pid.Creation {
		t.Skip("same incarnation second (inconclusive)")
	}
	var problems []string
	oldOps, newOKs := 0, 0
	for i, o := range ops {
		tg := neu
		isOld := o.old != 0
		if isOld {
			tg = old
			oldOps++
		}
		marker := fmt.Sprintf("op-%d", i)
		var rerr error
		e := kit.InProc(s.a, actor, func(a *kit.Actor) {
			switch o.kind {
			case 0:
				rerr = a.Send(tg.pid, marker)
			case 1:
				_, rerr = a.CallWithTimeout(tg.pid, marker, 2)
			case 2:
				rerr = a.Link(tg.pid)
				if rerr == nil {
					a.Unlink(tg.pid)
				}
			case 3:
				rerr = a.Monitor(tg.pid)
				if rerr == nil {
					a.Demonitor(tg.pid)
				}
			case 4:
				rerr = a.Send(tg.alias, marker)
			case 5:
				_, rerr = a.CallWithTimeout(tg.alias, marker, 2)
			case 6:
				rerr = a.Link(tg.alias)
				if rerr == nil {
					a.Unlink(tg.alias)
				}
			case 7:
				rerr = a.SendResponse(tg.pid, gen.Ref{Node: bname, Creation: tg.pid.Creation, ID: [3]uint64{1, 2, 3}}, marker)
			case 8:
				rerr = a.SendImportant(tg.pid, marker)
			case 9:
				if isOld {
					// an exit signal for a process of the previous incarnation must not reach the
					// process that happens to have the same id now
					rerr = a.SendExit(tg.pid, errors.New("exit meant for the old incarnation"))
				} else {
					rerr = a.Send(tg.pid, marker)
				}
			case 10:
				rerr = a.Monitor(tg.alias)
				if rerr == nil {
					a.Demonitor(tg.alias)
				}
			}
		})
		if e != nil {
			rerr = e
		}
		what := fmt.Sprintf("op %d (kind %d, %s identifier)", i, o.kind, map[bool]string{true: "OLD", false: "new"}[isOld])
		if isOld {
			if !errors.Is(rerr, gen.ErrProcessIncarnation) {
				problems = append(problems, fmt.Sprintf("%s returned %v instead of the incarnation error", what, rerr))
			}
		} else if rerr != nil && !(o.kind == 7 && errors.Is(rerr, gen.ErrResponseIgnored)) {
			problems = append(problems, fmt.Sprintf("%s failed: %v", what, rerr))
		} else {
			newOKs++
		}
	}
	time.Sleep(20 * time.Millisecond)
	// nothing addressed to the old incarnation may have been handled by the new one
	for _, ev := range probe2.Events() {
		if m, ok := ev.Msg.(string); ok && strings.HasPrefix(m, "op-") {
			var i int
			fmt.Sscanf(m, "op-%d", &i)
			if ops[i].old != 0 {
				problems = append(problems, fmt.Sprintf("op %d addressed to the OLD incarnation was handled by %s of the new incarnation", i, ev.Proc))
			}
		}
	}
	if _, err := b2.ProcessInfo(neu.pid); err != nil {
		problems = append(problems, fmt.Sprintf("the process of the new incarnation is gone (%v) although nothing was addressed to it that terminates it", err))
	}
	if len(problems) > 0 {
		t.Fatalf("%s\nold=%v new=%v", strings.Join(problems, "\n"), old.pid, neu.pid)
	}
	recInc.Case(old.pid.ID == neu.pid.ID && oldOps > 0, fmt.Sprintf("force=%v contact=%v ops=%v", force, contactBefore, ops), fmt.Sprintf("sameid=%v", old.pid.ID == neu.pid.ID))
}

func TestIncarnation(t *testing.T) {
	rapid.Check(t, propIncarnation)
}
