package c03

import (
	"fmt"
	"strconv"
	"strings"
	"sync"
	"testing"
	"time"

	"ergo.services/ergo/act"
	"ergo.services/ergo/gen"
	"pgregory.net/rapid"

	"verif/harness/kit"
)

// classes
const (
	cUrgent = 0
	cSystem = 1
	cMain   = 2
	cLog    = 3
)

// enqueue kinds
const (
	kMsg     = iota // message with priority (class by priority), addressing mode
	kReq            // request with priority
	kExit           // trapped exit signal (urgent)       - actor only
	kInspect        // inspect request (urgent)
	kDown           // down notification (system)
	kLog            // log record (log)                    - actor only
)

type op struct {
	ID     int
	Kind   int
	Class  int
	Mode   int // addressing 0 pid 1 name 2 alias
	Via    int // messages: 0 node API, 1 a sender process, 2 a sender process right after failed priority sends
	Park   bool
	Inject []op
}

func prioOf(class int) gen.MessagePriority {
	switch class {
	case cUrgent:
		return gen.MessagePriorityMax
	case cSystem:
		return gen.MessagePriorityHigh
	}
	return gen.MessagePriorityNormal
}

var recSeq = kit.NewRecorder("C03", "sequential",
	"receiver kind in {actor, supervisor, pool, web worker} (actor and web worker also with a bounded mailbox of 2-3 items per class) parked in a handler while a generated script of <= 40 items is enqueued one by one (messages and requests of Normal/High/Max priority by pid/name/alias, trapped exit signals, inspect requests, down notifications of killed monitored helpers, log records); up to 3 items park the receiver again while draining and inject more items of generated classes; "+
		"oracle: reference model = four FIFOs drained Urgent>System>Main>Log one item at a time; the handled sequence must equal the model's exactly; "+
		"non-trivial = >= 2 classes non-empty at once and >= 2 items in one class; distinct by script")

type env struct {
	t      *rapid.T
	node   gen.Node
	probe  *kit.Probe
	kind   int // 0 actor 1 supervisor 2 pool 3 web worker
	pid    gen.PID
	alias  gen.Alias
	name   gen.Atom
	sender gen.PID // process used for exit signals
	limit  int64   // mailbox size of the receiver (0: unbounded); every queue holds that many items
	// helpers
	helperOf map[gen.PID]int
	entered  map[int]chan struct{}
	release  map[int]chan struct{}
	wg       sync.WaitGroup
}

func (e *env) mailboxTotal() int64 {
	info, err := e.node.ProcessInfo(e.pid)
	if err != nil {
		return -1
	}
	q := info.MailboxQueues
	return q.Main + q.System + q.Urgent + q.Log
}

// enqueue performs one op and waits until it is visible in the receiver's mailbox. It reports
// whether the item was accepted (a bounded mailbox refuses what its class's queue cannot hold).
func (e *env) enqueue(o op, expectTotal int64) bool {
	var to any = e.pid
	switch o.Mode {
	case 1:
		to = e.name
	case 2:
		if e.kind == 0 || e.kind == 3 {
			to = e.alias
		}
	}
	var asyncCaller gen.PID
	payload := kit.Numbered{ID: o.ID}
	if o.Park {
		payload.Entered = e.entered[o.ID]
		payload.Release = e.release[o.ID]
	}
	switch o.Kind {
	case kMsg:
		if o.Via == 0 {
			if err := e.node.SendWithPriority(to, payload, prioOf(o.Class)); err != nil {
				if e.limit > 0 && err == gen.ErrProcessMailboxFull {
					return false
				}
				e.t.Fatalf("send %d: %v", o.ID, err)
			}
			break
		}
		// from a process: a plain Send for the normal class (it relies on the sender's own
		// default priority), optionally after a priority send of that process that failed
		var serr error
		if err := kit.InProc(e.node, e.sender, func(a *kit.Actor) {
			if o.Via == 2 {
				a.SendWithPriority(gen.Atom("nobody-by-that-name"), "noise", gen.MessagePriorityMax)
				a.SendWithPriority(gen.PID{Node: a.Node().Name(), ID: 1, Creation: 1}, "noise", gen.MessagePriorityHigh)
			}
			if o.Class == cMain {
				serr = a.Send(to, payload)
			} else {
				serr = a.SendWithPriority(to, payload, prioOf(o.Class))
			}
		}); err != nil || serr != nil {
			if err == nil && e.limit > 0 && serr == gen.ErrProcessMailboxFull {
				return false
			}
			e.t.Fatalf("send %d from a process: %v %v", o.ID, err, serr)
		}
	case kReq:
		caller, err := e.node.Spawn(kit.Factory(&kit.ActorConfig{Label: "caller", Probe: e.probe, Quiet: true}), gen.ProcessOptions{})
		if err != nil {
			e.t.Fatalf("spawn caller: %v", err)
		}
		asyncCaller = caller
		e.wg.Add(1)
		go func() {
			defer e.wg.Done()
			kit.InProc(e.node, caller, func(a *kit.Actor) {
				a.CallWithPriority(to, payload, prioOf(o.Class))
			})
		}()
	case kExit:
		var xerr error
		if err := kit.InProc(e.node, e.sender, func(a *kit.Actor) {
			xerr = a.SendExit(e.pid, fmt.Errorf("exit-%d", o.ID))
		}); err != nil || xerr != nil {
			e.t.Fatalf("exit %d: %v %v", o.ID, err, xerr)
		}
	case kInspect:
		caller, err := e.node.Spawn(kit.Factory(&kit.ActorConfig{Label: "inspector", Probe: e.probe, Quiet: true}), gen.ProcessOptions{})
		if err != nil {
			e.t.Fatalf("spawn inspector: %v", err)
		}
		asyncCaller = caller
		e.wg.Add(1)
		go func() {
			defer e.wg.Done()
			kit.InProc(e.node, caller, func(a *kit.Actor) {
				a.Inspect(e.pid, strconv.Itoa(o.ID))
			})
		}()
	case kDown:
		var h gen.PID
		for p, id := range e.helperOf {
			if id == o.ID {
				h = p
			}
		}
		if err := e.node.Kill(h); err != nil {
			e.t.Fatalf("kill helper: %v", err)
		}
		// a helper that is still busy terminates in its own goroutine; the down notification is
		// in the receiver's mailbox for certain once the helper's terminate callback has run
		// (the queue length alone is incremented before the item is linked)
		if !kit.WaitUntil(5*time.Second, func() bool { return e.probe.Terminated("helper", h) }) {
			e.t.Fatalf("helper of item %d did not terminate", o.ID)
		}
	case kLog:
		e.node.Log().Error("verif-log %d", o.ID)
	}
	if asyncCaller != (gen.PID{}) {
		// the queue length is incremented before the item is linked, so it is not a
		// linearization point; the caller entering "wait response" is (it follows the push)
		if !kit.WaitUntil(3*time.Second, func() bool {
			st, err := e.node.ProcessState(asyncCaller)
			return err == nil && st == gen.ProcessStateWaitResponse
		}) {
			e.t.Fatalf("caller of item %d never started waiting", o.ID)
		}
	}
	if !kit.WaitUntil(3*time.Second, func() bool { return e.mailboxTotal() >= expectTotal }) {
		e.t.Fatalf("item %d (kind %d class %d) did not show up in the mailbox (total %d, expected %d)", o.ID, o.Kind, o.Class, e.mailboxTotal(), expectTotal)
	}
	return true
}

func genOps(t *rapid.T, kind int, n int, nextID *int, allowPark bool, parks *int) []op {
	var ops []op
	for i := 0; i < n; i++ {
		o := op{ID: *nextID}
		*nextID++
		// pick a kind admissible for the receiver kind
		var kinds []int
		switch kind {
		case 10, 13:
			// bounded mailbox (actor / web worker): plain messages of all classes; a refused one is
			// simply not there, an accepted one is in the queue of its class
			kinds = []int{kMsg}
		case 0:
			kinds = []int{kMsg, kMsg, kMsg, kReq, kExit, kInspect, kDown, kLog}
		case 1:
			kinds = []int{kMsg, kMsg, kMsg, kReq, kInspect, kDown}
		case 2:
			kinds = []int{kMsg, kMsg, kReq, kInspect, kDown}
		case 3:
			// (a web worker does not trap exit signals and refuses to be a logger)
			kinds = []int{kMsg, kMsg, kMsg, kReq, kInspect, kDown}
		}
		o.Kind = rapid.SampledFrom(kinds).Draw(t, "kind")
		switch o.Kind {
		case kMsg, kReq:
			if kind == 2 {
				o.Class = rapid.IntRange(cUrgent, cSystem).Draw(t, "class") // Normal traffic goes to the workers
			} else {
				o.Class = rapid.IntRange(cUrgent, cMain).Draw(t, "class")
			}
			o.Mode = rapid.IntRange(0, 2).Draw(t, "mode")
			if o.Kind == kMsg {
				o.Via = rapid.SampledFrom([]int{0, 0, 1, 2}).Draw(t, "via")
			}
			if allowPark && *parks < 3 && rapid.IntRange(0, 7).Draw(t, "park") == 0 {
				o.Park = true
				*parks++
			}
		case kExit, kInspect:
			o.Class = cUrgent
		case kDown:
			o.Class = cSystem
		case kLog:
			o.Class = cLog
			// a log record may park the receiver too: what arrives meanwhile must be taken
			// before the next log record
			if allowPark && *parks < 3 && rapid.IntRange(0, 3).Draw(t, "park-log") == 0 {
				o.Park = true
				*parks++
			}
		}
		ops = append(ops, o)
	}
	return ops
}

func flatten(ops []op) []op {
	var out []op
	for _, o := range ops {
		out = append(out, o)
		out = append(out, flatten(o.Inject)...)
	}
	return out
}

func describe(ops []op) string {
	var sb strings.Builder
	for _, o := range ops {
		fmt.Fprintf(&sb, "%d:k%dc%dm%dv%d", o.ID, o.Kind, o.Class, o.Mode, o.Via)
		if o.Park {
			fmt.Fprintf(&sb, "P[%s]", describe(o.Inject))
		}
		sb.WriteString(" ")
	}
	return sb.String()
}

func setup(t *rapid.T, kind int, probe *kit.Probe, all []op, limits ...int64) (*env, func()) {
	node, err := kit.StartLocalNode(func(o *gen.NodeOptions) { o.Log.Level = gen.LogLevelError })
	if err != nil {
		t.Fatalf("start node: %v", err)
	}
	e := &env{t: t, node: node, probe: probe, kind: kind, name: "recv", helperOf: map[gen.PID]int{},
		entered: map[int]chan struct{}{}, release: map[int]chan struct{}{}}
	if len(limits) > 0 {
		e.limit = limits[0]
	}
	popts := gen.ProcessOptions{MailboxSize: e.limit}
	for _, o := range all {
		if o.Park {
			e.entered[o.ID] = make(chan struct{})
			e.release[o.ID] = make(chan struct{})
		}
	}
	cleanup := func() {
		for _, ch := range e.release {
			select {
			case <-ch:
			default:
				close(ch)
			}
		}
		node.StopForce()
	}
	switch kind {
	case 0:
		e.pid, err = node.SpawnRegister("recv", kit.Factory(&kit.ActorConfig{Label: "recv", Probe: probe, Trap: true,
			OnLog: func(a *kit.Actor, m gen.MessageLog) {
				if m.Format == "verif-log %d" && len(m.Args) == 1 {
					if id, ok := m.Args[0].(int); ok {
						if ch, parked := e.entered[id]; parked {
							close(ch)
							<-e.release[id]
						}
					}
				}
			}}), popts)
	case 1:
		child := kit.Factory(&kit.ActorConfig{Label: "child", Probe: probe, Quiet: true})
		e.pid, err = node.SpawnRegister("recv", kit.SupFactory(&kit.SupConfig{Label: "recv", Probe: probe,
			Spec: func(args ...any) (act.SupervisorSpec, error) {
				return act.SupervisorSpec{Type: act.SupervisorTypeOneForOne,
					Children: []act.SupervisorChildSpec{{Name: "c1", Factory: child}}}, nil
			}}), gen.ProcessOptions{})
	case 3:
		e.pid, err = node.SpawnRegister("recv", kit.WebFactory(&kit.WebConfig{Label: "recv", Probe: probe}), popts)
	case 2:
		worker := kit.Factory(&kit.ActorConfig{Label: "worker", Probe: probe, Quiet: true})
		e.pid, err = node.SpawnRegister("recv", kit.PoolFactory(&kit.PoolConfig{Label: "recv", Probe: probe,
			Options: func(args ...any) (act.PoolOptions, error) {
				return act.PoolOptions{PoolSize: 1, WorkerFactory: worker}, nil
			}}), gen.ProcessOptions{})
	}
	if err != nil {
		cleanup()
		t.Fatalf("spawn receiver: %v", err)
	}
	e.sender, err = node.Spawn(kit.Factory(&kit.ActorConfig{Label: "sender", Probe: probe, Quiet: true}), gen.ProcessOptions{})
	if err != nil {
		cleanup()
		t.Fatalf("spawn sender: %v", err)
	}
	// helpers to be monitored
	var helpers []gen.PID
	for _, o := range all {
		if o.Kind == kDown {
			h, err := node.Spawn(kit.Factory(&kit.ActorConfig{Label: "helper", Probe: probe, Quiet: true}), gen.ProcessOptions{})
			if err != nil {
				cleanup()
				t.Fatalf("spawn helper: %v", err)
			}
			e.helperOf[h] = o.ID
			helpers = append(helpers, h)
		}
	}
	monitorAll := func(p gen.Process) {
		for _, h := range helpers {
			if err := p.MonitorPID(h); err != nil {
				panic(err)
			}
		}
	}
	done := make(chan struct{})
	switch kind {
	case 0:
		err = node.Send(e.pid, kit.Do{F: func(a *kit.Actor) { e.alias, _ = a.CreateAlias(); monitorAll(a) }, Done: done})
	case 1:
		err = node.Send(e.pid, kit.DoSup{F: func(s *kit.Sup) { monitorAll(s) }, Done: done})
	case 2:
		err = node.SendWithPriority(e.pid, kit.DoPool{F: func(p *kit.Pool) { monitorAll(p) }, Done: done}, gen.MessagePriorityHigh)
	case 3:
		err = node.Send(e.pid, kit.DoWeb{F: func(w *kit.Web) { e.alias, _ = w.CreateAlias(); monitorAll(w) }, Done: done})
	}
	if err != nil {
		cleanup()
		t.Fatalf("setup send: %v", err)
	}
	<-done
	if kind == 0 {
		if err := node.LoggerAddPID(e.pid, "plog", gen.LogLevelError); err != nil {
			cleanup()
			t.Fatalf("logger: %v", err)
		}
	}
	return e, cleanup
}

// idOf maps a recorded callback to the item id it handled (-1: not an item).
func (e *env) idOf(ev kit.Event) int {
	switch m := ev.Msg.(type) {
	case kit.Numbered:
		return m.ID
	case gen.MessageExitPID:
		if s := m.Reason.Error(); strings.HasPrefix(s, "exit-") {
			n, _ := strconv.Atoi(strings.TrimPrefix(s, "exit-"))
			return n
		}
	case []string:
		if ev.Kind == "inspect" && len(m) == 1 {
			n, err := strconv.Atoi(m[0])
			if err == nil {
				return n
			}
		}
	case gen.MessageDownPID:
		if id, ok := e.helperOf[m.PID]; ok {
			return id
		}
	case gen.MessageLog:
		if m.Format == "verif-log %d" && len(m.Args) == 1 {
			return m.Args[0].(int)
		}
	}
	return -1
}

func propSequential(t *rapid.T) {
	kind := rapid.IntRange(0, 3).Draw(t, "receiver_kind")
	nextID := 1
	parks := 0
	root := op{ID: 0, Kind: kMsg, Class: cSystem, Park: true}
	if kind != 2 {
		root.Class = cMain
	}
	// actors and web workers also with a bounded mailbox (each class's queue holds that many)
	limit := int64(0)
	gkind := kind
	if kind == 0 || kind == 3 {
		limit = rapid.SampledFrom([]int64{0, 0, 0, 2, 3}).Draw(t, "mailbox_size")
		if limit > 0 {
			gkind = kind + 10
		}
	}
	root.Inject = genOps(t, gkind, rapid.IntRange(3, 25).Draw(t, "n"), &nextID, true, &parks)
	for i := range root.Inject {
		if root.Inject[i].Park {
			root.Inject[i].Inject = genOps(t, gkind, rapid.IntRange(1, 4).Draw(t, "ninject"), &nextID, false, &parks)
		}
	}
	all := flatten([]op{root})
	probe := kit.NewProbe()
	e, cleanup := setup(t, kind, probe, all, limit)
	defer cleanup()

	// reference model
	var queues [4][]op
	var expected []int
	total := int64(0)
	multi := false
	refused := 0
	e.enqueue(root, 0)
	// root is taken immediately; wait for it to park
	var handleParked func(o op)
	handleParked = func(o op) {
		select {
		case <-e.entered[o.ID]:
		case <-time.After(1500 * time.Millisecond):
			t.Fatalf("item %d never reached its handler (expected order so far %v)", o.ID, expected)
		}
		for _, in := range o.Inject {
			if !e.enqueue(in, total+1) {
				refused++
				// (a refusal is only plausible when the queue of that class is full)
				if int64(len(queues[in.Class])) < e.limit {
					t.Fatalf("item %d (class %d) was refused with 'mailbox full' while the queue of its class held %d of %d items", in.ID, in.Class, len(queues[in.Class]), e.limit)
				}
				continue
			}
			queues[in.Class] = append(queues[in.Class], in)
			total++
		}
		nonEmpty, two := 0, false
		for _, q := range queues {
			if len(q) > 0 {
				nonEmpty++
			}
			if len(q) >= 2 {
				two = true
			}
		}
		if nonEmpty >= 2 && two {
			multi = true
		}
		close(e.release[o.ID])
	}
	expected = append(expected, 0)
	handleParked(root)
	for {
		c := -1
		for i := range queues {
			if len(queues[i]) > 0 {
				c = i
				break
			}
		}
		if c < 0 {
			break
		}
		o := queues[c][0]
		queues[c] = queues[c][1:]
		total--
		expected = append(expected, o.ID)
		if o.Park {
			handleParked(o)
		}
	}
	// wait for the drain
	want := len(expected)
	got := func() []int {
		var ids []int
		for _, ev := range probe.EventsOf("recv") {
			if id := e.idOf(ev); id >= 0 {
				ids = append(ids, id)
			}
		}
		return ids
	}
	if !kit.WaitUntil(5*time.Second, func() bool { return len(got()) >= want }) {
		if stuck, w := kit.Stuck(e.node, e.pid); stuck {
			t.Fatalf("receiver stuck: %s", w)
		}
		t.Fatalf("receiver handled %d of %d items: got %v, model %v (script %s)", len(got()), want, got(), expected, describe([]op{root}))
	}
	time.Sleep(time.Millisecond)
	g := got()
	if fmt.Sprint(g) != fmt.Sprint(expected) {
		t.Fatalf("receiver kind %d handled items in order %v, reference model says %v (script %s)", kind, g, expected, describe([]op{root}))
	}
	e.wg.Wait()
	labels := []string{fmt.Sprintf("receiver=%d", kind), fmt.Sprintf("parks=%d", parks)}
	if limit > 0 {
		labels = append(labels, "bounded-mailbox")
		if refused > 0 {
			labels = append(labels, "some-refused")
		}
	}
	recSeq.Case(multi, fmt.Sprintf("kind=%d limit=%d %s", kind, limit, describe([]op{root})), labels...)
}

func TestSequential(t *testing.T) {
	rapid.Check(t, propSequential)
}

var recConc = kit.NewRecorder("C03", "concurrent",
	"2-4 concurrent sender goroutines each enqueue 2-12 numbered messages of generated priorities and addressing modes (plus trapped exit signals) into a parked actor/supervisor/pool; "+
		"oracle: every per-(sender,class) subsequence is handled in send order and the class sequence is monotone (all Urgent before System before Main); "+
		"non-trivial = some sender has >= 2 items in one class and >= 2 classes are used; distinct by script")

func propConcurrent(t *rapid.T) {
	kind := rapid.IntRange(0, 3).Draw(t, "receiver_kind")
	ns := rapid.IntRange(2, 4).Draw(t, "senders")
	type it struct{ class, mode int }
	plans := make([][]it, ns)
	id := 1
	idClass := map[int]int{}
	idSender := map[int]int{}
	ids := make([][]int, ns)
	for s := range plans {
		n := rapid.IntRange(2, 12).Draw(t, "count")
		for j := 0; j < n; j++ {
			maxc := cMain
			if kind == 2 {
				maxc = cSystem
			}
			x := it{class: rapid.IntRange(cUrgent, maxc).Draw(t, "class"), mode: rapid.IntRange(0, 2).Draw(t, "mode")}
			plans[s] = append(plans[s], x)
			idClass[id] = x.class
			idSender[id] = s
			ids[s] = append(ids[s], id)
			id++
		}
	}
	root := op{ID: 0, Kind: kMsg, Class: cSystem, Park: true}
	if kind != 2 {
		root.Class = cMain
	}
	probe := kit.NewProbe()
	e, cleanup := setup(t, kind, probe, []op{root})
	defer cleanup()
	e.enqueue(root, 0)
	<-e.entered[0]
	var wg sync.WaitGroup
	for s := 0; s < ns; s++ {
		wg.Add(1)
		go func(s int) {
			defer wg.Done()
			for j, x := range plans[s] {
				var to any = e.pid
				if x.mode == 1 {
					to = e.name
				} else if x.mode == 2 && (kind == 0 || kind == 3) {
					to = e.alias
				}
				if err := e.node.SendWithPriority(to, kit.Numbered{ID: ids[s][j]}, prioOf(x.class)); err != nil {
					panic(err)
				}
			}
		}(s)
	}
	wg.Wait()
	close(e.release[0])
	want := id - 1
	got := func() []int {
		var out []int
		for _, ev := range probe.EventsOf("recv") {
			if i := e.idOf(ev); i > 0 {
				out = append(out, i)
			}
		}
		return out
	}
	if !kit.WaitUntil(5*time.Second, func() bool { return len(got()) >= want }) {
		t.Fatalf("receiver handled %d of %d items", len(got()), want)
	}
	g := got()
	last := map[[2]int]int{}
	maxClass := -1
	for _, i := range g {
		c, s := idClass[i], idSender[i]
		if c < maxClass {
			t.Fatalf("priority inversion: item %d of class %d handled after an item of class %d; order %v", i, c, maxClass, g)
		}
		maxClass = c
		k := [2]int{s, c}
		if i < last[k] {
			t.Fatalf("per-sender FIFO broken: sender %d class %d item %d handled after %d; order %v", s, c, i, last[k], g)
		}
		last[k] = i
	}
	classes := map[int]bool{}
	two := false
	cnt := map[[2]int]int{}
	for i, c := range idClass {
		classes[c] = true
		cnt[[2]int{idSender[i], c}]++
		if cnt[[2]int{idSender[i], c}] >= 2 {
			two = true
		}
	}
	recConc.Case(two && len(classes) >= 2, fmt.Sprintf("kind=%d plans=%v", kind, plans), fmt.Sprintf("receiver=%d", kind))
}

func TestConcurrent(t *testing.T) {
	rapid.Check(t, propConcurrent)
}
