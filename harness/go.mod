module verif/harness

go 1.23

toolchain go1.23.5

require (
	ergo.services/ergo v0.0.0
	pgregory.net/rapid v1.3.0
)

replace ergo.services/ergo => /repo
