package c18

import (
	"testing"

	"pgregory.net/rapid"

	"verif/harness/kit"
	"verif/harness/racelab"
)

// A subscription (LinkEvent / MonitorEvent) racing with the end of the event - its owner is
// killed, stops, or unregisters it: "each subscriber gets one exit or down notification"
// holds for a subscriber whose request succeeded at the last moment as well. The yield
// points are the calls into an injected wrapping gen.TargetManager (see racelab).
var recSubRace = kit.NewRecorder("C18", "subscribe-race",
	"1-2 LinkEvent / MonitorEvent requests on an event race with Kill of its owner, a stop message to the owner, or UnregisterEvent; the interleaving of the relation inserts with the drain of the event's subscribers is drawn by rapid at the boundary of an injected wrapping gen.TargetManager; "+
		"oracle: every request either failed, or returned nil and the subscriber received exactly one exit/down notification naming the event - never nil-and-silence, never two; "+
		"non-trivial = an insert and a drain were parked at the same moment; distinct by trace")

func TestSubscribeRace(t *testing.T) {
	rapid.Check(t, func(t *rapid.T) { racelab.Prop(t, true, 3, recSubRace) })
}
