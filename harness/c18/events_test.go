package c18

import (
	"errors"
	"fmt"
	"strings"
	"sync"
	"sync/atomic"
	"testing"
	"time"

	"ergo.services/ergo/gen"
	"ergo.services/ergo/net/edf"
	"ergo.services/ergo/net/handshake"
	"pgregory.net/rapid"

	"verif/harness/kit"
	"verif/harness/kit/netkit"
)

func TestMain(m *testing.M) { kit.Main(m) }

// Pub is the published payload: a globally unique sequence number.
type Pub struct {
	Seq int
}

func (p Pub) S() int { return p.Seq }

func init() {
	if err := edf.RegisterTypeOf(Pub{}); err != nil && err != gen.ErrTaken {
		panic(err)
	}
}

// onePoolLink makes connections consist of a single TCP link: with a pool, messages sent
// while further links are still being dialled can overtake each other (open finding of C13,
// link-selection-changes-when-the-pool-changes-mid-stream); event order across nodes is
// checked here on a stable connection.
func onePoolLink(o *gen.NodeOptions) {
	o.Network.Handshake = handshake.Create(handshake.Options{PoolSize: 1})
}

var errCrash = errors.New("producer crash")

// open finding: the node that owns an event is not told when a subscriber on another
// node terminates (or its node goes down), so the subscriber count behind the
// start/stop notifications stays too high
const sigRemoteLoss = "remote-subscriber-termination-is-not-counted"

type proc struct {
	label string
	node  gen.Node
	pid   gen.PID
	alive bool
}

type evModel struct {
	name       gen.Atom
	registered bool
	owner      int
	token      gen.Ref
	old        []gen.Ref
	buf        int
	notify     bool
	hist       []int
	subs       map[int]string // consumer index -> "link" | "mon"
}

type note struct {
	what     string
	optional bool
	step     int // optional notes of one step (one consumer's death ends several subscriptions) come in any order
}

type world struct {
	t         *rapid.T
	a, b      gen.Node
	probe     *kit.Probe
	producers []*proc
	consumers []*proc
	events    []*evModel
	expCons   [][][]string // per consumer: groups of observations; the order inside one group (one step) is free
	step      int
	stepOf    [][]int
	expProd   [][]note
	seq       int
	trace     []string
	// evidence
	subBetweenPubs bool
	maxSubs        int
}

func (w *world) logf(f string, a ...any) { w.trace = append(w.trace, fmt.Sprintf(f, a...)) }

func (w *world) fatalf(f string, a ...any) {
	w.t.Helper()
	w.t.Fatalf("%s\n  history: %s", fmt.Sprintf(f, a...), strings.Join(w.trace, "; "))
}

func reasonText(err error) string {
	if err == nil {
		return "<nil>"
	}
	return err.Error()
}

// got renders what a consumer received so far.
func (w *world) gotCons(i int) []string {
	var out []string
	for _, e := range w.probe.EventsOf(w.consumers[i].label) {
		switch m := e.Msg.(type) {
		case gen.MessageEvent:
			if e.Kind == "event" {
				if p, ok := m.Message.(Pub); ok {
					out = append(out, fmt.Sprintf("ev:%s:%d", m.Event.Name, p.Seq))
				} else {
					out = append(out, fmt.Sprintf("ev:%s:%#v", m.Event.Name, m.Message))
				}
			}
		case gen.MessageExitEvent:
			out = append(out, fmt.Sprintf("exit:%s:%s", m.Event.Name, reasonText(m.Reason)))
		case gen.MessageDownEvent:
			out = append(out, fmt.Sprintf("down:%s:%s", m.Event.Name, reasonText(m.Reason)))
		}
	}
	return out
}

func (w *world) gotProd(i int) []string {
	var out []string
	for _, e := range w.probe.EventsOf(w.producers[i].label) {
		switch m := e.Msg.(type) {
		case gen.MessageEventStart:
			out = append(out, "start:"+string(m.Name))
		case gen.MessageEventStop:
			out = append(out, "stop:"+string(m.Name))
		}
	}
	return out
}

// matchGroups reports whether got equals the groups in order, with any order inside a group;
// final=false accepts a prefix.
func matchGroups(got []string, groups [][]string, final bool) bool {
	i := 0
	for _, g := range groups {
		need := map[string]int{}
		for _, x := range g {
			need[x]++
		}
		for n := 0; n < len(g); n++ {
			if i == len(got) {
				return !final
			}
			if need[got[i]] == 0 {
				return false
			}
			need[got[i]]--
			i++
		}
	}
	return i == len(got)
}

// expect appends an expected observation of consumer c to the group of the current step.
func (w *world) expect(c int, what string) {
	n := len(w.expCons[c])
	if n > 0 && w.stepOf[c][n-1] == w.step {
		w.expCons[c][n-1] = append(w.expCons[c][n-1], what)
		return
	}
	w.expCons[c] = append(w.expCons[c], []string{what})
	w.stepOf[c] = append(w.stepOf[c], w.step)
}

// matchNotes reports whether got can be obtained from exp by deleting optional entries;
// complete=false accepts a prefix of such a sequence.
func matchNotes(got []string, exp []note, complete bool) bool {
	// two optional notes of the same step may arrive in either order
	for j := 0; j+1 < len(exp); j++ {
		if exp[j].optional && exp[j+1].optional && exp[j].step == exp[j+1].step && exp[j].what != exp[j+1].what {
			swapped := append([]note{}, exp...)
			swapped[j], swapped[j+1] = swapped[j+1], swapped[j]
			// (try the swapped order for this pair, keeping the rest as it is; pairs further right
			// are handled by the recursive calls)
			if matchNotesFrom(got, swapped, complete, j+2) {
				return true
			}
		}
	}
	return matchNotesFrom(got, exp, complete, len(exp))
}

// matchNotesFrom: as matchNotes, considering swaps only for pairs starting at index >= from.
func matchNotesFrom(got []string, exp []note, complete bool, from int) bool {
	for j := from; j+1 < len(exp); j++ {
		if exp[j].optional && exp[j+1].optional && exp[j].step == exp[j+1].step && exp[j].what != exp[j+1].what {
			swapped := append([]note{}, exp...)
			swapped[j], swapped[j+1] = swapped[j+1], swapped[j]
			if matchNotesFrom(got, swapped, complete, j+2) {
				return true
			}
		}
	}
	var rec func(i, j int) bool
	rec = func(i, j int) bool {
		if i == len(got) {
			if !complete {
				return true
			}
			for ; j < len(exp); j++ {
				if !exp[j].optional {
					return false
				}
			}
			return true
		}
		if j == len(exp) {
			return false
		}
		if exp[j].what == got[i] && rec(i+1, j+1) {
			return true
		}
		if exp[j].optional {
			return rec(i, j+1)
		}
		return false
	}
	return rec(0, 0)
}

func renderNotes(n []note) string {
	var s []string
	for _, x := range n {
		if x.optional {
			s = append(s, "["+x.what+"]")
		} else {
			s = append(s, x.what)
		}
	}
	return strings.Join(s, " ")
}

// sync waits until every consumer and producer has seen exactly what the model expects.
func (w *world) sync() {
	check := func(final bool) string {
		for i := range w.consumers {
			got := w.gotCons(i)
			if !matchGroups(got, w.expCons[i], false) {
				return fmt.Sprintf("consumer %s received %v, expected %v (order inside [..] is free)", w.consumers[i].label, got, w.expCons[i])
			}
			if final && !matchGroups(got, w.expCons[i], true) {
				return fmt.Sprintf("consumer %s received %v, expected all of %v", w.consumers[i].label, got, w.expCons[i])
			}
		}
		for i := range w.producers {
			got := w.gotProd(i)
			if !matchNotes(got, w.expProd[i], final) {
				return fmt.Sprintf("producer %s was notified %v, expected %s ([..] optional)", w.producers[i].label, got, renderNotes(w.expProd[i]))
			}
		}
		return ""
	}
	deadline := time.Now().Add(5 * time.Second)
	for {
		if msg := check(false); msg != "" {
			w.fatalf("%s", msg) // something arrived that must not have
		}
		if check(true) == "" {
			return
		}
		if time.Now().After(deadline) {
			w.fatalf("%s (after 5 s)", check(true))
		}
		time.Sleep(200 * time.Microsecond)
	}
}

func (w *world) inProc(p *proc, f func(a *kit.Actor)) {
	if err := kit.InProc(p.node, p.pid, f); err != nil {
		w.fatalf("%s: %v", p.label, err)
	}
}

func (w *world) ev(e *evModel) gen.Event { return gen.Event{Name: e.name, Node: w.a.Name()} }

func (w *world) dropSub(e *evModel, c int, byUnsubscribe bool) {
	if _, ok := e.subs[c]; !ok {
		return
	}
	delete(e.subs, c)
	if len(e.subs) == 0 && e.notify && e.registered {
		w.expProd[e.owner] = append(w.expProd[e.owner], note{"stop:" + string(e.name), !byUnsubscribe, w.step})
	}
}

func (w *world) eventGone(e *evModel, reason string) {
	for c, kind := range e.subs {
		if !w.consumers[c].alive {
			continue
		}
		if kind == "link" {
			w.expect(c, fmt.Sprintf("exit:%s:%s", e.name, reason))
		} else {
			w.expect(c, fmt.Sprintf("down:%s:%s", e.name, reason))
		}
	}
	e.subs = map[int]string{}
	e.registered = false
	e.old = append(e.old, e.token)
	e.hist = nil
}

var recModel = kit.NewRecorder("C18", "model",
	"two connected nodes; 2 producers and 2 local consumers on node A, 2 remote consumers on node B (all trap exits), 2 event names; a generated history of <= 35 steps of {register (buffer 0-4, notify on/off; refused when the name is taken, by either producer), publish by the owner / by a delegate holding the token / with a stale or foreign token / by the owner with the token of the other event, link- or monitor-subscribe, unsubscribe, unregister (owner and non-owner), kill or crash the producer, kill a consumer}; every step runs to the expected observations; "+
		"oracle: reference model - each consumer's received list equals the publications between its subscribe and unsubscribe in order, subscribe returns exactly the last min(N, published) messages in order, a wrong token is an error and nothing is delivered, unregister/owner death gives each subscriber exactly one exit (link) or down (monitor) with the reason, the producer's start/stop notifications equal the model's 0->1 / 1->0 transitions (a stop caused by a subscriber's death is optional); nothing else arrives; "+
		"non-trivial = a subscribe between two publications of an event with buffer > 0, or >= 2 subscribers at once; distinct by history")

func startWorld(t *rapid.T) (*world, func()) {
	hub := netkit.NewHub()
	a, err := netkit.StartNetNode(hub, netkit.NetNodeName("eva"), "cookie", onePoolLink)
	if err != nil {
		t.Fatalf("start node a: %v", err)
	}
	b, err := netkit.StartNetNode(hub, netkit.NetNodeName("evb"), "cookie", onePoolLink)
	if err != nil {
		a.StopForce()
		t.Fatalf("start node b: %v", err)
	}
	w := &world{t: t, a: a, b: b, probe: kit.NewProbe()}
	cleanup := func() { b.StopForce(); a.StopForce() }
	spawn := func(n gen.Node, label string) *proc {
		pid, err := n.Spawn(kit.Factory(&kit.ActorConfig{Label: label, Probe: w.probe, Trap: true}), gen.ProcessOptions{})
		if err != nil {
			cleanup()
			t.Fatalf("spawn %s: %v", label, err)
		}
		return &proc{label: label, node: n, pid: pid, alive: true}
	}
	for i := 0; i < 2; i++ {
		w.producers = append(w.producers, spawn(a, fmt.Sprintf("p%d", i)))
	}
	for i := 0; i < 2; i++ {
		w.consumers = append(w.consumers, spawn(a, fmt.Sprintf("c%d", i)))
	}
	for i := 2; i < 4; i++ {
		w.consumers = append(w.consumers, spawn(b, fmt.Sprintf("c%d", i)))
	}
	w.events = []*evModel{{name: "e0", subs: map[int]string{}}, {name: "e1", subs: map[int]string{}}}
	w.expCons = make([][][]string, len(w.consumers))
	w.stepOf = make([][]int, len(w.consumers))
	w.expProd = make([][]note, len(w.producers))
	if _, err := b.Network().GetNode(a.Name()); err != nil {
		cleanup()
		t.Fatalf("connect: %v", err)
	}
	return w, cleanup
}

func TestModel(t *testing.T) {
	rapid.Check(t, func(t *rapid.T) {
		w, cleanup := startWorld(t)
		defer cleanup()
		steps := rapid.IntRange(5, 35).Draw(t, "steps")
		lastWasPub := map[gen.Atom]bool{}
		// swarm: each case has its own mixture of operation kinds
		var bag []string
		for _, k := range []string{"register", "publish", "delegate", "wrong", "sub", "sub-both", "unsub", "unregister", "unregister-foreign", "kill-producer", "kill-consumer"} {
			wgt := rapid.SampledFrom([]int{0, 1, 1, 2, 4}).Draw(t, "weight")
			if (k == "register" || k == "publish" || k == "sub") && wgt == 0 {
				wgt = 2
			}
			for i := 0; i < wgt; i++ {
				bag = append(bag, k)
			}
		}
		doSub := func(e *evModel, c int, link bool) {
			if !w.consumers[c].alive {
				return
			}
			if _, has := e.subs[c]; has {
				return
			}
			var last []gen.MessageEvent
			var err error
			w.inProc(w.consumers[c], func(a *kit.Actor) {
				if link {
					last, err = a.LinkEvent(w.ev(e))
				} else {
					last, err = a.MonitorEvent(w.ev(e))
				}
			})
			if !e.registered {
				if err == nil {
					w.fatalf("subscribing to the unregistered event %s succeeded", e.name)
				}
				w.logf("sub-unknown(%s,c%d)", e.name, c)
				return
			}
			if err != nil {
				w.fatalf("consumer c%d could not subscribe (link=%v) to %s: %v", c, link, e.name, err)
			}
			want := e.hist
			if len(want) > e.buf {
				want = want[len(want)-e.buf:]
			}
			var got []int
			for _, m := range last {
				if p, ok := m.Message.(Pub); ok && m.Event.Name == e.name {
					got = append(got, p.Seq)
				} else {
					w.fatalf("subscribe to %s returned a foreign message %#v", e.name, m)
				}
			}
			if fmt.Sprint(got) != fmt.Sprint(want) {
				w.fatalf("consumer c%d subscribing to %s (buffer %d, published %v) was handed %v, expected %v", c, e.name, e.buf, e.hist, got, want)
			}
			if len(e.subs) == 0 && e.notify {
				w.expProd[e.owner] = append(w.expProd[e.owner], note{"start:" + string(e.name), false, w.step})
			}
			if link {
				e.subs[c] = "link"
			} else {
				e.subs[c] = "mon"
			}
			if lastWasPub[e.name] && e.buf > 0 {
				w.subBetweenPubs = true
			}
			if len(e.subs) > w.maxSubs {
				w.maxSubs = len(e.subs)
			}
			w.logf("sub(%s,c%d,link=%v)->%v", e.name, c, link, got)
		}
		for s := 0; s < steps; s++ {
			w.step = s
			op := rapid.SampledFrom(bag).Draw(t, "op")
			e := w.events[rapid.IntRange(0, 1).Draw(t, "event")]
			switch op {
			case "register":
				pi := rapid.IntRange(0, 1).Draw(t, "producer")
				p := w.producers[pi]
				if !p.alive {
					continue
				}
				if e.registered {
					// the name is taken (by this process or the other one): refused, and nothing changes -
					// neither now nor when the refused process terminates later
					var err error
					w.inProc(p, func(a *kit.Actor) { _, err = a.RegisterEvent(e.name, gen.EventOptions{Buffer: 1, Notify: !e.notify}) })
					if err == nil {
						w.fatalf("RegisterEvent(%s) by %s succeeded although the event is registered by %s", e.name, p.label, w.producers[e.owner].label)
					}
					w.logf("register-taken(%s,%s)", e.name, p.label)
					w.sync()
					continue
				}
				buf := rapid.IntRange(0, 4).Draw(t, "buffer")
				notify := rapid.Bool().Draw(t, "notify")
				var tok gen.Ref
				var err error
				w.inProc(p, func(a *kit.Actor) { tok, err = a.RegisterEvent(e.name, gen.EventOptions{Buffer: buf, Notify: notify}) })
				if err != nil {
					w.fatalf("RegisterEvent(%s) by %s: %v", e.name, p.label, err)
				}
				e.registered, e.owner, e.token, e.buf, e.notify, e.hist = true, pi, tok, buf, notify, nil
				w.logf("register(%s,%s,buf=%d,notify=%v)", e.name, p.label, buf, notify)
			case "publish", "delegate":
				if !e.registered {
					continue
				}
				sender := w.producers[e.owner]
				if op == "delegate" {
					// any process holding the token may publish
					sender = w.producers[1-e.owner]
					if !sender.alive {
						sender = w.consumers[0]
					}
				}
				if !sender.alive {
					continue
				}
				seq := w.seq
				w.seq++
				var err error
				w.inProc(sender, func(a *kit.Actor) { err = a.SendEvent(e.name, e.token, Pub{Seq: seq}) })
				if err != nil {
					w.fatalf("SendEvent(%s) with the right token by %s: %v", e.name, sender.label, err)
				}
				e.hist = append(e.hist, seq)
				for c := range e.subs {
					if w.consumers[c].alive {
						w.expect(c, fmt.Sprintf("ev:%s:%d", e.name, seq))
					}
				}
				lastWasPub[e.name] = true
				w.logf("%s(%s,%d by %s)", op, e.name, seq, sender.label)
			case "wrong":
				if !e.registered {
					continue
				}
				other := w.events[0]
				if other == e {
					other = w.events[1]
				}
				var tok gen.Ref
				kind := rapid.IntRange(0, 2).Draw(t, "wrong-kind")
				switch {
				case kind == 0 && len(e.old) > 0:
					tok = e.old[len(e.old)-1] // token of an earlier registration of the same name
				case kind == 1 && other.registered:
					tok = other.token // token of the other event
				default:
					tok = w.a.MakeRef()
				}
				sender := w.producers[e.owner]
				if !sender.alive {
					continue
				}
				seq := w.seq
				w.seq++
				var err error
				w.inProc(sender, func(a *kit.Actor) { err = a.SendEvent(e.name, tok, Pub{Seq: seq}) })
				if err == nil {
					w.fatalf("SendEvent(%s) with a token that is not the registration token succeeded", e.name)
				}
				w.logf("wrong(%s,%d)", e.name, seq)
			case "sub":
				c := rapid.IntRange(0, len(w.consumers)-1).Draw(t, "consumer")
				link := rapid.Bool().Draw(t, "link")
				doSub(e, c, link)
			case "sub-both":
				// one consumer subscribes to both events the same way (its termination must then be accounted for in each of them)
				c := rapid.IntRange(0, len(w.consumers)-1).Draw(t, "consumer")
				link := rapid.Bool().Draw(t, "link")
				for _, x := range w.events {
					doSub(x, c, link)
					w.sync()
				}
			case "unsub":
				c := rapid.IntRange(0, len(w.consumers)-1).Draw(t, "consumer")
				kind, has := e.subs[c]
				if !has || !w.consumers[c].alive {
					continue
				}
				var err error
				w.inProc(w.consumers[c], func(a *kit.Actor) {
					if kind == "link" {
						err = a.UnlinkEvent(w.ev(e))
					} else {
						err = a.DemonitorEvent(w.ev(e))
					}
				})
				if err != nil {
					w.fatalf("consumer c%d could not unsubscribe (%s) from %s: %v", c, kind, e.name, err)
				}
				w.dropSub(e, c, true)
				w.logf("unsub(%s,c%d)", e.name, c)
			case "unregister":
				if !e.registered || !w.producers[e.owner].alive {
					continue
				}
				var err error
				w.inProc(w.producers[e.owner], func(a *kit.Actor) { err = a.UnregisterEvent(e.name) })
				if err != nil {
					w.fatalf("UnregisterEvent(%s) by its owner: %v", e.name, err)
				}
				w.eventGone(e, gen.ErrUnregistered.Error())
				w.logf("unregister(%s)", e.name)
			case "unregister-foreign":
				if !e.registered || !w.producers[1-e.owner].alive {
					continue
				}
				var err error
				w.inProc(w.producers[1-e.owner], func(a *kit.Actor) { err = a.UnregisterEvent(e.name) })
				if err == nil {
					w.fatalf("UnregisterEvent(%s) by a process that does not own it succeeded", e.name)
				}
				w.logf("unregister-foreign(%s)", e.name)
			case "kill-producer":
				pi := rapid.IntRange(0, 1).Draw(t, "producer")
				p := w.producers[pi]
				if !p.alive || rapid.IntRange(0, 2).Draw(t, "really") != 0 {
					continue
				}
				crash := rapid.Bool().Draw(t, "crash")
				reason := gen.TerminateReasonKill.Error()
				if crash {
					reason = errCrash.Error()
					w.a.Send(p.pid, kit.Stop{Reason: errCrash})
				} else {
					w.a.Kill(p.pid)
				}
				if !kit.WaitUntil(10*time.Second, func() bool { return w.probe.Terminated(p.label, p.pid) }) {
					w.fatalf("producer %s did not terminate", p.label)
				}
				p.alive = false
				for _, x := range w.events {
					if x.registered && x.owner == pi {
						w.eventGone(x, reason)
					}
				}
				w.logf("kill-producer(%s,crash=%v)", p.label, crash)
			case "kill-consumer":
				// consumers holding several subscriptions are preferred victims
				cands := []int{0, 1, 2, 3}
				for i := range w.consumers {
					n := 0
					for _, x := range w.events {
						if _, has := x.subs[i]; has && x.registered {
							n++
						}
					}
					if n >= 2 {
						cands = append(cands, i, i)
					}
				}
				c := rapid.SampledFrom(cands).Draw(t, "consumer")
				p := w.consumers[c]
				if !p.alive {
					continue
				}
				if p.node == w.b && kit.IsKnown("C18", sigRemoteLoss) {
					counted := false
					for _, x := range w.events {
						// (without notifications the stale subscription still matters: the owner node keeps
						// sending the event to the dead subscriber's node, where a later subscriber can
						// pick up a publication that was made before it subscribed)
						if _, has := x.subs[c]; has && x.registered {
							counted = true
						}
					}
					if counted {
						recModel.Excluded(sigRemoteLoss)
						continue
					}
				}
				p.node.Kill(p.pid)
				if !kit.WaitUntil(10*time.Second, func() bool { return w.probe.Terminated(p.label, p.pid) }) {
					w.fatalf("consumer %s did not terminate", p.label)
				}
				p.alive = false
				for _, x := range w.events {
					w.dropSub(x, c, false)
				}
				w.logf("kill-consumer(c%d)", c)
			}
			if op != "publish" && op != "delegate" {
				lastWasPub[e.name] = false
			}
			w.sync()
		}
		// nothing may trickle in afterwards
		time.Sleep(20 * time.Millisecond)
		w.sync()
		labels := []string{}
		if w.subBetweenPubs {
			labels = append(labels, "subscribe-after-publication-with-buffer")
		}
		if w.maxSubs >= 2 {
			labels = append(labels, "two-or-more-subscribers")
		}
		recModel.Case(w.subBetweenPubs || w.maxSubs >= 2, strings.Join(w.trace, ";"), labels...)
	})
}

// TestKnownRemoteLoss is the directed replay of the open finding sigRemoteLoss: a remote
// consumer subscribes (start), is killed, a local consumer subscribes - no second start.
func TestKnownRemoteLoss(t *testing.T) {
	if !kit.IsKnown("C18", sigRemoteLoss) {
		t.Skip("not listed")
	}
	hub := netkit.NewHub()
	a, err := netkit.StartNetNode(hub, netkit.NetNodeName("eka"), "cookie", onePoolLink)
	if err != nil {
		t.Fatal(err)
	}
	defer a.StopForce()
	b, err := netkit.StartNetNode(hub, netkit.NetNodeName("ekb"), "cookie", onePoolLink)
	if err != nil {
		t.Fatal(err)
	}
	defer b.StopForce()
	probe := kit.NewProbe()
	spawn := func(n gen.Node, label string) gen.PID {
		pid, err := n.Spawn(kit.Factory(&kit.ActorConfig{Label: label, Probe: probe, Trap: true}), gen.ProcessOptions{})
		if err != nil {
			t.Fatal(err)
		}
		return pid
	}
	prod, remote, local := spawn(a, "p"), spawn(b, "r"), spawn(a, "l")
	ev := gen.Event{Name: "known", Node: a.Name()}
	var e1, e2, e3 error
	kit.InProc(a, prod, func(x *kit.Actor) { _, e1 = x.RegisterEvent("known", gen.EventOptions{Notify: true}) })
	kit.InProc(b, remote, func(x *kit.Actor) { _, e2 = x.LinkEvent(ev) })
	if e1 != nil || e2 != nil {
		t.Fatalf("setup: %v %v", e1, e2)
	}
	starts := func() int {
		n := 0
		for _, e := range probe.EventsOf("p") {
			if _, ok := e.Msg.(gen.MessageEventStart); ok {
				n++
			}
		}
		return n
	}
	if !kit.WaitUntil(5*time.Second, func() bool { return starts() == 1 }) {
		t.Fatalf("no start notification for the first (remote) subscriber")
	}
	b.Kill(remote)
	kit.WaitUntil(5*time.Second, func() bool { return probe.Terminated("r", remote) })
	time.Sleep(50 * time.Millisecond)
	kit.InProc(a, local, func(x *kit.Actor) { _, e3 = x.LinkEvent(ev) })
	if e3 != nil {
		t.Fatalf("local subscribe: %v", e3)
	}
	if !kit.WaitUntil(500*time.Millisecond, func() bool { return starts() == 2 }) {
		recModel.Confirmed(sigRemoteLoss, kit.KnownWhat("C18", sigRemoteLoss))
	}
	recModel.Case(true, "directed replay: remote subscriber (start), killed, local subscriber - second start expected")
}

var recConc = kit.NewRecorder("C18", "concurrent",
	"one node (optionally a second one with remote consumers); 1-2 publisher processes stream 50-400 numbered messages of one event with buffer 0-4 while 2-4 consumers subscribe (link or monitor) and unsubscribe 1-6 times each, all concurrently; every publication and every subscribe/unsubscribe call is bracketed by a global logical clock; "+
		"oracle: a publication that started after a subscribe returned and finished before the matching unsubscribe was called is received exactly once in that interval; nothing is received twice within one subscription (snapshot and live delivery together) except publications concurrent with the subscribe call, which are not judged; per publisher the received sequence numbers of a subscription increase; the snapshot is increasing per publisher and holds at most N messages; no consumer terminates; "+
		"non-trivial = at least one subscribe call overlapped a publication; distinct by parameters")

type pubRec struct {
	seq, start, end int64
	pub             int
}

type subRec struct {
	consumer          int
	callStart, retAt  int64 // subscribe call
	unsubAt, unsubEnd int64
	snapshot          []int
	firstIdx, endIdx  int // indices into the consumer's received list
}

func TestConcurrent(t *testing.T) {
	rapid.Check(t, func(t *rapid.T) {
		remote := rapid.Bool().Draw(t, "remote-consumers")
		npub := rapid.IntRange(1, 2).Draw(t, "publishers")
		per := rapid.IntRange(50, 400).Draw(t, "per-publisher")
		buf := rapid.IntRange(0, 4).Draw(t, "buffer")
		ncons := rapid.IntRange(2, 4).Draw(t, "consumers")
		rounds := make([]int, ncons)
		links := make([]bool, ncons)
		for i := range rounds {
			rounds[i] = rapid.IntRange(1, 6).Draw(t, "rounds")
			links[i] = rapid.Bool().Draw(t, "link")
		}
		desc := fmt.Sprintf("remote=%v pubs=%d per=%d buf=%d cons=%d rounds=%v links=%v", remote, npub, per, buf, ncons, rounds, links)
		fatalf := func(f string, a ...any) {
			t.Helper()
			t.Fatalf("%s\n  case: %s (odd consumers are on the second node when remote and make one round)", fmt.Sprintf(f, a...), desc)
		}
		hub := netkit.NewHub()
		a, err := netkit.StartNetNode(hub, netkit.NetNodeName("eca"), "cookie", onePoolLink)
		if err != nil {
			t.Fatalf("start node: %v", err)
		}
		defer a.StopForce()
		var b gen.Node
		if remote {
			b, err = netkit.StartNetNode(hub, netkit.NetNodeName("ecb"), "cookie", onePoolLink)
			if err != nil {
				t.Fatalf("start node: %v", err)
			}
			defer b.StopForce()
			if _, err := b.Network().GetNode(a.Name()); err != nil {
				t.Fatalf("connect: %v", err)
			}
		}
		probe := kit.NewProbe()
		var clock atomic.Int64
		owner, err := a.Spawn(kit.Factory(&kit.ActorConfig{Label: "owner", Probe: probe, Quiet: true}), gen.ProcessOptions{})
		if err != nil {
			t.Fatalf("spawn: %v", err)
		}
		var token gen.Ref
		var rerr error
		kit.InProc(a, owner, func(x *kit.Actor) { token, rerr = x.RegisterEvent("stream", gen.EventOptions{Buffer: buf}) })
		if rerr != nil {
			t.Fatalf("register: %v", rerr)
		}
		ev := gen.Event{Name: "stream", Node: a.Name()}
		pubs := make([]gen.PID, npub)
		pubs[0] = owner
		for i := 1; i < npub; i++ {
			pubs[i], _ = a.Spawn(kit.Factory(&kit.ActorConfig{Label: "pub", Probe: probe, Quiet: true}), gen.ProcessOptions{})
		}
		cons := make([]gen.PID, ncons)
		consNode := make([]gen.Node, ncons)
		for i := range cons {
			n := a
			if remote && i%2 == 1 {
				n = b
				rounds[i] = 1 // deliveries in flight when a remote unsubscribe returns cannot be attributed to a round
			}
			consNode[i] = n
			cons[i], err = n.Spawn(kit.Factory(&kit.ActorConfig{Label: fmt.Sprintf("c%d", i), Probe: probe, Trap: true}), gen.ProcessOptions{})
			if err != nil {
				t.Fatalf("spawn consumer: %v", err)
			}
		}
		var mu sync.Mutex
		var published []pubRec
		var subs []*subRec
		var wg sync.WaitGroup
		var pubsDone atomic.Int32
		var harnessLate atomic.Bool // a call into a process did not come back within the harness's own 10 s
		for p := 0; p < npub; p++ {
			wg.Add(1)
			go func(p int) {
				defer wg.Done()
				defer pubsDone.Add(1)
				kit.InProc(a, pubs[p], func(x *kit.Actor) {
					for i := 0; i < per; i++ {
						seq := int64(p*100000 + i)
						s := clock.Add(1)
						err := x.SendEvent("stream", token, Pub{Seq: int(seq)})
						e := clock.Add(1)
						if err != nil {
							panic(fmt.Sprintf("SendEvent: %v", err))
						}
						mu.Lock()
						published = append(published, pubRec{seq: seq, start: s, end: e, pub: p})
						mu.Unlock()
					}
				})
			}(p)
		}
		received := func(c int) []int {
			var out []int
			for _, e := range probe.EventsOf(fmt.Sprintf("c%d", c)) {
				if m, ok := e.Msg.(gen.MessageEvent); ok && e.Kind == "event" {
					out = append(out, m.Message.(Pub).Seq)
				}
			}
			return out
		}
		for c := 0; c < ncons; c++ {
			wg.Add(1)
			go func(c int) {
				defer wg.Done()
				for r := 0; r < rounds[c]; r++ {
					sr := &subRec{consumer: c}
					var last []gen.MessageEvent
					var err error
					if e2 := kit.InProc(consNode[c], cons[c], func(x *kit.Actor) {
						sr.firstIdx = len(received(c))
						sr.callStart = clock.Add(1)
						if links[c] {
							last, err = x.LinkEvent(ev)
						} else {
							last, err = x.MonitorEvent(ev)
						}
						sr.retAt = clock.Add(1)
					}); e2 != nil || err != nil {
						if e2 != nil {
							harnessLate.Store(true)
						}
						return // the consumer is gone or the call failed: judged below
					}
					for _, m := range last {
						sr.snapshot = append(sr.snapshot, m.Message.(Pub).Seq)
					}
					if consNode[c] != a {
						// a remote subscriber's unsubscribe request can overtake publications that are
						// still in flight to its node (they are dropped there: it is not subscribed any
						// more). Which publications "arrived before the unsubscribe" is not observable,
						// so a remote consumer stays subscribed until the stream has ended and drained.
						kit.WaitUntil(20*time.Second, func() bool { return pubsDone.Load() == int32(npub) })
						// everything published after the subscribe call returned must arrive: wait for
						// that many deliveries; only a long silence ends the wait before
						mu.Lock()
						need := 0
						for _, pr := range published {
							if pr.start > sr.retAt {
								need++
							}
						}
						mu.Unlock()
						last, since := len(received(c)), time.Now()
						for {
							quiet := time.Since(since)
							if (last-sr.firstIdx >= need && quiet > 150*time.Millisecond) || quiet > 6*time.Second {
								break
							}
							time.Sleep(5 * time.Millisecond)
							if n := len(received(c)); n != last {
								last, since = n, time.Now()
							}
						}
					} else {
						// stay subscribed for a while (until some more publications went by)
						n0 := clock.Load()
						kit.WaitUntil(50*time.Millisecond, func() bool { return clock.Load() > n0+20 || pubsDone.Load() == int32(npub) })
					}
					if e2 := kit.InProc(consNode[c], cons[c], func(x *kit.Actor) {
						sr.unsubAt = clock.Add(1)
						if links[c] {
							err = x.UnlinkEvent(ev)
						} else {
							err = x.DemonitorEvent(ev)
						}
						sr.unsubEnd = clock.Add(1)
						sr.endIdx = len(received(c))
					}); e2 != nil || err != nil {
						if e2 != nil {
							harnessLate.Store(true)
						}
						return
					}
					mu.Lock()
					subs = append(subs, sr)
					mu.Unlock()
				}
			}(c)
		}
		wg.Wait()
		// let remote deliveries drain
		for c := range cons {
			kit.WaitUntil(2*time.Second, func() bool { return kit.Quiesced(consNode[c], cons[c]) })
		}
		if remote {
			// deliveries to the second node are asynchronous: wait until nothing has arrived for 150 ms
			total := func() int {
				n := 0
				for c := range cons {
					n += len(received(c))
				}
				return n
			}
			last, since := total(), time.Now()
			for time.Since(since) < 150*time.Millisecond {
				time.Sleep(5 * time.Millisecond)
				if n := total(); n != last {
					last, since = n, time.Now()
				}
			}
		}
		time.Sleep(10 * time.Millisecond)
		if harnessLate.Load() {
			t.Skip("inconclusive: a call into a harness process took more than 10 s (busy machine), a subscription may be unrecorded")
		}
		// no consumer may have died
		for c := range cons {
			for _, e := range probe.EventsOf(fmt.Sprintf("c%d", c)) {
				if e.Kind == "terminate" {
					fatalf("consumer c%d terminated with %v while subscribing to an event that was being published (buffer %d)", c, e.Reason, buf)
				}
			}
		}
		overlap := false
		for _, sr := range subs {
			all := received(sr.consumer)
			// for remote consumers deliveries of the interval may arrive after the unsubscribe
			// returned; take everything up to the next subscribe of this consumer
			// (the next subscription is the next one in time; it can begin at the same index when
			// nothing at all was delivered during this one)
			end := len(all)
			var next *subRec
			for _, o := range subs {
				if o.consumer == sr.consumer && o.callStart > sr.callStart && (next == nil || o.callStart < next.callStart) {
					next = o
				}
			}
			if next != nil {
				end = next.firstIdx
			}
			live := all[sr.firstIdx:end]
			// deliveries of the previous subscription of this consumer may still be in its
			// mailbox when the next subscribe call begins
			var prevEnd int64
			for _, o := range subs {
				if o.consumer == sr.consumer && o.callStart < sr.callStart && o.unsubEnd > prevEnd {
					prevEnd = o.unsubEnd
				}
			}
			if len(sr.snapshot) > buf {
				fatalf("subscribe returned %d buffered messages, the buffer holds %d", len(sr.snapshot), buf)
			}
			lastOf := map[int]int{}
			for _, s := range sr.snapshot {
				p := s / 100000
				if prev, ok := lastOf[p]; ok && s <= prev {
					fatalf("the snapshot handed to c%d is out of order: %v", sr.consumer, sr.snapshot)
				}
				lastOf[p] = s
			}
			lastOf = map[int]int{}
			count := map[int]int{}
			for _, s := range live {
				p := s / 100000
				if prev, ok := lastOf[p]; ok && s <= prev {
					fatalf("c%d received the publications of publisher %d out of order or twice: ... %d, %d ...", sr.consumer, p, prev, s)
				}
				lastOf[p] = s
				count[s]++
			}
			inSnap := map[int]bool{}
			for _, s := range sr.snapshot {
				inSnap[s] = true
			}
			// no gap between what the subscriber was handed and what it is sent: the buffer is
			// the state of the event as of the subscription, so the publisher's next message
			// after the newest buffered one must be the first one delivered (local consumers:
			// delivery is synchronous with the publication)
			if consNode[sr.consumer] == a {
				newest := map[int]int{}
				for _, s := range sr.snapshot {
					newest[s/100000] = s
				}
				// (a delivery decided under the consumer's previous subscription can still trickle
				// in - deliveries are made outside the event's lock; those are not newer than the
				// buffer, so only publications newer than the newest buffered one count)
				first := map[int]int{}
				for _, s := range live {
					n, has := newest[s/100000]
					if !has || s <= n {
						continue
					}
					if f, ok := first[s/100000]; !ok || s < f {
						first[s/100000] = s
					}
				}
				for p, s := range newest {
					if f, ok := first[p]; ok && f != s+1 {
						fatalf("c%d was handed the buffer %v on subscribing and the first publication of publisher %d delivered afterwards is %d: %d..%d are neither in the buffer nor delivered", sr.consumer, sr.snapshot, p, f, s+1, f-1)
					}
				}
			}
			for _, pr := range published {
				if pr.end > sr.callStart && pr.start < sr.retAt {
					overlap = true
				}
				after := pr.start > sr.retAt
				before := pr.end < sr.callStart
				switch {
				case after && pr.end < sr.unsubAt:
					if count[int(pr.seq)] != 1 {
						fatalf("c%d (subscribed at %d, unsubscribed at %d) received publication %d (%d..%d) %d times", sr.consumer, sr.retAt, sr.unsubAt, pr.seq, pr.start, pr.end, count[int(pr.seq)])
					}
					if inSnap[int(pr.seq)] {
						fatalf("publication %d started after the subscribe call returned and is in the snapshot that call returned", pr.seq)
					}
				case before && pr.start > prevEnd && consNode[sr.consumer] == a:
					// (a remote consumer can see a publication that was still in flight to its node,
					// on behalf of another subscriber there, when its own subscription was set up;
					// the property is silent about publications made before the subscription)
					if count[int(pr.seq)] != 0 {
						fatalf("c%d received publication %d live although it was complete before the subscribe call began", sr.consumer, pr.seq)
					}
				case after && pr.start > sr.unsubEnd && consNode[sr.consumer] == a:
					if count[int(pr.seq)] != 0 {
						fatalf("local consumer c%d received publication %d which began after its unsubscribe call returned", sr.consumer, pr.seq)
					}
				}
			}
		}
		recConc.Case(overlap, desc)
	})
}
