package c09

import (
	"errors"
	"fmt"
	"strings"
	"sync"
	"testing"
	"time"

	"ergo.services/ergo/act"
	"ergo.services/ergo/gen"
	"pgregory.net/rapid"

	"verif/harness/kit"
)

var recRT = kit.NewRecorder("C09", "realtime",
	"real supervisors on real nodes with the real clock (thorough tier; 24 scenarios run concurrently per generated batch): type x Intensity 1-3 x Period 1-2 s x 1-2 children, 2-6 kills separated by real sleeps drawn from {0-30 ms, Period-300 ms, Period+300 ms, Period/2}; every failure is stamped by the supervisor somewhere between the kill and the moment its reaction became visible - a step is judged only if the verdict is the same for the smallest and the largest possible ages; "+
		"oracle: as in the state-machine part, observed through the supervisor's terminate callback (reason ErrSupervisorRestartsExceeded exactly when the sliding window says so) and the liveness of the children; "+
		"non-trivial = a restart aged out of the window; distinct by scenario")

type rtScenario struct {
	typ       act.SupervisorType
	intensity int // effective values (what the oracle uses)
	period    int
	children  int
	gaps      []int64
	// what is written into the spec when it differs from the effective value: 0 = left unset,
	// the documented default (5 restarts / 5 seconds) applies
	unsetIntensity, unsetPeriod bool
}

func (s rtScenario) String() string {
	return fmt.Sprintf("type=%d I=%d P=%d n=%d gaps=%v unsetI=%v unsetP=%v", s.typ, s.intensity, s.period, s.children, s.gaps, s.unsetIntensity, s.unsetPeriod)
}

func runRT(sc rtScenario) (nontriv bool, problem string, inconclusive bool) {
	node, err := kit.StartLocalNode()
	if err != nil {
		return false, err.Error(), true
	}
	defer node.StopForce()
	probe := kit.NewProbe()
	var children []act.SupervisorChildSpec
	for i := 0; i < sc.children; i++ {
		children = append(children, act.SupervisorChildSpec{Name: gen.Atom(fmt.Sprintf("rt%d", i)),
			Factory: kit.Factory(&kit.ActorConfig{Label: fmt.Sprintf("rt%d", i), Probe: probe, Quiet: true})})
	}
	specI, specP := uint16(sc.intensity), uint16(sc.period)
	if sc.unsetIntensity {
		specI = 0
	}
	if sc.unsetPeriod {
		specP = 0
	}
	var supReason error
	supDead := make(chan struct{})
	sup, err := node.Spawn(kit.SupFactory(&kit.SupConfig{Label: "sup", Probe: probe,
		Spec: func(args ...any) (act.SupervisorSpec, error) {
			return act.SupervisorSpec{Type: sc.typ, Children: children, DisableAutoShutdown: true,
				Restart: act.SupervisorRestart{Strategy: act.SupervisorStrategyPermanent, Intensity: specI, Period: specP}}, nil
		},
		OnTerm: func(s *kit.Sup, reason error) { supReason = reason; close(supDead) }}), gen.ProcessOptions{})
	if err != nil {
		return false, err.Error(), true
	}
	if sc.typ == act.SupervisorTypeSimpleOneForOne {
		done := make(chan struct{})
		node.Send(sup, kit.DoSup{F: func(s *kit.Sup) {
			for i := 0; i < sc.children; i++ {
				s.StartChild(gen.Atom(fmt.Sprintf("rt%d", i)))
			}
		}, Done: done})
		<-done
	}
	childPIDs := func() []gen.PID {
		var out []gen.PID
		pl, _ := node.ProcessList()
		for _, p := range pl {
			if info, err := node.ProcessInfo(p); err == nil && info.Parent == sup {
				out = append(out, p)
			}
		}
		return out
	}
	pm := int64(sc.period) * 1000
	var window [][2]time.Time // per failure: earliest and latest moment the supervisor can have stamped it
	dead := func() bool {
		select {
		case <-supDead:
			return true
		default:
			return false
		}
	}
	for k, gap := range sc.gaps {
		time.Sleep(time.Duration(gap) * time.Millisecond)
		if !kit.WaitUntil(2*time.Second, func() bool { return len(childPIDs()) >= sc.children || dead() }) {
			return nontriv, "children did not come back", true
		}
		if dead() {
			return nontriv, fmt.Sprintf("supervisor terminated (%v) before failure #%d", supReason, k+1), false
		}
		victims := childPIDs()
		lo := time.Now()
		node.Kill(victims[0])
		// outcome: either the supervisor dies, or the child population is restored
		kit.WaitUntil(2*time.Second, func() bool {
			if dead() {
				return true
			}
			ps := childPIDs()
			if len(ps) < sc.children {
				return false
			}
			for _, p := range ps {
				if p == victims[0] {
					return false
				}
			}
			return true
		})
		hi := time.Now()
		// The supervisor stamps a failure when it handles it: some time between the kill and the
		// moment its reaction became visible. With [lo, hi] for every failure, an earlier failure
		// is certainly inside the window if even its largest possible age is, and possibly inside
		// if its smallest possible age is; the verdict is judged only when both counts agree.
		countMin, countMax := 1, 1
		for _, w := range window {
			maxAge := hi.Sub(w[0]).Milliseconds()
			minAge := lo.Sub(w[1]).Milliseconds()
			if maxAge <= pm-20 {
				countMin++
			}
			if minAge <= pm+20 {
				countMax++
			} else {
				nontriv = true
			}
		}
		window = append(window, [2]time.Time{lo, hi})
		edge := (countMin > sc.intensity) != (countMax > sc.intensity)
		count := countMin
		exceeded := count > sc.intensity
		time.Sleep(20 * time.Millisecond)
		gaveUp := dead()
		if edge {
			if gaveUp {
				return nontriv, "", false
			}
			continue
		}
		if exceeded != gaveUp {
			return nontriv, fmt.Sprintf("failure #%d is restart %d..%d within the last %d s (limit %d): gave up = %v", k+1, countMin, countMax, sc.period, sc.intensity, gaveUp), false
		}
		if gaveUp {
			if !errors.Is(supReason, act.ErrSupervisorRestartsExceeded) {
				return nontriv, fmt.Sprintf("gave up with reason %q instead of %q", supReason, act.ErrSupervisorRestartsExceeded), false
			}
			if !kit.WaitUntil(2*time.Second, func() bool { return len(childPIDs()) == 0 }) {
				return nontriv, "supervisor gave up but children are still alive", false
			}
			return nontriv, "", false
		}
	}
	return nontriv, "", false
}

func TestRealTime(t *testing.T) {
	if kit.Tier() != "thorough" {
		t.Skip("thorough tier only (real sleeps)")
	}
	rapid.Check(t, func(t *rapid.T) {
		const batch = 24
		scs := make([]rtScenario, batch)
		for i := range scs {
			sc := rtScenario{
				typ:       rapid.SampledFrom([]act.SupervisorType{act.SupervisorTypeOneForOne, act.SupervisorTypeAllForOne, act.SupervisorTypeRestForOne, act.SupervisorTypeSimpleOneForOne}).Draw(t, "type"),
				intensity: rapid.IntRange(1, 3).Draw(t, "intensity"),
				period:    rapid.IntRange(1, 2).Draw(t, "period"),
				children:  rapid.IntRange(1, 2).Draw(t, "children"),
			}
			pm := int64(sc.period) * 1000
			n := rapid.IntRange(2, 6).Draw(t, "kills")
			for k := 0; k < n; k++ {
				g := rapid.SampledFrom([]int64{0, 10, 30, pm - 300, pm + 300, pm / 2}).Draw(t, "gap")
				sc.gaps = append(sc.gaps, g)
			}
			scs[i] = sc
		}
		type res struct {
			nontriv bool
			problem string
			inconcl bool
		}
		out := make([]res, batch)
		var wg sync.WaitGroup
		for i := range scs {
			wg.Add(1)
			go func(i int) {
				defer wg.Done()
				nt, p, inc := runRT(scs[i])
				out[i] = res{nt, p, inc}
			}(i)
		}
		wg.Wait()
		var problems []string
		for i, r := range out {
			if r.problem != "" && !r.inconcl {
				problems = append(problems, fmt.Sprintf("%s: %s", scs[i], r.problem))
			}
			if !r.inconcl {
				recRT.Case(r.nontriv, scs[i].String())
			}
		}
		if len(problems) > 0 {
			t.Fatalf("%s", strings.Join(problems, "\n"))
		}
	})
}


var recBurst = kit.NewRecorder("C09", "real-bursts",
	"real supervisors of all four types with Intensity 1-6 and Period 1-10 s, or with one or both of them left unset (the defaults, 5 restarts within 5 seconds, apply to each one separately), 1-2 children, hit by a burst of Intensity+2 kills 0-10 ms apart (no sleeping involved, so this part runs in the quick tier); "+
		"oracle: the supervisor restarts the child for failures 1..Intensity and gives up at failure Intensity+1 with ErrSupervisorRestartsExceeded, all children gone; "+
		"non-trivial = every case reaches the limit; distinct by scenario")

func TestRealBursts(t *testing.T) {
	rapid.Check(t, func(t *rapid.T) {
		sc := rtScenario{
			typ:       rapid.SampledFrom([]act.SupervisorType{act.SupervisorTypeOneForOne, act.SupervisorTypeAllForOne, act.SupervisorTypeRestForOne, act.SupervisorTypeSimpleOneForOne}).Draw(t, "type"),
			intensity: rapid.IntRange(1, 6).Draw(t, "intensity"),
			period:    rapid.IntRange(1, 10).Draw(t, "period"),
			children:  rapid.IntRange(1, 2).Draw(t, "children"),
		}
		switch rapid.IntRange(0, 3).Draw(t, "unset") {
		case 1:
			sc.unsetIntensity, sc.intensity = true, 5
		case 2:
			sc.unsetPeriod, sc.period = true, 5
		case 3:
			sc.unsetIntensity, sc.unsetPeriod, sc.intensity, sc.period = true, true, 5, 5
		}
		for k := 0; k < sc.intensity+2; k++ {
			sc.gaps = append(sc.gaps, int64(rapid.IntRange(0, 10).Draw(t, "gap_ms")))
		}
		_, problem, inconclusive := runRT(sc)
		if inconclusive {
			t.Skip(problem)
		}
		if problem != "" {
			t.Fatalf("%s: %s", sc, problem)
		}
		recBurst.Case(true, sc.String())
	})
}
