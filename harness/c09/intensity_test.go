package c09

import (
	"errors"
	"fmt"
	"strings"
	"testing"
	"time"

	"ergo.services/ergo/act"
	"ergo.services/ergo/gen"
	"pgregory.net/rapid"

	"verif/harness/kit"
	"verif/harness/suplab"
)

var recSM = kit.NewRecorder("C09", "statemachine",
	"supervisor type {one/all/rest/simple-one-for-one} x strategy {permanent, transient} x Intensity 1-6 x Period 1-10 s x 1-3 children; a generated list of <= 14 child terminations (abnormal, or normal ones under transient that must not count) separated by generated gaps: bursts (0-40 ms), gaps just under / just over the period, slow drips; the clock is advanced by ageing the recorded restart timestamps (the production code keeps reading the real clock); steps whose decision depends on a restart within 60 ms of the window edge are not judged; "+
		"oracle: sliding-window definition - the k-th restart-requiring failure makes the supervisor give up iff it is the (Intensity+1)-th within the last Period seconds; then every child is told to stop and the supervisor ends with ErrSupervisorRestartsExceeded; otherwise the child is restarted; "+
		"non-trivial = at least one restart aged out of the window before a later failure; distinct by (spec, timing pattern)")

func genGap(t *rapid.T, periodMs int64) int64 {
	switch rapid.IntRange(0, 5).Draw(t, "gapkind") {
	case 0, 1:
		return int64(rapid.IntRange(0, 40).Draw(t, "burst_ms"))
	case 2:
		return periodMs - int64(rapid.IntRange(80, 900).Draw(t, "under_ms"))
	case 3:
		return periodMs + int64(rapid.IntRange(80, 900).Draw(t, "over_ms"))
	case 4:
		return periodMs / int64(rapid.IntRange(2, 5).Draw(t, "fraction"))
	}
	return int64(rapid.IntRange(100, 3000).Draw(t, "drip_ms"))
}

func propIntensity(t *rapid.T) {
	typ := rapid.SampledFrom([]act.SupervisorType{act.SupervisorTypeOneForOne, act.SupervisorTypeAllForOne, act.SupervisorTypeRestForOne, act.SupervisorTypeSimpleOneForOne}).Draw(t, "type")
	strategy := rapid.SampledFrom([]act.SupervisorStrategy{act.SupervisorStrategyPermanent, act.SupervisorStrategyTransient}).Draw(t, "strategy")
	intensity := rapid.IntRange(1, 6).Draw(t, "intensity")
	period := rapid.IntRange(1, 10).Draw(t, "period")
	n := rapid.IntRange(1, 3).Draw(t, "children")
	keep := rapid.Bool().Draw(t, "keeporder")
	spec := act.SupervisorSpec{Type: typ, DisableAutoShutdown: true,
		Restart: act.SupervisorRestart{Strategy: strategy, Intensity: uint16(intensity), Period: uint16(period), KeepOrder: keep}}
	for i := 0; i < n; i++ {
		spec.Children = append(spec.Children, act.SupervisorChildSpec{Name: gen.Atom(fmt.Sprintf("k%d", i))})
	}
	e, err := suplab.NewEnv(spec)
	if err != nil {
		t.Fatalf("init: %v", err)
	}
	if typ == act.SupervisorTypeSimpleOneForOne {
		for i := 0; i < n; i++ {
			a, err := e.Sup.ChildSpec(gen.Atom(fmt.Sprintf("k%d", i)))
			if err != nil {
				t.Fatalf("StartChild: %v", err)
			}
			e.Handle(a)
		}
	}
	periodMs := int64(period) * 1000
	var window []int64 // model times of restart-requiring failures
	var realAt []int64 // real milliseconds since the start of the case, per entry of window
	realStart := time.Now()
	var now int64
	var hist []string
	aged := false
	steps := rapid.IntRange(2, 14).Draw(t, "failures")
	fail := func(format string, a ...any) {
		t.Fatalf("%s\ntype=%d strategy=%v intensity=%d period=%ds children=%d\nhistory=%v\nactions=%v", fmt.Sprintf(format, a...), typ, strategy, intensity, period, n, hist, e.Log)
	}
	drain := func() {
		for guard := 0; guard < 40; guard++ {
			p := e.Pending()
			if len(p) == 0 {
				return
			}
			e.Die(p[len(p)-1].PID, p[len(p)-1].StopWith)
		}
	}
	for s := 0; s < steps && !e.SupDead; s++ {
		gap := genGap(t, periodMs)
		if gap < 0 {
			gap = 0
		}
		now += gap
		e.Sup.AgeRestarts(gap)
		running := e.Running()
		if len(running) == 0 {
			break
		}
		victim := running[rapid.IntRange(0, len(running)-1).Draw(t, "victim")]
		normalExit := strategy == act.SupervisorStrategyTransient && rapid.IntRange(0, 4).Draw(t, "normal_exit") == 0
		if normalExit {
			// under transient a normal exit needs no restart and must not count
			hist = append(hist, fmt.Sprintf("+%dms normal(%s)", gap, victim.Name))
			e.Die(victim.PID, gen.TerminateReasonNormal)
			drain()
			if e.SupDead {
				fail("supervisor terminated (%v) after a normal exit although auto-shutdown is off", e.SupReason)
			}
			// bring the child back so that the population stays constant
			if typ != act.SupervisorTypeSimpleOneForOne {
				if a, err := e.Sup.ChildSpec(victim.Name); err == nil {
					e.Handle(a)
				}
			}
			continue
		}
		hist = append(hist, fmt.Sprintf("+%dms fail(%s)", gap, victim.Name))
		// model
		edge := false
		count := 1
		realNow := time.Since(realStart).Milliseconds()
		for i, w := range window {
			// the production code reads the real clock: the true age of a restart is the generated
			// (virtual) age plus the real time that has passed since - milliseconds normally,
			// much more on a busy machine. A decision is only judged when the whole interval of
			// possible ages lies on one side of the period.
			age := now - w
			ageMax := age + (realNow - realAt[i]) + 60
			if age-60 <= periodMs && periodMs <= ageMax {
				edge = true
			}
			if age <= periodMs {
				count++
			} else {
				aged = true
			}
		}
		window = append(window, now)
		realAt = append(realAt, realNow)
		exceeded := count > intensity
		e.Die(victim.PID, suplab.ErrAbnormal)
		if e.Problem != "" {
			fail("%s", e.Problem)
		}
		gaveUp := e.SupDead || len(e.Running()) == 0 && len(e.Pending()) > 0 && allStopWith(e.Pending(), act.ErrSupervisorRestartsExceeded)
		if edge {
			// too close to the window edge to judge with a real clock: adopt
			if gaveUp {
				drain()
				break
			}
			drain()
			continue
		}
		if exceeded {
			if !gaveUp {
				fail("failure #%d is restart %d within the last %d s (limit %d) but the supervisor kept restarting", len(window), count, period, intensity)
			}
			if len(e.Running()) != 0 {
				fail("restart intensity exceeded but %d children were not told to stop", len(e.Running()))
			}
			drain()
			if !e.SupDead {
				fail("restart intensity exceeded, all children are gone, but the supervisor did not terminate")
			}
			if !errors.Is(e.SupReason, act.ErrSupervisorRestartsExceeded) {
				fail("restart intensity exceeded but the supervisor terminated with %q instead of %q", e.SupReason, act.ErrSupervisorRestartsExceeded)
			}
			break
		}
		if gaveUp {
			fail("failure #%d is only restart %d within the last %d s (limit %d) but the supervisor gave up", len(window), count, period, intensity)
		}
		drain()
		if e.SupDead {
			fail("supervisor terminated (%v) below the restart limit", e.SupReason)
		}
		if len(e.AliveOf(victim.Spec)) == 0 {
			fail("child %s was not restarted although the limit is not reached (%d of %d)", victim.Name, count, intensity)
		}
	}
	recSM.Case(aged, fmt.Sprintf("type=%d strategy=%v I=%d P=%d n=%d %s", typ, strategy, intensity, period, n, strings.Join(hist, " ")),
		fmt.Sprintf("type=%d", typ), fmt.Sprintf("gaveup=%v", e.SupDead))
}

func allStopWith(p []*suplab.Inst, reason error) bool {
	for _, in := range p {
		if in.StopWith != reason {
			return false
		}
	}
	return len(p) > 0
}

func TestIntensityStateMachine(t *testing.T) {
	rapid.Check(t, propIntensity)
}

var recPure = kit.NewRecorder("C09", "window-function",
	"the sliding-window function itself: generated lists of 0-12 earlier restart ages (sorted, oldest first; none within 60 ms of the window edge) x Intensity 1-8 x Period 1-12; oracle: exceeded iff (number of ages <= Period) + 1 > Intensity; non-trivial = at least one age beyond the period and one within; distinct by input")

func TestWindowFunction(t *testing.T) {
	rapid.Check(t, func(t *rapid.T) {
		intensity := rapid.IntRange(1, 8).Draw(t, "intensity")
		period := rapid.IntRange(1, 12).Draw(t, "period")
		pm := int64(period) * 1000
		n := rapid.IntRange(0, 12).Draw(t, "n")
		var ages []int64
		for i := 0; i < n; i++ {
			var a int64
			switch rapid.IntRange(0, 3).Draw(t, "agekind") {
			case 0:
				a = int64(rapid.IntRange(0, 200).Draw(t, "young"))
			case 1:
				a = pm - int64(rapid.IntRange(70, 1000).Draw(t, "under"))
			case 2:
				a = pm + int64(rapid.IntRange(70, 5000).Draw(t, "over"))
			default:
				a = int64(rapid.IntRange(0, int(3*pm)).Draw(t, "any"))
			}
			if a < 0 {
				a = 0
			}
			if a >= pm-60 && a <= pm+60 {
				a = pm + 500
			}
			ages = append(ages, a)
		}
		// oldest first
		for i := 0; i < len(ages); i++ {
			for j := i + 1; j < len(ages); j++ {
				if ages[j] > ages[i] {
					ages[i], ages[j] = ages[j], ages[i]
				}
			}
		}
		now := time.Now().UnixMilli()
		var restarts []int64
		within, beyond := 0, 0
		for _, a := range ages {
			restarts = append(restarts, now-a)
			if a <= pm {
				within++
			} else {
				beyond++
			}
		}
		_, got := act.VerifCheckRestartIntensity(restarts, period, intensity)
		// the function reads the clock itself: every age is older by the time that has passed since
		// `now` was taken (normally well below a millisecond, much more on a busy machine)
		elapsed := time.Now().UnixMilli() - now + 1
		withinLate := 0
		for _, a := range ages {
			if a+elapsed <= pm {
				withinLate++
			}
		}
		want := within+1 > intensity
		if (withinLate+1 > intensity) != want {
			t.Skipf("inconclusive: %d ms passed between building the ages and the call, an age crossed the edge of the window", elapsed)
		}
		if got != want {
			t.Fatalf("ages=%v period=%ds intensity=%d: exceeded=%v, the sliding-window definition says %v (%d restarts within the window + this one)", ages, period, intensity, got, want, within)
		}
		recPure.Case(within > 0 && beyond > 0, fmt.Sprintf("I=%d P=%d ages=%v", intensity, period, ages))
	})
}
