package c01

import (
	"fmt"
	"strings"
	"testing"

	"pgregory.net/rapid"

	"verif/harness/kit"
	"verif/harness/lifecycle"
)

var allOps = []int{lifecycle.OpSend, lifecycle.OpSend, lifecycle.OpCall, lifecycle.OpSendAfter, lifecycle.OpExitParent,
	lifecycle.OpExitOther, lifecycle.OpKill, lifecycle.OpKill, lifecycle.OpInspect, lifecycle.OpEvent, lifecycle.OpStop, lifecycle.OpBoom, lifecycle.OpOpenGate}

var recSched = kit.NewRecorder("C01", "scheduled",
	"receiver kind {actor, trapping actor, supervisor, pool} in state {idle, inside a handler, waiting for a response}; 2-4 agents x 1-3 ops from {send by pid/name/alias, call, SendAfter, exit from parent, exit from other, Kill, Kill again, inspect, event publication, stop message, panicking message, open gate}; the interleaving of all yield points (run.*, send.*, kill.*, wait.*, unreg.enter) of the receiver is drawn by rapid; "+
		"oracle: an entry/exit counter inside every callback (init, message, call, event, inspect, terminate) never exceeds 1; "+
		"non-trivial = two wake-up attempts, or a wake-up and a Kill, were parked at yield points of the receiver at the same moment; distinct by point trace")

func checkSerial(t *rapid.T, sc lifecycle.Scenario, rec *kit.Recorder) {
	res, err := lifecycle.Run(sc)
	if err != nil {
		t.Fatalf("%v (scenario %s)", err, sc)
	}
	if res.Inconclusive != "" {
		t.Skip(res.Inconclusive)
	}
	if n, d := res.Probe.Overlaps(); n > 0 {
		t.Fatalf("%d overlapping callback executions: %v\nscenario: %s\ntrace: %v", n, d, sc, res.Trace)
	}
	nontrivial := false
	for pair := range res.CoPark {
		ab := strings.Split(pair, "|")
		wake := func(x string) bool { return x == "run.enter" || x == "send.run" || x == "run.reacquire" || x == "run.spawn" }
		kill := func(x string) bool { return strings.HasPrefix(x, "kill.") }
		if (wake(ab[0]) && wake(ab[1])) || (wake(ab[0]) && kill(ab[1])) || (kill(ab[0]) && wake(ab[1])) || (kill(ab[0]) && kill(ab[1])) {
			nontrivial = true
		}
	}
	if !sc.Scheduled {
		nontrivial = len(res.RecvEvents) >= 3
	}
	key := sc.String() + " trace=" + strings.Join(res.Trace, ",")
	rec.Case(nontrivial, key, fmt.Sprintf("kind=%d", sc.Kind), fmt.Sprintf("state=%d", sc.State))
}

func TestScheduled(t *testing.T) {
	rapid.Check(t, func(t *rapid.T) {
		checkSerial(t, lifecycle.Generate(t, true, allOps), recSched)
	})
}

var recStress = kit.NewRecorder("C01", "stress",
	"the same scenarios fired from real goroutines without the scheduler, handlers spin 0-30us so that an overlap is observable; oracle as above; non-trivial = the receiver executed >= 3 callbacks; distinct by scenario")

func TestStress(t *testing.T) {
	rapid.Check(t, func(t *rapid.T) {
		checkSerial(t, lifecycle.Generate(t, false, allOps), recStress)
	})
}
