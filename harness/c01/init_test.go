package c01

import (
	"errors"
	"fmt"
	"strings"
	"sync"
	"testing"
	"time"

	"ergo.services/ergo/gen"
	"pgregory.net/rapid"

	"verif/harness/kit"
)

var recInit = kit.NewRecorder("C01", "init-window",
	"a process (actor, or an actor spawned by a parent process) publishes its own pid from inside Init and stays in Init while 2-4 agents fire 1-3 operations each at that pid: Kill, exit signal from a process, send with every priority, call, inspect; then Init returns; "+
		"oracle: no callback of the process overlaps its Init (entry/exit counter), Terminate runs at most once; if every termination request was refused (as it is while the process is not registered yet) the process is alive afterwards and handles a message; if one was accepted the process terminates, once, and not before Init has returned; "+
		"non-trivial = at least one Kill or exit signal was fired during Init; distinct by script")

func TestInitWindow(t *testing.T) {
	rapid.Check(t, func(t *rapid.T) {
		viaParent := rapid.Bool().Draw(t, "spawned-by-a-process")
		na := rapid.IntRange(2, 4).Draw(t, "agents")
		ops := make([][]int, na)
		var desc []string
		causes := 0
		for i := range ops {
			for j := rapid.IntRange(1, 3).Draw(t, "ops"); j > 0; j-- {
				o := rapid.IntRange(0, 5).Draw(t, "op") // 0 kill 1 exit 2 send 3 send-high 4 call 5 inspect
				if o <= 1 {
					causes++
				}
				ops[i] = append(ops[i], o)
				desc = append(desc, fmt.Sprintf("%d:%s", i, []string{"kill", "exit", "send", "send-max", "call", "inspect"}[o]))
			}
		}
		node, err := kit.StartLocalNode()
		if err != nil {
			t.Fatalf("start node: %v", err)
		}
		defer node.StopForce()
		probe := kit.NewProbe()
		pidCh := make(chan gen.PID, 1)
		release := make(chan struct{})
		var relOnce sync.Once
		open := func() { relOnce.Do(func() { close(release) }) }
		defer open()
		cfg := &kit.ActorConfig{Label: "recv", Probe: probe, OnInit: func(a *kit.Actor, args ...any) error {
			pidCh <- a.PID()
			<-release
			return nil
		}}
		helper, _ := node.Spawn(kit.Factory(&kit.ActorConfig{Label: "helper", Probe: probe, Quiet: true}), gen.ProcessOptions{})
		parent, _ := node.Spawn(kit.Factory(&kit.ActorConfig{Label: "parent", Probe: probe, Quiet: true}), gen.ProcessOptions{})
		spawned := make(chan error, 1)
		go func() {
			if viaParent {
				var serr error
				e := kit.InProc(node, parent, func(a *kit.Actor) { _, serr = a.Spawn(kit.Factory(cfg), gen.ProcessOptions{}) })
				if e != nil {
					serr = e
				}
				spawned <- serr
				return
			}
			_, err := node.Spawn(kit.Factory(cfg), gen.ProcessOptions{})
			spawned <- err
		}()
		var pid gen.PID
		select {
		case pid = <-pidCh:
		case <-time.After(5 * time.Second):
			t.Fatalf("Init did not start")
		}
		var mu sync.Mutex
		accepted := 0
		var wg sync.WaitGroup
		for i := range ops {
			wg.Add(1)
			go func(i int) {
				defer wg.Done()
				for _, o := range ops[i] {
					var err error
					switch o {
					case 0:
						err = node.Kill(pid)
					case 1:
						var xerr error
						if e := kit.InProc(node, helper, func(a *kit.Actor) { xerr = a.SendExit(pid, errors.New("exit during init")) }); e != nil {
							xerr = e
						}
						err = xerr
					case 2:
						node.Send(pid, kit.Numbered{ID: i})
						continue
					case 3:
						node.SendWithPriority(pid, kit.Numbered{ID: 100 + i}, gen.MessagePriorityMax)
						continue
					case 4:
						c, e := node.Spawn(kit.Factory(&kit.ActorConfig{Label: "caller", Probe: probe, Quiet: true}), gen.ProcessOptions{})
						if e == nil {
							node.Send(c, kit.Do{F: func(a *kit.Actor) { a.CallWithTimeout(pid, "ping", 1) }})
						}
						continue
					case 5:
						c, e := node.Spawn(kit.Factory(&kit.ActorConfig{Label: "inspector", Probe: probe, Quiet: true}), gen.ProcessOptions{})
						if e == nil {
							node.Send(c, kit.Do{F: func(a *kit.Actor) { a.Inspect(pid) }})
						}
						continue
					}
					if err == nil {
						mu.Lock()
						accepted++
						mu.Unlock()
					}
				}
			}(i)
		}
		wg.Wait()
		time.Sleep(time.Duration(rapid.IntRange(0, 2).Draw(t, "hold-ms")) * time.Millisecond)
		open()
		select {
		case <-spawned:
		case <-time.After(10 * time.Second):
			t.Fatalf("spawn did not return after Init was released; script %v", desc)
		}
		kit.WaitUntil(3*time.Second, func() bool { return kit.Quiesced(node, pid) })
		time.Sleep(2 * time.Millisecond)
		if n, d := probe.Overlaps(); n > 0 {
			t.Fatalf("%d overlapping callback executions: %v\nscript: %v (operations were fired while the process was inside Init)", n, d, desc)
		}
		evs := probe.EventsOf("recv")
		nterm, initIdx := 0, -1
		for i, e := range evs {
			if e.Kind == "terminate" {
				nterm++
			}
			if e.Kind == "init" {
				initIdx = i
			}
		}
		if nterm > 1 {
			t.Fatalf("Terminate ran %d times; script %v", nterm, desc)
		}
		for i, e := range evs {
			if e.Kind == "terminate" && (initIdx < 0 || i < initIdx) {
				t.Fatalf("Terminate completed before Init had returned; script %v", desc)
			}
		}
		_, infoErr := node.ProcessInfo(pid)
		mu.Lock()
		acc := accepted
		mu.Unlock()
		if acc == 0 {
			if infoErr != nil || nterm != 0 {
				t.Fatalf("every Kill/exit fired during Init was refused, yet the process is gone after Init (ProcessInfo: %v, Terminate ran %d times); script %v", infoErr, nterm, desc)
			}
			done := make(chan struct{})
			if err := node.Send(pid, kit.Do{F: func(a *kit.Actor) {}, Done: done}); err != nil {
				t.Fatalf("the process does not accept messages after Init: %v; script %v", err, desc)
			}
			select {
			case <-done:
			case <-time.After(5 * time.Second):
				t.Fatalf("the process does not handle messages after Init; script %v", desc)
			}
		} else if !kit.WaitUntil(5*time.Second, func() bool { _, err := node.ProcessInfo(pid); return err != nil && probe.Terminated("recv", pid) }) {
			t.Fatalf("%d Kill/exit requests fired during Init were accepted, but the process is still there 5 s after Init returned; script %v", acc, desc)
		}
		recInit.Case(causes > 0, fmt.Sprintf("parent=%v %s", viaParent, strings.Join(desc, " ")), fmt.Sprintf("accepted=%d", acc))
	})
}
