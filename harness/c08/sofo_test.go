package c08

import (
	"errors"
	"fmt"
	"sort"
	"strings"
	"testing"

	"ergo.services/ergo/act"
	"ergo.services/ergo/gen"
	"pgregory.net/rapid"

	"verif/harness/kit"
	"verif/harness/suplab"
)

var recSOFO = kit.NewRecorder("C08", "sofo",
	"simple-one-for-one state machine: 1-3 child specs x strategy; history of <= 20 events from {StartChild(spec) (dynamic instance), an instance dies with normal/shutdown/abnormal reason, DisableChild/EnableChild, AddChild, a stopping instance finishes, exit from a non-child}; "+
		"oracle: per-spec multiset model - an instance is replaced by exactly one fresh instance iff the strategy asks for it and the spec is enabled, disabled specs lose all instances and refuse StartChild, Children() == the set of live instances, no auto-shutdown, non-child exit stops everything and ends the supervisor with that reason; "+
		"non-trivial = >= 2 live instances of one spec at the moment of a death; distinct by history")

func propSOFO(t *rapid.T) {
	strategy := rapid.SampledFrom([]act.SupervisorStrategy{act.SupervisorStrategyTransient, act.SupervisorStrategyTemporary, act.SupervisorStrategyPermanent}).Draw(t, "strategy")
	n := rapid.IntRange(1, 3).Draw(t, "specs")
	spec := act.SupervisorSpec{Type: act.SupervisorTypeSimpleOneForOne, Restart: act.SupervisorRestart{Strategy: strategy, Intensity: 10000, Period: 1}}
	for i := 0; i < n; i++ {
		spec.Children = append(spec.Children, act.SupervisorChildSpec{Name: gen.Atom(fmt.Sprintf("s%d", i)), Significant: rapid.Bool().Draw(t, "sig")})
	}
	e, err := suplab.NewEnv(spec)
	if err != nil {
		t.Fatalf("init: %v", err)
	}
	enabled := map[gen.Atom]bool{}
	for _, nme := range e.Names {
		enabled[nme] = true
	}
	var hist []string
	nontriv := false
	fail := func(format string, a ...any) {
		t.Fatalf("%s\nstrategy=%v history=%v\nactions=%v", fmt.Sprintf(format, a...), strategy, hist, e.Log)
	}
	expectCount := map[gen.Atom]int{} // live, not stopping instances per spec
	shutdown := false
	var shutdownReason error
	check := func(ev string) {
		if e.Problem != "" {
			fail("%s", e.Problem)
		}
		if shutdown {
			if len(e.Pending()) == 0 && len(e.Running()) == 0 {
				if !e.SupDead {
					fail("after %s: all children are gone after a non-child exit but the supervisor keeps running", ev)
				}
				if !errors.Is(e.SupReason, shutdownReason) {
					fail("after %s: supervisor ended with %v, want %v", ev, e.SupReason, shutdownReason)
				}
			}
			if len(e.Running()) != 0 {
				fail("after %s: shutdown in progress but %d children were not told to stop", ev, len(e.Running()))
			}
			return
		}
		if e.SupDead {
			fail("after %s: simple-one-for-one supervisor terminated (%v) without a non-child exit", ev, e.SupReason)
		}
		got := map[gen.Atom]int{}
		for _, in := range e.Running() {
			got[in.Name]++
		}
		for _, nme := range e.Names {
			if got[nme] != expectCount[nme] {
				fail("after %s: spec %s has %d running instances, the rules say %d", ev, nme, got[nme], expectCount[nme])
			}
		}
		// view
		var view, truth []string
		for _, c := range e.Sup.Children() {
			view = append(view, fmt.Sprint(c.PID.ID))
		}
		for _, in := range e.Insts {
			if in.Alive {
				truth = append(truth, fmt.Sprint(in.PID.ID))
			}
		}
		sort.Strings(view)
		sort.Strings(truth)
		if strings.Join(view, ",") != strings.Join(truth, ",") {
			fail("after %s: Children() = %v, live instances = %v", ev, view, truth)
		}
	}
	check("init")
	steps := rapid.IntRange(1, 20).Draw(t, "steps")
	added := 0
	for s := 0; s < steps && !e.SupDead; s++ {
		e.ResetOrder()
		pending, running := e.Pending(), e.Running()
		kinds := []int{0, 0}
		if len(running) > 0 {
			kinds = append(kinds, 1, 1, 1)
		}
		if len(pending) > 0 {
			kinds = append(kinds, 2, 2)
		}
		if !shutdown {
			kinds = append(kinds, 3, 4, 5)
			if rapid.IntRange(0, 7).Draw(t, "foreign") == 0 {
				kinds = append(kinds, 6)
			}
		}
		k := rapid.SampledFrom(kinds).Draw(t, "event")
		name := e.Names[rapid.IntRange(0, len(e.Names)-1).Draw(t, "spec")]
		ev := ""
		switch k {
		case 0: // StartChild
			ev = fmt.Sprintf("StartChild(%s)", name)
			a, err := e.Sup.ChildSpec(name)
			if shutdown {
				if err == nil {
					e.Handle(a)
				}
				break
			}
			if enabled[name] {
				if err != nil {
					fail("%s failed: %v", ev, err)
				}
				e.Handle(a)
				expectCount[name]++
			} else if err == nil {
				fail("%s of a disabled spec succeeded", ev)
			}
		case 1: // instance dies
			in := running[rapid.IntRange(0, len(running)-1).Draw(t, "victim")]
			reason := rapid.SampledFrom([]error{gen.TerminateReasonNormal, gen.TerminateReasonShutdown, suplab.ErrAbnormal, suplab.ErrAbnormal}).Draw(t, "reason")
			ev = fmt.Sprintf("died(%s#%d,%v)", in.Name, in.PID.ID, reason)
			if expectCount[in.Name] >= 2 {
				nontriv = true
			}
			if !shutdown {
				restart := enabled[in.Name] && (strategy == act.SupervisorStrategyPermanent || (strategy == act.SupervisorStrategyTransient && abnormal(reason)))
				if !restart {
					expectCount[in.Name]--
				}
			}
			e.Die(in.PID, reason)
		case 2: // stop finishes
			in := pending[rapid.IntRange(0, len(pending)-1).Draw(t, "pending")]
			ev = fmt.Sprintf("stopped(%s#%d)", in.Name, in.PID.ID)
			e.Die(in.PID, in.StopWith)
		case 3: // DisableChild
			ev = fmt.Sprintf("DisableChild(%s)", name)
			a, err := e.Sup.ChildDisable(name)
			if err != nil {
				fail("%s failed: %v", ev, err)
			}
			e.Handle(a)
			enabled[name] = false
			expectCount[name] = 0
		case 4: // EnableChild
			busy := false
			for _, in := range pending {
				if in.Name == name {
					busy = true // re-enabling a spec whose instances are still being stopped is not specified
				}
			}
			if busy {
				continue
			}
			ev = fmt.Sprintf("EnableChild(%s)", name)
			a, err := e.Sup.ChildEnable(name)
			if err != nil {
				fail("%s failed: %v", ev, err)
			}
			e.Handle(a)
			enabled[name] = true
		case 5: // AddChild
			if added >= 2 {
				continue
			}
			added++
			nn := gen.Atom(fmt.Sprintf("added%d", added))
			ev = fmt.Sprintf("AddChild(%s)", nn)
			a, err := e.Sup.ChildAddSpec(act.SupervisorChildSpec{Name: nn, Factory: func() gen.ProcessBehavior { return nil }})
			if err != nil {
				fail("%s failed: %v", ev, err)
			}
			e.Names = append(e.Names, nn)
			enabled[nn] = true
			e.Handle(a)
		case 6: // non-child exit
			ev = "foreign-exit"
			shutdownReason = errors.New("foreign-exit")
			shutdown = true
			e.Handle(e.Sup.ChildTerminated(suplab.SupName, suplab.SupPID, shutdownReason))
		}
		hist = append(hist, ev)
		check(ev)
	}
	recSOFO.Case(nontriv, fmt.Sprintf("strategy=%v %s", strategy, strings.Join(hist, ",")), fmt.Sprintf("strategy=%v", strategy))
}

func TestSOFO(t *testing.T) {
	rapid.Check(t, propSOFO)
}
