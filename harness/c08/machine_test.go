package c08

import (
	"errors"
	"fmt"
	"strings"
	"testing"

	"ergo.services/ergo/act"
	"ergo.services/ergo/gen"
	"pgregory.net/rapid"

	"verif/harness/kit"
	"verif/harness/suplab"
)

var recSM = kit.NewRecorder("C08", "statemachine",
	"supervisor spec = type {one-for-one, all-for-one, rest-for-one, simple-one-for-one} x strategy {transient, temporary, permanent} x KeepOrder x significant flags x auto-shutdown x 1-4 children (intensity set high); history of <= 14 events from {a running child dies with normal/shutdown/abnormal reason, a child that was told to stop finishes (any order), a child that was told to stop dies with another reason, StartChild, AddChild, EnableChild, DisableChild of a running child (also in the middle of an all/rest-for-one restart or shutdown, where a refused call must change nothing), exit signal from a non-child}; the harness plays handleAction and the children; "+
		"oracle: reference model written from the documented rules, compared at every quiescent point (no stop pending): supervisor alive/terminated with the prescribed reason, must-run children running with a fresh pid, must-stay-down children down, Children() view == environment truth (no unnoticed death, no orphan, disabled flag), start actions in ascending spec order, KeepOrder stops one at a time in descending order, no panic, only action types handleAction knows; "+
		"non-trivial = a death was delivered while a restart or shutdown was in progress, or out of stop order; distinct by (spec, history)")

// signature of the open known finding: rest-for-one, a child in front of the
// restart position terminates while the rest is being stopped
const sigRFO = "rfo-death-before-restart-position-during-restart"

const (
	expAny = iota
	expRun
	expDown
)

type mspec struct {
	name     gen.Atom
	enabled  bool
	sig      bool
	exp      int
	fresh    gen.PID // if non-zero: the running pid must differ from this one
	disabled bool    // what Children() must report, when known
}

type model struct {
	typ       act.SupervisorType
	strategy  act.SupervisorStrategy
	autoshut  bool
	specs     []*mspec
	supExp    int // expAny, expRun(alive), expDown(dead)
	supReason error
	// restart in progress (between the triggering death and quiescence)
	inRestart  bool
	restartLow int
	inShutdown bool
}

func abnormal(r error) bool {
	return r != gen.TerminateReasonNormal && r != gen.TerminateReasonShutdown
}

func (m *model) restartNeeded(i int, r error) bool {
	if !m.specs[i].enabled {
		return false
	}
	switch m.strategy {
	case act.SupervisorStrategyPermanent:
		return true
	case act.SupervisorStrategyTransient:
		return abnormal(r)
	}
	return false
}

func (m *model) shutdown(reason error) {
	m.inShutdown = true
	m.supExp, m.supReason = expDown, reason
	for _, s := range m.specs {
		s.exp = expDown
	}
}

// childDied applies the documented rules to the death of the (single) instance of spec i.
func (m *model) childDied(i int, r error, pidAt func(int) gen.PID) {
	if m.inShutdown {
		return
	}
	s := m.specs[i]
	if m.inRestart && i >= m.restartLow && (m.typ == act.SupervisorTypeAllForOne || m.typ == act.SupervisorTypeRestForOne) {
		return // it is being restarted anyway
	}
	if m.restartNeeded(i, r) {
		switch m.typ {
		case act.SupervisorTypeOneForOne:
			s.exp, s.fresh = expRun, pidAt(i)
		case act.SupervisorTypeAllForOne, act.SupervisorTypeRestForOne:
			low := 0
			if m.typ == act.SupervisorTypeRestForOne {
				low = i
			}
			if m.inRestart && m.restartLow < low {
				low = m.restartLow
			}
			for j := low; j < len(m.specs); j++ {
				sj := m.specs[j]
				if !sj.enabled {
					continue
				}
				if j == i || sj.exp == expRun {
					sj.exp = expRun
					if p := pidAt(j); p != (gen.PID{}) && sj.fresh == (gen.PID{}) {
						sj.fresh = p
					}
				} else if sj.exp == expDown {
					sj.exp = expAny // a child that was down may or may not be brought up by the sweep
				}
			}
			m.inRestart, m.restartLow = true, low
		}
		return
	}
	// no restart for this child
	s.exp = expDown
	if !s.enabled {
		// disabled child went down as requested: with auto-shutdown the supervisor ends
		// when no child is left ("terminated normally by itself or the child spec was disabled")
		if m.autoshut && m.noneExpectedRunning() {
			switch {
			case m.anyUnknown() || m.strategy == act.SupervisorStrategyPermanent:
				m.supExp = expAny
			default:
				m.supExp, m.supReason = expDown, nil
				m.inShutdown = true
			}
		}
		return
	}
	permanent := m.strategy == act.SupervisorStrategyPermanent
	if s.sig && !permanent {
		m.shutdown(r)
		return
	}
	if m.autoshut && !permanent {
		if m.noneExpectedRunning() {
			if m.anyUnknown() {
				m.supExp = expAny
			} else {
				// the reason of an auto-shutdown is not documented: any
				m.supExp, m.supReason = expDown, nil
				m.inShutdown = true
			}
		}
	}
}

func (m *model) noneExpectedRunning() bool {
	for _, s := range m.specs {
		if s.exp == expRun {
			return false
		}
	}
	return true
}

func (m *model) anyUnknown() bool {
	for _, s := range m.specs {
		if s.exp == expAny {
			return true
		}
	}
	return false
}

// chooser is the source of generated choices: rapid draws or an exhaustive enumerator.
type chooser interface {
	pick(label string, n int) int // uniform in [0,n)
	weighted() bool               // true: event kinds may be listed several times to weight them
}

func (c rapidChooser) weighted() bool { return true }
func (c *enumChooser) weighted() bool { return false }

type rapidChooser struct{ t *rapid.T }

func (c rapidChooser) pick(label string, n int) int {
	if n <= 1 {
		return 0
	}
	return rapid.IntRange(0, n-1).Draw(c.t, label)
}

// enumChooser replays a prefix of choices and records the arity of every choice point.
type enumChooser struct {
	prefix []int
	arity  []int
	pos    int
}

func (c *enumChooser) pick(label string, n int) int {
	if n < 1 {
		n = 1
	}
	v := 0
	if c.pos < len(c.prefix) {
		v = c.prefix[c.pos]
	}
	if c.pos < len(c.arity) {
		c.arity[c.pos] = n
	} else {
		c.arity = append(c.arity, n)
	}
	c.pos++
	if v >= n {
		v = n - 1
	}
	return v
}

type caseSpec struct {
	typ      act.SupervisorType
	strategy act.SupervisorStrategy
	keep     bool
	noAuto   bool
	sig      []bool
}

func (c caseSpec) String() string {
	return fmt.Sprintf("type=%d strategy=%v keeporder=%v disableAutoShutdown=%v significant=%v", c.typ, c.strategy, c.keep, c.noAuto, c.sig)
}

func genSpec(t *rapid.T, maxChildren int) caseSpec {
	var c caseSpec
	c.typ = rapid.SampledFrom([]act.SupervisorType{act.SupervisorTypeOneForOne, act.SupervisorTypeAllForOne, act.SupervisorTypeRestForOne}).Draw(t, "type")
	c.strategy = rapid.SampledFrom([]act.SupervisorStrategy{act.SupervisorStrategyTransient, act.SupervisorStrategyTemporary, act.SupervisorStrategyPermanent}).Draw(t, "strategy")
	c.keep = rapid.Bool().Draw(t, "keeporder")
	c.noAuto = rapid.Bool().Draw(t, "disable_autoshutdown")
	n := rapid.IntRange(1, maxChildren).Draw(t, "children")
	for i := 0; i < n; i++ {
		c.sig = append(c.sig, rapid.IntRange(0, 4).Draw(t, "significant") == 0)
	}
	return c
}

func (c caseSpec) build() act.SupervisorSpec {
	spec := act.SupervisorSpec{Type: c.typ, DisableAutoShutdown: c.noAuto,
		Restart: act.SupervisorRestart{Strategy: c.strategy, Intensity: 10000, Period: 1, KeepOrder: c.keep}}
	for i, s := range c.sig {
		spec.Children = append(spec.Children, act.SupervisorChildSpec{Name: gen.Atom(fmt.Sprintf("c%d", i)), Significant: s})
	}
	return spec
}

// runner ties environment and model together.
type runner struct {
	c        caseSpec
	e        *suplab.Env
	m        *model
	hist     []string
	nontriv  bool
	fail     func(format string, a ...any)
	addCount int
	excluded bool
}

func newRunner(c caseSpec, fail func(string, ...any)) *runner {
	e, err := suplab.NewEnv(c.build())
	if err != nil {
		panic(fmt.Sprintf("init failed: %v", err))
	}
	m := &model{typ: c.typ, strategy: c.strategy, autoshut: !c.noAuto, supExp: expRun}
	for i, s := range c.sig {
		m.specs = append(m.specs, &mspec{name: gen.Atom(fmt.Sprintf("c%d", i)), enabled: true, sig: s, exp: expRun})
	}
	r := &runner{c: c, e: e, m: m, fail: fail}
	return r
}

func (r *runner) pidAt(i int) gen.PID {
	for _, in := range r.e.AliveOf(i) {
		return in.PID
	}
	return gen.PID{}
}

func (r *runner) checkProblem() {
	if r.e.Problem != "" {
		r.fail("%s", r.e.Problem)
	}
}

// checkOrder verifies start order (ascending) for the start actions of the last event.
func (r *runner) checkOrder(ev string) {
	r.checkProblem()
	for k := 1; k < len(r.e.Starts); k++ {
		if r.e.Starts[k] <= r.e.Starts[k-1] {
			r.fail("after %s: children started out of spec order: %v", ev, r.e.Starts)
		}
	}
	if r.c.keep && r.m.inRestart && !r.m.inShutdown && r.c.typ != act.SupervisorTypeOneForOne {
		for _, b := range r.e.Stops {
			if len(b) > 1 {
				r.fail("after %s: KeepOrder is set but %d children were told to stop at once: %v", ev, len(b), b)
			}
		}
	}
}

// quiescent compares model and implementation when nothing is pending.
func (r *runner) quiescent(ev string) {
	// a restart sweep is over once the supervisor has started children again
	// (all starts of a sweep are issued back to back)
	if r.m.inRestart && len(r.e.Starts) > 0 {
		r.m.inRestart = false
	}
	if len(r.e.Pending()) > 0 {
		return
	}
	m := r.m
	if r.e.SupDead {
		if m.supExp == expRun {
			r.fail("after %s: supervisor terminated (%v) but the rules say it keeps running", ev, r.e.SupReason)
		}
		if m.supExp == expDown && m.supReason != nil && !errors.Is(r.e.SupReason, m.supReason) && r.e.SupReason != m.supReason {
			r.fail("after %s: supervisor terminated with %v, the rules prescribe %v", ev, r.e.SupReason, m.supReason)
		}
		return
	}
	if m.supExp == expDown {
		r.fail("after %s: the rules say the supervisor terminates (%v) but it keeps running with %d live children", ev, m.supReason, len(r.e.Running()))
	}
	m.supExp = expRun
	m.inRestart = false
	view := r.e.Sup.Children()
	if len(view) != len(m.specs) {
		r.fail("after %s: Children() lists %d specs, the supervisor has %d", ev, len(view), len(m.specs))
	}
	for i, s := range m.specs {
		alive := r.e.AliveOf(i)
		if len(alive) > 1 {
			r.fail("after %s: two live instances of child %s", ev, s.name)
		}
		var pid gen.PID
		if len(alive) == 1 {
			pid = alive[0].PID
		}
		if view[i].PID != pid {
			r.fail("after %s: supervisor believes child %s is %v, in fact it is %v (a termination went unnoticed or a child is orphaned)", ev, s.name, view[i].PID, pid)
		}
		switch s.exp {
		case expRun:
			if pid == (gen.PID{}) {
				r.fail("after %s: child %s must be running (type %d, strategy %v) but is down", ev, s.name, r.c.typ, r.c.strategy)
			}
			if s.fresh != (gen.PID{}) && pid == s.fresh {
				r.fail("after %s: child %s must have been replaced but still runs as %v", ev, s.name, pid)
			}
		case expDown:
			if pid != (gen.PID{}) {
				r.fail("after %s: child %s must stay down (enabled=%v strategy %v) but runs as %v", ev, s.name, s.enabled, r.c.strategy, pid)
			}
		}
		if view[i].Disabled != !s.enabled {
			r.fail("after %s: Children() reports Disabled=%v for %s, expected %v", ev, view[i].Disabled, s.name, !s.enabled)
		}
		// adopt
		s.fresh = gen.PID{}
		if pid == (gen.PID{}) {
			s.exp = expDown
		} else {
			s.exp = expRun
		}
	}
}

func (r *runner) event(t chooser) bool {
	if r.e.SupDead {
		return false
	}
	pending := r.e.Pending()
	running := r.e.Running()
	if r.m.inRestart && r.c.typ == act.SupervisorTypeRestForOne && kit.IsKnown("C08", sigRFO) {
		for _, in := range pending {
			if in.Spec < r.m.restartLow {
				// a (disabled) child in front of the restart position is about to terminate during the
				// restart: same open known finding; the case ends here
				recSM.Excluded(sigRFO)
				r.excluded = true
				return false
			}
		}
	}
	type choice struct {
		kind int
		w    int
	}
	kinds := []int{}
	w := 1
	if t.weighted() {
		w = 3
	}
	if len(pending) > 0 {
		for i := 0; i < w; i++ {
			kinds = append(kinds, 0) // a stop finishes
		}
		kinds = append(kinds, 5) // the stopping child dies with another reason
	}
	if len(running) > 0 {
		for i := 0; i < (w+1)/2; i++ {
			kinds = append(kinds, 1)
		}
	}
	if len(pending) == 0 {
		kinds = append(kinds, 2) // management call
	} else if (r.m.inRestart || r.m.inShutdown) && (r.c.typ == act.SupervisorTypeAllForOne || r.c.typ == act.SupervisorTypeRestForOne) {
		kinds = append(kinds, 6) // management call while the group strategy is at work: refused or carried out, never half of it
	}
	if !t.weighted() || t.pick("foreign", 6) == 5 {
		kinds = append(kinds, 3) // exit signal from a non-child
	}
	k := kinds[t.pick("event", len(kinds))]
	r.e.ResetOrder()
	switch k {
	case 0, 5:
		in := pending[t.pick("which_pending", len(pending))]
		reason := in.StopWith
		if k == 5 {
			reason = suplab.ErrAbnormal
		}
		if r.m.inRestart || r.m.inShutdown {
			// out of stop order?
			if len(pending) > 1 && in != pending[len(pending)-1] {
				r.nontriv = true
			}
		}
		ev := fmt.Sprintf("stopped(%s,%v)", in.Name, reason)
		r.hist = append(r.hist, ev)
		// a child that was told to stop and goes down: the model only reacts if it was NOT part of a sweep
		if !in.Stopping {
			panic("harness")
		}
		if !r.m.specs[in.Spec].enabled && !r.m.inRestart && !r.m.inShutdown {
			// stopped because it was disabled
			r.m.childDied(in.Spec, reason, r.pidAt)
		}
		r.e.Die(in.PID, reason)
		r.checkOrder(ev)
		r.quiescent(ev)
	case 1:
		in := running[t.pick("which_running", len(running))]
		reason := []error{gen.TerminateReasonNormal, suplab.ErrAbnormal, gen.TerminateReasonShutdown}[t.pick("reason", 3)]
		if r.m.inRestart && r.c.typ == act.SupervisorTypeRestForOne && in.Spec < r.m.restartLow && kit.IsKnown("C08", sigRFO) {
			// open known finding: excluded by construction so that the search continues behind it.
			// With KeepOrder the code does move the restart position down to such a child, which is
			// right whenever that child has to be restarted; only then the history goes on.
			if !r.c.keep || !r.m.restartNeeded(in.Spec, reason) {
				recSM.Excluded(sigRFO)
				return true
			}
		}
		if len(pending) > 0 {
			r.nontriv = true
		}
		ev := fmt.Sprintf("died(%s,%v)", in.Name, reason)
		r.hist = append(r.hist, ev)
		r.m.childDied(in.Spec, reason, r.pidAt)
		r.e.Die(in.PID, reason)
		r.checkOrder(ev)
		r.quiescent(ev)
	case 2:
		r.management(t, false)
	case 6:
		r.management(t, true)
		if r.excluded {
			return false
		}
	case 3:
		reason := errors.New("foreign-exit")
		r.hist = append(r.hist, "foreign-exit")
		if !r.m.inShutdown {
			r.m.shutdown(reason)
		}
		r.e.ForeignExit(reason)
		r.checkOrder("foreign-exit")
		r.quiescent("foreign-exit")
	}
	return true
}

func (r *runner) management(t chooser, active bool) {
	m := r.m
	op := t.pick("mgmt", 4)
	i := t.pick("mgmt_spec", len(m.specs))
	s := m.specs[i]
	var a act.VerifAction
	var err error
	ev := ""
	if active {
		// A call made while a restart or the shutdown is in progress. The group strategies refuse
		// it (ErrSupervisorStrategyActive); a refused call must leave everything as it was - the
		// checks after the event compare the supervisor's view and the children with the
		// unchanged model.
		switch op {
		case 0:
			ev = fmt.Sprintf("StartChild(%s)", s.name)
			a, err = r.e.Sup.ChildSpec(s.name)
		case 1:
			if len(m.specs) >= 6 {
				return
			}
			ev = "AddChild(refused-name)"
			a, err = r.e.Sup.ChildAddSpec(act.SupervisorChildSpec{Name: "refusedname", Factory: func() gen.ProcessBehavior { return nil }})
		case 2:
			ev = fmt.Sprintf("EnableChild(%s)", s.name)
			a, err = r.e.Sup.ChildEnable(s.name)
		case 3:
			if s.exp != expRun || !s.enabled {
				return
			}
			ev = fmt.Sprintf("DisableChild(%s)", s.name)
			a, err = r.e.Sup.ChildDisable(s.name)
		}
		if err == nil {
			// (not refused: how a call that is carried out in the middle of a restart combines with it
			// is not specified; the history ends here)
			_ = a
			r.hist = append(r.hist, ev+"=accepted-during-restart")
			r.excluded = true
			return
		}
		r.nontriv = true
		ev += "=refused"
		r.hist = append(r.hist, ev)
		r.checkOrder(ev)
		r.quiescent(ev)
		return
	}
	switch op {
	case 0: // StartChild
		ev = fmt.Sprintf("StartChild(%s)", s.name)
		a, err = r.e.Sup.ChildSpec(s.name)
		switch {
		case !s.enabled:
			if err == nil {
				r.fail("%s on a disabled child succeeded", ev)
			}
		case s.exp == expRun:
			if err == nil {
				r.fail("%s on a running child succeeded", ev)
			}
		case s.exp == expDown:
			if err != nil {
				r.fail("%s on an enabled child that is down failed: %v", ev, err)
			}
			s.exp = expRun
		}
	case 1: // AddChild
		if len(m.specs) >= 6 {
			return
		}
		r.addCount++
		name := gen.Atom(fmt.Sprintf("added%d", r.addCount))
		ev = fmt.Sprintf("AddChild(%s)", name)
		a, err = r.e.Sup.ChildAddSpec(act.SupervisorChildSpec{Name: name, Factory: func() gen.ProcessBehavior { return nil }})
		if err != nil {
			r.fail("%s failed: %v", ev, err)
		}
		r.e.Names = append(r.e.Names, name)
		m.specs = append(m.specs, &mspec{name: name, enabled: true, exp: expRun})
	case 2: // EnableChild
		ev = fmt.Sprintf("EnableChild(%s)", s.name)
		a, err = r.e.Sup.ChildEnable(s.name)
		if err != nil {
			r.fail("%s failed: %v", ev, err)
		}
		if !s.enabled {
			s.enabled = true
			s.exp = expRun
		}
	case 3: // DisableChild (only of a running child: the other case is not specified)
		if s.exp != expRun || !s.enabled {
			return
		}
		ev = fmt.Sprintf("DisableChild(%s)", s.name)
		a, err = r.e.Sup.ChildDisable(s.name)
		if err != nil {
			r.fail("%s failed: %v", ev, err)
		}
		s.enabled = false
		s.exp = expDown
	}
	r.hist = append(r.hist, ev)
	if err == nil {
		r.e.Handle(a)
	}
	r.checkOrder(ev)
	r.quiescent(ev)
}

type failure struct{ msg string }

// runHistory executes one history of at most n events drawn from ch and returns the runner.
// Violations are reported through fail (which must not return).
func runHistory(c caseSpec, ch chooser, n int, fail func(r *runner, msg string)) (r *runner) {
	defer func() {
		if p := recover(); p != nil {
			if _, mine := p.(failure); mine {
				panic(p)
			}
			if strings.Contains(fmt.Sprintf("%T", p), "rapid") {
				panic(p) // rapid aborts a case by panicking with its own type
			}
			fail(r, fmt.Sprintf("supervisor state machine panicked: %v", p))
		}
	}()
	r = newRunner(c, nil)
	r.fail = func(format string, a ...any) { fail(r, fmt.Sprintf(format, a...)) }
	r.checkOrder("init")
	r.quiescent("init")
	for i := 0; i < n; i++ {
		if !r.event(ch) {
			break
		}
	}
	// drain: let every pending stop finish, then the final comparison
	for guard := 0; guard < 50 && !r.e.SupDead && !r.excluded; guard++ {
		p := r.e.Pending()
		if len(p) == 0 {
			break
		}
		if r.m.inRestart && r.c.typ == act.SupervisorTypeRestForOne && kit.IsKnown("C08", sigRFO) {
			hit := false
			for _, in := range p {
				if in.Spec < r.m.restartLow {
					hit = true
				}
			}
			if hit {
				recSM.Excluded(sigRFO)
				r.excluded = true
				break
			}
		}
		in := p[len(p)-1]
		r.e.ResetOrder()
		ev := fmt.Sprintf("stopped(%s)", in.Name)
		r.hist = append(r.hist, ev)
		if !r.m.specs[in.Spec].enabled && !r.m.inRestart && !r.m.inShutdown {
			r.m.childDied(in.Spec, in.StopWith, r.pidAt)
		}
		r.e.Die(in.PID, in.StopWith)
		r.checkOrder(ev)
		r.quiescent(ev)
	}
	return r
}

func describe(c caseSpec, r *runner, msg string) string {
	hist, log := []string{}, []string{}
	if r != nil {
		hist, log = r.hist, r.e.Log
	}
	return fmt.Sprintf("%s\nspec: %s\nhistory: %v\nactions: %v", msg, c, hist, log)
}

func propStateMachine(t *rapid.T) {
	c := genSpec(t, 4)
	n := rapid.IntRange(1, 14).Draw(t, "events")
	r := runHistory(c, rapidChooser{t}, n, func(r *runner, msg string) { t.Fatalf("%s", describe(c, r, msg)) })
	recSM.Case(r.nontriv, c.String()+" "+strings.Join(r.hist, ","), fmt.Sprintf("type=%d", c.typ), fmt.Sprintf("strategy=%v", c.strategy))
}

func TestStateMachine(t *testing.T) {
	rapid.Check(t, propStateMachine)
}

// TestKnownRFO is the directed replay of the open known finding sigRFO. It reports
// the finding as re-confirmed only if the implementation still misbehaves.
func TestKnownRFO(t *testing.T) {
	if !kit.IsKnown("C08", sigRFO) {
		t.Skip("not listed")
	}
	c := caseSpec{typ: act.SupervisorTypeRestForOne, strategy: act.SupervisorStrategyTransient, sig: []bool{true, false, false}}
	e, err := suplab.NewEnv(c.build())
	if err != nil {
		t.Fatal(err)
	}
	pid := func(i int) gen.PID { return e.AliveOf(i)[0].PID }
	e.Die(pid(1), suplab.ErrAbnormal)        // c1 fails: c2 is told to stop
	e.Die(pid(0), gen.TerminateReasonNormal) // significant c0 exits normally meanwhile: the supervisor must shut down
	for _, in := range e.Pending() {
		e.Die(in.PID, in.StopWith)
	}
	if !e.SupDead {
		recSM.Confirmed(sigRFO, kit.KnownWhat("C08", sigRFO))
	}
	recSM.Case(true, "directed replay: RFO [sig c0,c1,c2] died(c1,abnormal) died(c0,normal) stopped(c2)")
}
