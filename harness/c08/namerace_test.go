package c08

import (
	"fmt"
	"strings"
	"testing"
	"time"

	"ergo.services/ergo/act"
	"ergo.services/ergo/gen"
	"pgregory.net/rapid"

	"verif/harness/kit"
)

var recName = kit.NewRecorder("C08", "restart-vs-name-release",
	"a real supervisor (generated type/strategy permanent|transient, 1-3 children) whose child is killed while the goroutine that unregisters the dead child is parked by the controlled scheduler at a generated yield point inside unregisterProcess (between the table removals and the notifications); the supervisor is free to react meanwhile; "+
		"oracle: the supervisor survives and the killed child is running again under its registered name (a restart must never fail because the old incarnation still holds the name); "+
		"non-trivial = the unregistering goroutine was parked after the exit signal had been sent; distinct by (spec, park point)")

func propNameRace(t *rapid.T) {
	typ := rapid.SampledFrom([]act.SupervisorType{act.SupervisorTypeOneForOne, act.SupervisorTypeAllForOne, act.SupervisorTypeRestForOne}).Draw(t, "type")
	n := rapid.IntRange(1, 3).Draw(t, "children")
	victim := rapid.IntRange(0, n-1).Draw(t, "victim")
	point := rapid.SampledFrom([]string{"unreg.enter", "unreg.deleted", "unreg.pid.drained", "unreg.name.deleted", "unreg.alias.deleted"}).Draw(t, "park_at")
	hold := time.Duration(rapid.IntRange(1, 6).Draw(t, "hold_ms")) * time.Millisecond

	node, err := kit.StartLocalNode()
	if err != nil {
		t.Fatalf("start node: %v", err)
	}
	defer node.StopForce()
	probe := kit.NewProbe()
	var children []act.SupervisorChildSpec
	for i := 0; i < n; i++ {
		children = append(children, act.SupervisorChildSpec{Name: gen.Atom(fmt.Sprintf("nr%d", i)),
			Factory: kit.Factory(&kit.ActorConfig{Label: fmt.Sprintf("nr%d", i), Probe: probe, Quiet: true,
				OnInit: func(a *kit.Actor, args ...any) error { a.CreateAlias(); return nil }})})
	}
	var supReason error
	supDead := make(chan struct{})
	_, err = node.Spawn(kit.SupFactory(&kit.SupConfig{Label: "sup", Probe: probe,
		Spec: func(args ...any) (act.SupervisorSpec, error) {
			return act.SupervisorSpec{Type: typ, Children: children, DisableAutoShutdown: true,
				Restart: act.SupervisorRestart{Strategy: act.SupervisorStrategyPermanent, Intensity: 1000, Period: 5}}, nil
		},
		OnTerm: func(s *kit.Sup, reason error) { supReason = reason; close(supDead) }}), gen.ProcessOptions{})
	if err != nil {
		t.Fatalf("spawn supervisor: %v", err)
	}
	name := gen.Atom(fmt.Sprintf("nr%d", victim))
	var old gen.PID
	if !kit.WaitUntil(2*time.Second, func() bool {
		for _, e := range probe.EventsOf(string(name)) {
			if e.Kind == "init" {
				return true
			}
		}
		return false
	}) {
		t.Skip("child did not start")
	}
	pl, _ := node.ProcessList()
	for _, p := range pl {
		if info, err := node.ProcessInfo(p); err == nil && info.Name == name {
			old = p
		}
	}
	if old == (gen.PID{}) {
		t.Skip("child not found")
	}
	s := kit.NewSched(func(pname string, id uint64) bool { return id == old.ID && pname == point })
	defer s.Close()
	go node.Kill(old)
	parked := kit.WaitUntil(500*time.Millisecond, func() bool { return len(s.ParkedNames()) > 0 })
	time.Sleep(hold) // the supervisor may react while the unregistering goroutine is parked
	s.Close()
	ok := kit.WaitUntil(3*time.Second, func() bool {
		select {
		case <-supDead:
			return true
		default:
		}
		pl, _ := node.ProcessList()
		for _, p := range pl {
			if info, err := node.ProcessInfo(p); err == nil && info.Name == name && p != old {
				return true
			}
		}
		return false
	})
	select {
	case <-supDead:
		t.Fatalf("supervisor terminated with %q while restarting child %s (unregistering goroutine parked at %s for %v)", supReason, name, point, hold)
	default:
	}
	if !ok {
		t.Fatalf("child %s was not restarted (parked at %s)", name, point)
	}
	recName.Case(parked && strings.HasPrefix(point, "unreg.") && point != "unreg.enter" && point != "unreg.deleted",
		fmt.Sprintf("type=%d n=%d victim=%d point=%s hold=%v", typ, n, victim, point, hold), "point="+point)
}

func TestRestartNameRace(t *testing.T) {
	rapid.Check(t, propNameRace)
}
