package c08

import (
	"errors"
	"fmt"
	"strings"
	"sync"
	"testing"
	"time"

	"ergo.services/ergo/act"
	"ergo.services/ergo/gen"
	"pgregory.net/rapid"

	"verif/harness/kit"
)

var recReal = kit.NewRecorder("C08", "realnode",
	"real supervisors on a real node (one/all/rest-for-one x strategy x KeepOrder x 1-4 instrumented child actors, auto-shutdown off, no significant children): 1-6 fault rounds, each either a single fault or a burst of 2-3 faults fired without waiting, fault = Kill / normal stop / crash of a generated child; "+
		"oracle at quiescence after each round: for a single fault the children whose pid changed are exactly those the type prescribes (one-for-one: the dead one; all-for-one: all; rest-for-one: the dead one and those after it) iff the strategy asks for a restart, otherwise only the dead child is down; always: every pid in Children() is alive, every live child process is in Children() (no orphan, no unnoticed death), the supervisor is alive and never ends with reason 'panic'; "+
		"non-trivial = a burst round, or a restart of >= 2 children; distinct by (spec, script)")

type live struct {
	mu   sync.Mutex
	pids map[gen.PID]string // live child pid -> spec name
}

func propReal(t *rapid.T) {
	typ := rapid.SampledFrom([]act.SupervisorType{act.SupervisorTypeOneForOne, act.SupervisorTypeAllForOne, act.SupervisorTypeRestForOne}).Draw(t, "type")
	strategy := rapid.SampledFrom([]act.SupervisorStrategy{act.SupervisorStrategyTransient, act.SupervisorStrategyTemporary, act.SupervisorStrategyPermanent}).Draw(t, "strategy")
	keep := rapid.Bool().Draw(t, "keeporder")
	n := rapid.IntRange(1, 4).Draw(t, "children")
	rounds := rapid.IntRange(1, 6).Draw(t, "rounds")
	type fault struct{ child, kind int } // kind 0 kill 1 normal 2 crash
	var script [][]fault
	for r := 0; r < rounds; r++ {
		k := 1
		if rapid.IntRange(0, 2).Draw(t, "burst") == 0 {
			k = rapid.IntRange(2, 3).Draw(t, "burstsize")
		}
		var fs []fault
		for i := 0; i < k; i++ {
			fs = append(fs, fault{rapid.IntRange(0, n-1).Draw(t, "child"), rapid.IntRange(0, 2).Draw(t, "kind")})
		}
		script = append(script, fs)
	}
	node, err := kit.StartLocalNode()
	if err != nil {
		t.Fatalf("start node: %v", err)
	}
	defer node.StopForce()
	probe := kit.NewProbe()
	lv := &live{pids: map[gen.PID]string{}}
	var children []act.SupervisorChildSpec
	for i := 0; i < n; i++ {
		name := fmt.Sprintf("rc%d", i)
		cfg := &kit.ActorConfig{Label: name, Probe: probe, Quiet: true,
			OnInit: func(a *kit.Actor, args ...any) error {
				lv.mu.Lock()
				lv.pids[a.PID()] = name
				lv.mu.Unlock()
				return nil
			},
			OnTerm: func(a *kit.Actor, reason error) {
				lv.mu.Lock()
				delete(lv.pids, a.PID())
				lv.mu.Unlock()
			}}
		children = append(children, act.SupervisorChildSpec{Name: gen.Atom(name), Factory: kit.Factory(cfg)})
	}
	// the last 0-2 children are not part of the initial specification: they are added with
	// AddChild once the supervisor runs (they must be supervised like the others)
	late := rapid.IntRange(0, 2).Draw(t, "added_later")
	if late > n-1 {
		late = n - 1
	}
	initial, added := children[:n-late], children[n-late:]
	var supReason error
	supDead := make(chan struct{})
	sup, err := node.Spawn(kit.SupFactory(&kit.SupConfig{Label: "sup", Probe: probe,
		Spec: func(args ...any) (act.SupervisorSpec, error) {
			return act.SupervisorSpec{Type: typ, Children: initial, DisableAutoShutdown: true,
				Restart: act.SupervisorRestart{Strategy: strategy, Intensity: 1000, Period: 5, KeepOrder: keep}}, nil
		},
		OnTerm: func(s *kit.Sup, reason error) { supReason = reason; close(supDead) }}), gen.ProcessOptions{})
	if err != nil {
		t.Fatalf("spawn supervisor: %v", err)
	}
	if len(added) > 0 {
		var aerr error
		done := make(chan struct{})
		if err := node.Send(sup, kit.DoSup{F: func(s *kit.Sup) {
			for _, c := range added {
				if e := s.AddChild(c); e != nil && aerr == nil {
					aerr = e
				}
			}
		}, Done: done}); err != nil {
			t.Fatalf("send to supervisor: %v", err)
		}
		<-done
		if aerr != nil {
			t.Fatalf("AddChild: %v", aerr)
		}
	}
	view := func() ([]act.SupervisorChild, bool) {
		var out []act.SupervisorChild
		done := make(chan struct{})
		if err := node.Send(sup, kit.DoSup{F: func(s *kit.Sup) { out = s.Children() }, Done: done}); err != nil {
			return nil, false
		}
		select {
		case <-done:
			return out, true
		case <-supDead:
			return nil, false
		case <-time.After(3 * time.Second):
			return nil, false
		}
	}
	alive := func(p gen.PID) bool { _, err := node.ProcessInfo(p); return err == nil }
	// quiescent: the view is consistent with reality and stable
	consistent := func() (map[string]gen.PID, string) {
		v, ok := view()
		if !ok {
			return nil, "supervisor does not answer"
		}
		m := map[string]gen.PID{}
		inView := map[gen.PID]bool{}
		for _, c := range v {
			m[string(c.Spec)] = c.PID
			if c.PID != (gen.PID{}) {
				if !alive(c.PID) {
					return nil, fmt.Sprintf("Children() lists %s as %v which is not alive", c.Spec, c.PID)
				}
				inView[c.PID] = true
			}
		}
		lv.mu.Lock()
		defer lv.mu.Unlock()
		for p, name := range lv.pids {
			if !inView[p] && alive(p) {
				return nil, fmt.Sprintf("live child process %v (%s) is unknown to the supervisor", p, name)
			}
		}
		return m, ""
	}
	// settled is a state predicate, not a timer: the terminate callbacks of the victims have run
	// (they follow the exit signal to the supervisor), the supervisor and every live child are
	// asleep with empty mailboxes (so no exit signal is in flight) and the view is consistent.
	settled := func(victims []gen.PID) (map[string]gen.PID, string) {
		lv.mu.Lock()
		for _, v := range victims {
			if _, still := lv.pids[v]; still {
				lv.mu.Unlock()
				return nil, "victim's terminate callback has not run yet"
			}
		}
		var kids []gen.PID
		for p := range lv.pids {
			kids = append(kids, p)
		}
		lv.mu.Unlock()
		if !kit.Quiesced(node, sup) {
			return nil, "supervisor busy"
		}
		for _, k := range kids {
			if !alive(k) {
				return nil, "child busy (terminating)" // gone from the table, its terminate callback has not run yet
			}
			if !kit.Quiesced(node, k) {
				return nil, "child busy"
			}
		}
		return consistent()
	}
	settle := func(victims ...gen.PID) (map[string]gen.PID, string) {
		var last string
		var m map[string]gen.PID
		ok := kit.WaitUntil(5*time.Second, func() bool {
			select {
			case <-supDead:
				return true
			default:
			}
			m, last = settled(victims)
			if last != "" {
				return false
			}
			m2, l2 := settled(victims)
			return l2 == "" && fmt.Sprint(m) == fmt.Sprint(m2) && kit.Quiesced(node, sup)
		})
		if !ok {
			return nil, last
		}
		return m, ""
	}
	before, problem := settle()
	if problem != "" {
		t.Fatalf("initial state: %s", problem)
	}
	nontriv := false
	var hist []string
	for _, fs := range script {
		select {
		case <-supDead:
			t.Fatalf("supervisor terminated (%v) although auto-shutdown is off and no child is significant; history %v", supReason, hist)
		default:
		}
		single := len(fs) == 1
		var victim gen.PID
		var victims []gen.PID
		for _, f := range fs {
			p := before[fmt.Sprintf("rc%d", f.child)]
			hist = append(hist, fmt.Sprintf("fault(rc%d,%d)", f.child, f.kind))
			if p == (gen.PID{}) {
				single = false
				continue
			}
			victim = p
			victims = append(victims, p)
			switch f.kind {
			case 0:
				node.Kill(p)
			case 1:
				node.Send(p, kit.Stop{Reason: gen.TerminateReasonNormal})
			case 2:
				node.Send(p, kit.Stop{Reason: errors.New("crash")})
			}
		}
		if !single {
			nontriv = true
		}
		// the fault must take effect before we look
		if victim != (gen.PID{}) {
			kit.WaitUntil(2*time.Second, func() bool { return !alive(victim) })
		}
		after, problem := settle(victims...)
		select {
		case <-supDead:
			if errors.Is(supReason, gen.TerminateReasonPanic) {
				t.Fatalf("supervisor ended with reason 'panic'; history %v", hist)
			}
			t.Fatalf("supervisor terminated (%v) although auto-shutdown is off and no child is significant; history %v", supReason, hist)
		default:
		}
		if problem != "" {
			if strings.Contains(problem, "busy") || strings.Contains(problem, "not run yet") || strings.Contains(problem, "does not answer") {
				t.Skip("did not settle: " + problem + " (inconclusive)")
			}
			t.Fatalf("after %v: %s (type %d strategy %v keeporder %v)", hist, problem, typ, strategy, keep)
		}
		if single {
			f := fs[0]
			restart := strategy == act.SupervisorStrategyPermanent || (strategy == act.SupervisorStrategyTransient && f.kind != 1)
			changed := 0
			for i := 0; i < n; i++ {
				name := fmt.Sprintf("rc%d", i)
				b, a := before[name], after[name]
				mustChange := false
				if restart {
					switch typ {
					case act.SupervisorTypeOneForOne:
						mustChange = i == f.child
					case act.SupervisorTypeAllForOne:
						mustChange = b != (gen.PID{}) || i == f.child
					case act.SupervisorTypeRestForOne:
						mustChange = i == f.child || (i > f.child && b != (gen.PID{}))
					}
				}
				switch {
				case i == f.child && !restart:
					if a != (gen.PID{}) {
						t.Fatalf("child %s terminated (kind %d) under strategy %v but was restarted as %v; history %v", name, f.kind, strategy, a, hist)
					}
				case mustChange:
					if a == (gen.PID{}) || a == b {
						t.Fatalf("type %d strategy %v: after the fault in rc%d child %s must have been replaced (before %v, after %v); history %v", typ, strategy, f.child, name, b, a, hist)
					}
					changed++
				case b != (gen.PID{}) && a != b && !(typ != act.SupervisorTypeOneForOne && restart && i >= f.child):
					t.Fatalf("type %d strategy %v: child %s must be untouched by the fault in rc%d but changed from %v to %v; history %v", typ, strategy, name, f.child, b, a, hist)
				}
			}
			if changed >= 2 {
				nontriv = true
			}
		}
		before = after
	}
	recReal.Case(nontriv, fmt.Sprintf("type=%d strategy=%v keep=%v n=%d %s", typ, strategy, keep, n, strings.Join(hist, ",")), fmt.Sprintf("type=%d", typ))
}

func TestRealNode(t *testing.T) {
	rapid.Check(t, propReal)
}
