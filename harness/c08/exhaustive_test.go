package c08

import (
	"fmt"
	"strings"
	"testing"

	"ergo.services/ergo/act"

	"verif/harness/kit"
)

// TestSmallScope enumerates EVERY history of at most H events for every spec with at
// most K children (all types, strategies, KeepOrder, auto-shutdown and significant
// flags) by walking the tree of choice points exhaustively.
func TestSmallScope(t *testing.T) {
	H, K := 3, 3
	if kit.Tier() == "thorough" {
		H, K = 4, 3
	}
	rec := kit.NewRecorder("C08", "smallscope", fmt.Sprintf(
		"exhaustive enumeration: every spec with <= %d children (3 types x 3 strategies x KeepOrder x auto-shutdown x all significant-flag vectors) x every history of <= %d events (every choice of event kind, victim, reason, management call) - same oracle as the state-machine part; non-trivial = death delivered during a restart/shutdown or out of stop order; distinct by (spec, history)", K, H))
	rec.Compact()
	var specs []caseSpec
	for _, typ := range []act.SupervisorType{act.SupervisorTypeOneForOne, act.SupervisorTypeAllForOne, act.SupervisorTypeRestForOne} {
		for _, st := range []act.SupervisorStrategy{act.SupervisorStrategyTransient, act.SupervisorStrategyTemporary, act.SupervisorStrategyPermanent} {
			for _, keep := range []bool{false, true} {
				for _, noAuto := range []bool{false, true} {
					for n := 1; n <= K; n++ {
						for mask := 0; mask < 1<<n; mask++ {
							c := caseSpec{typ: typ, strategy: st, keep: keep, noAuto: noAuto}
							for i := 0; i < n; i++ {
								c.sig = append(c.sig, mask&(1<<i) != 0)
							}
							specs = append(specs, c)
						}
					}
				}
			}
		}
	}
	// shard the spec list
	shard, shards := kit.Shard()
	total := 0
	for si, c := range specs {
		if si%shards != shard {
			continue
		}
		prefix := []int{}
		for {
			ch := &enumChooser{prefix: prefix}
			var failed string
			func() {
				defer func() {
					if p := recover(); p != nil {
						if f, ok := p.(failure); ok {
							failed = f.msg
							return
						}
						panic(p)
					}
				}()
				r := runHistory(c, ch, H, func(r *runner, msg string) { panic(failure{describe(c, r, msg)}) })
				total++
				rec.Case(r.nontriv, c.String()+" "+strings.Join(r.hist, ","))
			}()
			if failed != "" {
				t.Fatalf("choices %v: %s", prefix, failed)
			}
			// next prefix in the odometer order over the recorded arities
			cur := make([]int, len(ch.arity))
			copy(cur, prefix)
			i := len(cur) - 1
			for ; i >= 0; i-- {
				if cur[i]+1 < ch.arity[i] {
					cur[i]++
					cur = cur[:i+1]
					break
				}
			}
			if i < 0 {
				break
			}
			prefix = cur
		}
	}
	rec.Exhaustive(true)
	rec.Extra("specs", len(specs))
	rec.Extra("histories", total)
	t.Logf("specs=%d histories=%d", len(specs), total)
}
